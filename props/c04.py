"""C04 - measures do not depend on node numbering.

Metamorphic relation m(pi.G) == pi.m(G): the relabelled object is rebuilt by
the harness from permuted inputs (adjacency, weights, link attributes,
coordinates, resistances, state vectors) and, for Network, also obtained
through permuted_copy().  The measure table is built by introspection (every
public method callable without arguments) plus explicit entries for methods
taking node lists / keys / orders.
"""
import inspect
import itertools

import numpy as np
from hypothesis import strategies as st

from vp.pbt import SubCheck, allclose, maxdiff
from vp.gen import graphs as G

PROPERTY = "C04"
RULE = ("cases = (object kind, graph, weights, link attributes, coordinates "
        "/ resistances / state vectors, node groups, permutation); all n! "
        "permutations for graphs on <= 4 nodes (and for a fixed sample of "
        "5-node graphs), random permutations of generated graphs up to 14 "
        "nodes. Non-trivial = the permutation is not the identity and the "
        "relabelled adjacency matrix differs from the original; distinct = "
        "hash of the whole case.")
ASSUMPTIONS = [
    "a measure is compared only where both objects return a value or both "
    "raise the same exception type",
    "spectral measures (eigenvector centralities, synchronizability) only on "
    "connected undirected graphs with >= 3 nodes, tolerance 1e-6; Newman / "
    "Arenas random-walk betweenness only on undirected graphs (defined via "
    "undirected component sub-networks)",
    "results are classified by shape: length-N vectors permute, N x N "
    "matrices permute on both axes, everything else is global (frequency "
    "distributions / histograms are listed explicitly as global)",
    "float32 pipelines (grid distances, resistive kernels) compared with "
    "1e-5, float64 pipelines with 1e-9",
]

GLOBAL_ARRAYS = {
    "degree_distribution", "indegree_distribution", "outdegree_distribution",
    "degree_cdf", "indegree_cdf", "outdegree_cdf", "nsi_degree_histogram",
    "nsi_degree_cumulative_histogram", "link_distance_distribution",
    "area_weighted_connectivity_distribution",
    "inarea_weighted_connectivity_distribution",
    "outarea_weighted_connectivity_distribution",
    "area_weighted_connectivity_cumulative_distribution",
    "inarea_weighted_connectivity_cumulative_distribution",
    "outarea_weighted_connectivity_cumulative_distribution",
    "geographical_distribution", "geographical_cumulative_distribution",
}
# not measures (constructors, I/O, mutators, randomised, label-carrying)
EXCLUDE = {
    "copy", "undirected_copy", "permuted_copy", "splitted_copy", "save",
    "Load", "FromIGraph", "SmallTestNetwork", "SmallDirectedTestNetwork",
    "SmallComplexNetwork", "Model", "ErdosRenyi", "BarabasiAlbert",
    "BarabasiAlbert_igraph", "Configuration", "WattsStrogatz", "GrowWeights",
    "GrowPreferentially", "GrowPreferentially_old", "randomly_rewire",
    "edge_list", "clear_cache", "cache_clear", "save_for_cgv",
    "randomly_rewire_geomodel_I", "randomly_rewire_geomodel_II",
    "randomly_rewire_geomodel_III", "set_random_links_by_distance",
    "update_admittance", "update_R", "update_resistances",
    "RandomlySetCrossLinks", "RandomlySetCrossLinks_sparse",
    "RandomlyRewireCrossLinks", "print_grid_size", "print_boundaries",
    "cartesian2latlon", "latlon2cartesian",
}
SPECTRAL = {"eigenvector_centrality", "nsi_eigenvector_centrality",
            "msf_synchronizability"}


def zero_arg_methods(obj):
    out = []
    for name in sorted(dir(type(obj))):
        if name.startswith("_") or name in EXCLUDE:
            continue
        attr = inspect.getattr_static(type(obj), name)
        if isinstance(attr, (property, staticmethod, classmethod)):
            continue
        fn = getattr(obj, name, None)
        if not callable(fn):
            continue
        try:
            sig = inspect.signature(fn)
        except (TypeError, ValueError):
            continue
        if all(p.default is not inspect.Parameter.empty
               or p.kind in (p.VAR_POSITIONAL, p.VAR_KEYWORD)
               for p in sig.parameters.values()):
            out.append(name)
    return out


def _dense(x):
    if hasattr(x, "toarray"):
        return x.toarray()
    return x


def equiv(rec, clause, name, a, b, perm, n, tol):
    """a: result on the original, b: on the relabelled object."""
    a = _dense(a)
    b = _dense(b)
    if isinstance(a, dict) and isinstance(b, dict):
        for k in sorted(a):
            equiv(rec, clause, name, a[k], b.get(k), perm, n, tol)
        return
    if isinstance(a, (tuple, list)) and isinstance(b, (tuple, list)) and \
            len(a) == len(b) and any(isinstance(x, (np.ndarray, tuple, list))
                                     or hasattr(x, "toarray") for x in a):
        for x, y in zip(a, b):
            equiv(rec, clause, name, x, y, perm, n, tol)
        return
    if a is None or isinstance(a, str) or b is None:
        return
    try:
        aa = np.asarray(a, dtype=float)
        bb = np.asarray(b, dtype=float)
    except (TypeError, ValueError):
        return
    p = np.asarray(perm)
    if name in GLOBAL_ARRAYS or aa.ndim == 0:
        exp = aa
    elif aa.ndim == 1 and aa.shape[0] == n:
        exp = aa[p]
    elif aa.ndim == 2 and aa.shape == (n, n):
        exp = aa[p][:, p]
    else:
        exp = aa
    if not allclose(bb, exp, rtol=tol, atol=tol * 1e-2):
        rec.fail(clause, "maxdiff=%s relabelled=%s expected=%s" % (
            maxdiff(bb, exp), np.array2string(bb.ravel()[:8], precision=6),
            np.array2string(np.asarray(exp).ravel()[:8], precision=6)))


def both(rec, clause, name, fa, fb, perm, n, tol, args_a=(), args_b=(),
         kw=None):
    kw = kw or {}
    try:
        a = fa(*args_a, **kw)
        ea = None
    except Exception as e:  # pylint: disable=broad-except
        ea = e
    try:
        b = fb(*args_b, **kw)
        eb = None
    except Exception as e:  # pylint: disable=broad-except
        eb = e
    if ea is not None or eb is not None:
        if type(ea) is not type(eb):
            rec.fail(clause + "_raises_differ", "original: %r relabelled: %r"
                     % (ea, eb))
        return
    equiv(rec, clause, name, a, b, perm, n, tol)


def tol_for(name):
    if name in SPECTRAL:
        return 1e-6
    if "newman" in name or "arenas" in name or "spreading" in name:
        return 1e-7
    return 1e-9


def _nontrivial(rec, A, perm):
    p = np.asarray(perm)
    if not np.array_equal(p, np.arange(len(p))) and \
            not np.array_equal(A[p][:, p], A):
        rec.nontrivial(True)


# -------------------------------------------------------------- Network

def oracle_network(case, rec):
    from pyunicorn.core import Network
    g = case["g"]
    n = g["n"]
    directed = g["directed"]
    A = G.adj(g).astype(int)
    perm = list(case["perm"])
    p = np.asarray(perm)
    inv = np.argsort(p)
    w = np.array(case["w"], dtype=float)
    W = np.array(case["W"], dtype=float) if case.get("W") is not None and \
        g["edges"] else None
    rec.label("directed" if directed else "undirected")
    _nontrivial(rec, A, perm)
    net = Network(adjacency=G.represent_adj(A), directed=directed,
                  node_weights=G.represent_weights(w),
                  silence_level=3)
    net2 = Network(adjacency=G.represent_adj(A[p][:, p]), directed=directed,
                   node_weights=G.represent_weights(w[p]), silence_level=3)
    if W is not None:
        net.set_link_attribute("la", W)
        net2.set_link_attribute("la", W[p][:, p])
    ok, pc = rec.call("permuted_copy_raises", net.permuted_copy, perm)
    if ok:
        rec.equal(np.asarray(pc.adjacency), A[p][:, p],
                  "permuted_copy_adjacency")
        rec.close(pc.node_weights, w[p], "permuted_copy_weights", rtol=0)
    connected = G.is_connected(A) and not directed and n >= 3 and g["edges"]
    names = zero_arg_methods(net)
    # case-dependent order (the same on both objects)
    from vp.pbt import case_hash
    hk = int(case_hash(case)[:8], 16)
    names = [names[i] for i in sorted(
        range(len(names)), key=lambda i: (hk * (2 * i + 1) + 7919 * i)
        % 1000003)]
    heavy = case.get("heavy", True)
    for name in names:
        if name in SPECTRAL and not connected:
            continue
        if directed and ("newman" in name or "arenas" in name):
            # random-walk betweenness is defined on undirected graphs and
            # the implementation works on undirected component sub-networks
            continue
        if not heavy and ("newman" in name or "arenas" in name
                          or name == "local_vulnerability"):
            continue
        sfx = "_dir" if directed else ""
        both(rec, name + sfx, name, getattr(net, name), getattr(net2, name),
             perm, n, tol_for(name))
        if ok and name in ("degree", "betweenness", "local_clustering",
                           "nsi_degree", "path_lengths", "nsi_closeness",
                           "newman_betweenness", "local_cliquishness"):
            both(rec, name + "_permuted_copy" + sfx, name,
                 getattr(net, name), getattr(pc, name), perm, n,
                 tol_for(name))
    # explicit argument patterns
    src = sorted({s % n for s in case["src"]})
    tgt = sorted({t % n for t in case["tgt"]})
    src2 = [int(inv[s]) for s in src]
    tgt2 = [int(inv[t]) for t in tgt]
    extra = []
    if not directed:
        extra += [("local_cliquishness4", "local_cliquishness", (4,), (4,)),
                  ("local_cliquishness5", "local_cliquishness", (5,), (5,)),
                  ("higher_order_transitivity4", "higher_order_transitivity",
                   (4,), (4,)),
                  ("interregional_betweenness", "interregional_betweenness",
                   (src, tgt), (src2, tgt2)),
                  ("nsi_interregional_betweenness",
                   "nsi_interregional_betweenness", (src, tgt), (src2, tgt2)),
                  ("nsi_betweenness_sources", "nsi_betweenness",
                   (src,), (src2,)),
                  ("nsi_arenas_betweenness_twinness",
                   "nsi_arenas_betweenness", (True, "twinness"),
                   (True, "twinness")),
                  ("nsi_newman_betweenness_ends", "nsi_newman_betweenness",
                   (True,), (True,))]
    for tw in (0.5, 2.0):
        for m in ("nsi_degree", "nsi_local_clustering"):
            if m == "nsi_local_clustering" and directed:
                continue
            extra.append(("%s_tw" % m, m, (), ()))
    if W is not None:
        for m in ("degree", "indegree", "outdegree", "bildegree",
                  "nsi_degree", "local_cyclemotif_clustering",
                  "local_midmotif_clustering", "local_inmotif_clustering",
                  "local_outmotif_clustering",
                  "nsi_local_cyclemotif_clustering",
                  "nsi_local_outmotif_clustering"):
            extra.append((m + "_key", m, ("la",), ("la",)))
        for m in ("path_lengths", "average_path_length", "closeness",
                  "global_efficiency", "link_attribute",
                  "average_link_attribute"):
            extra.append((m + "_key", m, ("la",), ("la",)))
    for clause, m, aa, bb in extra:
        kw = {"typical_weight": 2.0} if clause.endswith("_tw") else None
        both(rec, clause + ("_dir" if directed else ""), m, getattr(net, m),
             getattr(net2, m), perm, n, tol_for(m), aa, bb, kw)
    # the same relabelling done by igraph (Graph.permute_vertices lists the
    # links in its own order) and adopted through Network.FromIGraph
    def via_igraph():
        # igraph changed the direction of `permutation` between releases:
        # take the one that yields the relabelled graph
        for q in (p, inv):
            g3 = net.graph.copy().permute_vertices([int(i) for i in q])
            if np.array_equal(np.array(g3.get_adjacency().data),
                              (A[p][:, p] != 0).astype(int)):
                break
        net3 = Network.FromIGraph(g3, silence_level=3)
        net3.node_weights = w[p]
        return net3
    ok3, net3 = rec.call("relabel_via_igraph_raises", via_igraph)
    if ok3:
        sfx = "_via_igraph" + ("_dir" if directed else "")
        rec.equal(np.asarray(net3.adjacency), A[p][:, p], "adjacency" + sfx)
        for m in ("degree", "nsi_degree", "betweenness", "closeness"):
            both(rec, m + sfx, m, getattr(net, m), getattr(net3, m), perm, n,
                 tol_for(m))
        if W is not None:
            for m in ("link_attribute", "degree", "nsi_degree",
                      "path_lengths", "closeness", "average_path_length",
                      "average_link_attribute"):
                both(rec, m + "_key" + sfx, m, getattr(net, m),
                     getattr(net3, m), perm, n, tol_for(m), ("la",), ("la",))


# ---------------------------------------------------- InteractingNetworks

# "So far, most methods only give meaningful results for undirected
# networks!" (class docstring): on directed input only the methods with an
# explicit directed branch / pure sub-block extraction are held to the relation
INTERACTING_DIRECTED_OK = {
    "number_cross_links", "number_internal_links", "cross_link_density",
    "internal_link_density", "cross_degree", "cross_indegree",
    "cross_outdegree", "internal_degree", "internal_indegree",
    "internal_outdegree", "cross_adjacency", "cross_adjacency_sparse",
    "internal_adjacency", "cross_path_lengths", "internal_path_lengths",
    "total_cross_degree", "cross_degree_density"}


def interacting_methods():
    from pyunicorn.core import InteractingNetworks
    out = []
    for name in sorted(dir(InteractingNetworks)):
        if name.startswith("_") or name in EXCLUDE:
            continue
        attr = inspect.getattr_static(InteractingNetworks, name)
        if isinstance(attr, (property, staticmethod, classmethod)):
            continue
        fn = getattr(InteractingNetworks, name)
        if not callable(fn):
            continue
        ps = [q for q in inspect.signature(fn).parameters.values()
              if q.name != "self"]
        req = [q.name for q in ps if q.default is inspect.Parameter.empty]
        if req == ["node_list1", "node_list2"]:
            out.append((name, 2))
        elif req == ["node_list"]:
            out.append((name, 1))
    return out


def oracle_interacting(case, rec):
    from pyunicorn.core import InteractingNetworks
    g = case["g"]
    n = g["n"]
    A = G.adj(g).astype(int)
    p = np.asarray(case["perm"])
    inv = np.argsort(p)
    w = np.array(case["w"], dtype=float)
    side = [s % 3 for s in case["side"][:n]]
    l1 = [i for i in case["order"] if i < n and side[i] == 0]
    l2 = [i for i in case["order"] if i < n and side[i] == 1]
    if not l1 or not l2:
        rec.label("degenerate_groups")
        return
    _nontrivial(rec, A, p)
    rec.label("directed" if g["directed"] else "undirected")
    net = InteractingNetworks(adjacency=A, directed=g["directed"],
                              node_weights=w, silence_level=3)
    net2 = InteractingNetworks(adjacency=A[p][:, p], directed=g["directed"],
                               node_weights=w[p], silence_level=3)
    # the relabelled node lists are given in a different order (sorted by the
    # new numbers): listing order must not matter either
    m1 = sorted(int(inv[u]) for u in l1)
    m2 = sorted(int(inv[u]) for u in l2)
    o1 = [l1.index(int(p[v])) for v in m1]   # position in l1 of m1[i]
    o2 = [l2.index(int(p[v])) for v in m2]
    if o1 != list(range(len(o1))) or o2 != list(range(len(o2))):
        rec.label("list_order_changed")
    for name, nargs in interacting_methods():
        if g["directed"] and name not in INTERACTING_DIRECTED_OK:
            continue
        aa = (l1, l2) if nargs == 2 else (l1,)
        bb = (m1, m2) if nargs == 2 else (m1,)
        sfx = "_dir" if g["directed"] else ""
        try:
            a = getattr(net, name)(*aa)
            ea = None
        except Exception as e:  # pylint: disable=broad-except
            ea = e
        try:
            b = getattr(net2, name)(*bb)
            eb = None
        except Exception as e:  # pylint: disable=broad-except
            eb = e
        if ea is not None or eb is not None:
            if type(ea) is not type(eb):
                rec.fail(name + sfx + "_raises_differ",
                         "original: %r relabelled: %r" % (ea, eb))
            continue
        a = _dense(a)
        b = _dense(b)
        try:
            aa_ = np.asarray(a, dtype=float)
            bb_ = np.asarray(b, dtype=float)
        except (TypeError, ValueError):
            continue
        k1, k2 = len(l1), len(l2)
        if aa_.ndim == 1 and aa_.shape[0] == n:
            exp = aa_[p]
        elif aa_.ndim == 2 and aa_.shape == (n, n):
            exp = aa_[p][:, p]
        elif aa_.ndim == 1 and aa_.shape[0] == k1:
            exp = aa_[o1]
        elif aa_.ndim == 2 and aa_.shape == (k1, k1) and nargs == 1:
            exp = aa_[o1][:, o1]
        elif aa_.ndim == 2 and aa_.shape == (k1, k2):
            exp = aa_[o1][:, o2]
        else:
            exp = aa_
        if not allclose(bb_, exp, rtol=1e-9, atol=1e-12):
            rec.fail(name + sfx, "maxdiff=%s relabelled=%s expected=%s" % (
                maxdiff(bb_, exp),
                np.array2string(bb_.ravel()[:8], precision=6),
                np.array2string(np.asarray(exp).ravel()[:8], precision=6)))
    # subnetwork(): the induced network in the order of the node list - also
    # when a node is listed twice (the list then has the same entries in
    # both numberings, in the same order)
    for tag, la in (("", l1), ("_repeated_node", l1 + l1[:1]),
                    ("_repeated_first", l1[-1:] + l1)):
        lb = [int(inv[u]) for u in la]
        try:
            sa = net.subnetwork(list(la))
            ea = None
        except Exception as e:  # pylint: disable=broad-except
            ea = e
        try:
            sb = net2.subnetwork(lb)
            eb = None
        except Exception as e:  # pylint: disable=broad-except
            eb = e
        name = "subnetwork" + tag + ("_dir" if g["directed"] else "")
        if ea is not None or eb is not None:
            if type(ea) is not type(eb):
                rec.fail(name + "_raises_differ", "original: %r relabelled: "
                         "%r" % (ea, eb))
            continue
        for what, fa, fb in (
                ("adjacency", sa.adjacency, sb.adjacency),
                ("node_weights", sa.node_weights, sb.node_weights),
                ("degree", sa.degree(), sb.degree())):
            if not allclose(np.asarray(fb, dtype=float),
                            np.asarray(fa, dtype=float), rtol=1e-12):
                rec.fail(name + "_" + what, "relabelled=%s original=%s" % (
                    np.array2string(np.asarray(fb, dtype=float).ravel()[:8]),
                    np.array2string(np.asarray(fa, dtype=float).ravel()[:8])))


# --------------------------------------------------- Geo / Spatial / Res

def _geo(case, A, lat, lon, directed, nwt):
    from pyunicorn.core import GeoNetwork, GeoGrid
    grid = GeoGrid(np.arange(2.0), np.asarray(lat, dtype=float),
                   np.asarray(lon, dtype=float), silence_level=3)
    return GeoNetwork(grid, adjacency=A, directed=directed,
                      node_weight_type=nwt, silence_level=3)


def oracle_geo(case, rec):
    g = case["g"]
    n = g["n"]
    A = G.adj(g).astype(int)
    p = np.asarray(case["perm"])
    lat = np.array(case["lat"], dtype=float)
    lon = np.array(case["lon"], dtype=float)
    nwt = case["nwt"]
    _nontrivial(rec, A, p)
    rec.label("directed" if g["directed"] else "undirected")
    rec.label("nwt=%s" % nwt)
    ok1, net = rec.call("construct", _geo, case, A, lat, lon, g["directed"],
                        nwt)
    ok2, net2 = rec.call("construct_perm", _geo, case, A[p][:, p], lat[p],
                         lon[p], g["directed"], nwt)
    if not (ok1 and ok2):
        return
    own = set(zero_arg_methods(net))
    from pyunicorn.core import Network
    base = set(n_ for n_ in dir(Network))
    names = sorted(m for m in own if m not in base) + \
        ["nsi_degree", "nsi_local_clustering", "degree"]
    sfx = "_dir" if g["directed"] else ""
    for name in names:
        # float32 distances: a relabelling changes summation order only
        both(rec, "geo_" + name + sfx, name, getattr(net, name),
             getattr(net2, name), p, n, 1e-5)
    for name in ("average_link_distance", "inaverage_link_distance",
                 "outaverage_link_distance", "total_link_distance",
                 "intotal_link_distance", "outtotal_link_distance"):
        both(rec, "geo_" + name + "_corrected" + sfx, name,
             getattr(net, name), getattr(net2, name), p, n, 1e-5, (True,),
             (True,))
    # link distance distributions need a number of bins.  (Pairwise distances
    # are bit-identical under relabelling - the kernel is symmetric in the two
    # nodes - so the histograms must be identical; distributions of SUMS over
    # neighbours, e.g. of area weighted connectivity, are not compared:
    # a changed summation order moves values across bin edges.)
    for nb in (3, 4):
        for gt, gc in (("spherical", False), ("spherical", True),
                       ("euclidean", False)):
            both(rec, "geo_link_distance_distribution_%s%s%s" % (
                gt, "_corrected" if gc else "", sfx),
                "link_distance_distribution", net.link_distance_distribution,
                net2.link_distance_distribution, p, n, 1e-5, (nb, gt, gc),
                (nb, gt, gc))
    rec.close(np.asarray(net2.node_weights), np.asarray(net.node_weights)[p],
              "geo_node_weights", rtol=1e-6)
    both(rec, "geo_grid_distance", "distance", net.grid.distance,
         net2.grid.distance, p, n, 1e-6)


def _res(R, A):
    from pyunicorn.core import ResNetwork
    return ResNetwork(np.asarray(R, dtype=float), adjacency=A,
                      silence_level=3)


def oracle_res(case, rec):
    g = case["g"]
    n = g["n"]
    A = G.adj(g).astype(int)
    p = np.asarray(case["perm"])
    inv = np.argsort(p)
    R = np.array(case["R"], dtype=float) * (A != 0)
    _nontrivial(rec, A, p)
    ok1, net = rec.call("construct", _res, R, A)
    ok2, net2 = rec.call("construct_perm", _res, R[p][:, p], A[p][:, p])
    if not (ok1 and ok2):
        return
    for name in ("admittive_degree", "average_neighbors_admittive_degree",
                 "local_admittive_clustering", "global_admittive_clustering",
                 "average_effective_resistance",
                 "diameter_effective_resistance",
                 "edge_current_flow_betweenness", "get_admittance", "get_R",
                 "admittance_lapacian"):
        both(rec, "res_" + name, name, getattr(net, name),
             getattr(net2, name), p, n, 1e-4)
    a, b = case["a"] % n, case["b"] % n
    both(rec, "res_effective_resistance", "effective_resistance",
         net.effective_resistance, net2.effective_resistance, p, n, 1e-5,
         (a, b), (int(inv[a]), int(inv[b])))
    both(rec, "res_vertex_current_flow_betweenness", "vcfb",
         net.vertex_current_flow_betweenness,
         net2.vertex_current_flow_betweenness, p, n, 1e-4, (a,),
         (int(inv[a]),))
    both(rec, "res_effective_resistance_closeness", "ercc",
         net.effective_resistance_closeness_centrality,
         net2.effective_resistance_closeness_centrality, p, n, 1e-4, (a,),
         (int(inv[a]),))


# -------------------------------------------- recurrence / visibility

def _rn(X, thr, metric):
    from pyunicorn.timeseries import RecurrenceNetwork
    return RecurrenceNetwork(np.asarray(X, dtype=float), threshold=thr,
                             metric=metric, normalize=False, silence_level=3)


RN_MEASURES = ["degree", "local_clustering", "transitivity", "betweenness",
               "closeness", "path_lengths", "average_path_length",
               "global_clustering", "assortativity", "matching_index",
               "recurrence_rate", "recurrence_matrix", "distance_matrix"]


def oracle_recurrence(case, rec):
    X = np.array(case["X"], dtype=float)
    n = len(X)
    p = np.asarray(case["perm"])
    ok1, rn = rec.call("construct", _rn, X, case["thr"], case["metric"])
    ok2, rn2 = rec.call("construct_perm", _rn, X[p], case["thr"],
                        case["metric"])
    if not (ok1 and ok2):
        return
    A = np.asarray(rn.adjacency)
    _nontrivial(rec, A, p)
    rec.label("metric=" + case["metric"])
    rec.equal(np.asarray(rn2.adjacency), A[p][:, p], "rn_adjacency")
    for name in RN_MEASURES:
        fa, fb = getattr(rn, name), getattr(rn2, name)
        if name == "distance_matrix":
            both(rec, "rn_" + name, name,
                 lambda: fa(case["metric"]), lambda: fb(case["metric"]), p,
                 n, 1e-6)
        else:
            both(rec, "rn_" + name, name, fa, fb, p, n, 1e-9)


def oracle_visibility(case, rec):
    from pyunicorn.timeseries import VisibilityGraph
    x = np.array(case["x"], dtype=float)
    n = len(x)
    p = np.asarray(case["perm"])
    ok, vg = rec.call("construct", VisibilityGraph, x,
                      horizontal=case["horizontal"], silence_level=3)
    if not ok:
        return
    A = np.asarray(vg.adjacency)
    _nontrivial(rec, A, p)
    ok, pc = rec.call("vg_permuted_copy_raises", vg.permuted_copy, list(p))
    if not ok:
        return
    rec.equal(np.asarray(pc.adjacency), A[p][:, p], "vg_permuted_adjacency")
    for name in ("degree", "local_clustering", "betweenness", "closeness",
                 "path_lengths", "average_path_length", "transitivity",
                 "coreness", "nsi_degree"):
        both(rec, "vg_" + name, name, getattr(vg, name), getattr(pc, name),
             p, n, 1e-9)


# -------------------------------------------------------------- generators

def _w(n, salt):
    return [((3 * i + salt) % 7 + 1) / 4.0 for i in range(n)]


def _attr(n, directed, salt):
    W = np.zeros((n, n))
    for i in range(n):
        for j in range(n):
            if i != j:
                a, b = (i, j) if directed or i < j else (j, i)
                W[i, j] = ((5 * a + 3 * b + salt) % 9 + 1) / 2.0
    return W.tolist()


def enum_network(tier):
    idx = 0
    for g in G.all_small_graphs(5, 4):
        n = g["n"]
        idx += 1
        big = (n == 5) or (n == 4 and g["directed"])
        if big:
            if tier == "quick" and idx % 64:
                continue
            if tier == "thorough" and idx % 4:
                continue
        perms = list(itertools.permutations(range(n)))
        if big and tier == "quick":
            perms = perms[1::7]
        for pi, perm in enumerate(perms):
            if pi == 0:
                continue
            yield {"g": g, "w": _w(n, idx % 5),
                   "W": _attr(n, g["directed"], idx % 4),
                   "perm": list(perm), "src": [idx, idx // 3],
                   "tgt": [idx // 7], "heavy": True}


def _perm(n):
    return st.permutations(list(range(n)))


@st.composite
def network_cases(draw, n_min=5, n_max=14):
    directed = draw(st.integers(0, 2)) == 0
    g = draw(G.graphs(n_min, n_max if not directed else 10, directed))
    n = g["n"]
    return {"g": g, "w": draw(G.node_weights(n)),
            "W": draw(st.one_of(st.none(), G.link_attr(n, directed))),
            "perm": draw(_perm(n)),
            "src": draw(st.lists(st.integers(0, 63), min_size=1, max_size=4)),
            "tgt": draw(st.lists(st.integers(0, 63), min_size=1, max_size=4)),
            "heavy": draw(st.integers(0, 2)) == 0 and n <= 12}


@st.composite
def interacting_cases(draw, n_min=4, n_max=12):
    directed = draw(st.integers(0, 3)) == 0
    g = draw(G.graphs(n_min, n_max, directed))
    n = g["n"]
    return {"g": g, "w": draw(G.node_weights(n)), "perm": draw(_perm(n)),
            "side": draw(st.lists(st.integers(0, 2), min_size=n, max_size=n)),
            "order": draw(_perm(n))}


@st.composite
def coords(draw, n):
    lat = draw(st.lists(st.integers(-18, 18).map(lambda k: 5.0 * k),
                        min_size=n, max_size=n))
    lon = draw(st.lists(st.integers(-36, 36).map(lambda k: 5.0 * k),
                        min_size=n, max_size=n))
    if draw(st.integers(0, 2)) == 0:
        # a patch of a fine regular grid (0.25 degrees): close pairs at
        # different latitudes, where arccos amplifies every rounding
        # difference between the two orders of a pair
        la0 = draw(st.integers(-16, 16)) * 5.0
        lo0 = draw(st.integers(-34, 34)) * 5.0
        lat = [la0 + 0.25 * k for k in draw(st.lists(
            st.integers(0, 7), min_size=n, max_size=n))]
        lon = [lo0 + 0.25 * k for k in draw(st.lists(
            st.integers(0, 7), min_size=n, max_size=n))]
    return lat, lon


@st.composite
def geo_cases(draw, n_min=3, n_max=10):
    directed = draw(st.integers(0, 2)) == 0
    g = draw(G.graphs(n_min, n_max, directed))
    n = g["n"]
    lat, lon = draw(coords(n))
    return {"g": g, "lat": lat, "lon": lon, "perm": draw(_perm(n)),
            "nwt": draw(st.sampled_from([None, "surface", "irrigation"]))}


@st.composite
def res_cases(draw, n_min=3, n_max=9):
    g = draw(G.connected_graph(n_min, n_max))
    n = g["n"]
    # a fifth of the cases: resistances that differ between the two
    # orientations of a link (the admittance is documented as "possibly
    # non-symmetric"; renumbering is a renaming whatever the values mean)
    asym = draw(st.integers(0, 4)) == 0
    R = draw(G.link_attr(n, asym, lo=1, hi=16, denom=4.0))
    return {"g": g, "R": R, "perm": draw(_perm(n)),
            "a": draw(st.integers(0, 63)), "b": draw(st.integers(0, 63))}


@st.composite
def recurrence_cases(draw):
    n = draw(st.integers(4, 12))
    d = draw(st.integers(1, 3))
    X = draw(st.lists(st.lists(st.integers(-8, 8).map(lambda k: k / 4.0),
                               min_size=d, max_size=d),
                      min_size=n, max_size=n))
    return {"X": X, "perm": draw(_perm(n)),
            "thr": draw(st.sampled_from([0.6, 1.1, 1.6, 2.3])),
            "metric": draw(st.sampled_from(["supremum", "euclidean",
                                            "manhattan"]))}


@st.composite
def visibility_cases(draw):
    n = draw(st.integers(4, 14))
    x = draw(st.lists(st.integers(0, 9), min_size=n, max_size=n))
    return {"x": x, "perm": draw(_perm(n)), "horizontal": draw(st.booleans())}


SUBCHECKS = [
    SubCheck("exhaustive_network", oracle_network, enum=enum_network,
             quick=(12, None), thorough=(16, None), exhaustive=()),
    SubCheck("random_network", oracle_network, gen=network_cases,
             quick=(8, 25), thorough=(16, 700)),
    SubCheck("interacting", oracle_interacting, gen=interacting_cases,
             quick=(4, 60), thorough=(16, 900)),
    SubCheck("geo", oracle_geo, gen=geo_cases, quick=(4, 40),
             thorough=(8, 900)),
    SubCheck("resistive", oracle_res, gen=res_cases, quick=(3, 40),
             thorough=(8, 900)),
    SubCheck("recurrence", oracle_recurrence, gen=recurrence_cases,
             quick=(2, 60), thorough=(8, 900)),
    SubCheck("visibility", oracle_visibility, gen=visibility_cases,
             quick=(2, 60), thorough=(8, 900)),
]
