"""C12 - grid distances equal closed-form geometry and are metrics.

Reference: vp/ref/geometry.py (float64 atan2 form of the great-circle angle,
fsum Euclidean norm, itertools Cartesian product, math.cos of the latitude),
all evaluated on the float32-cast coordinates the library stores.

Error bound for angles (DESIGN 3/C12, calibrated on the unchanged tree, margin
1.6x in a 4 000-grid probe):  err <= min(2^-10, 2^-18 + 2^-20 / sin(theta)).
Euclidean distances: relative error <= 2^-21 (float32 kernel: difference,
square, <= 4-term sum, square root; measured maximum 1.6e-7 = 0.67 * 2^-22).
"""
import itertools
import math

import numpy as np
from hypothesis import strategies as st

from vp import pbt
from vp.pbt import SubCheck, HarnessError, represent
from vp.ref import geometry as G

PROPERTY = "C12"
RULE = ("cases = coordinate sets (N 1..14) built point by point from free "
        "points (integer / quarter-degree / arbitrary float32 values), poles, "
        "longitudes 0 / +-180 / 360, copies, copies shifted by 360 deg, exact "
        "and perturbed antipodes and perturbed copies (10^-1..10^-7 deg), "
        "plus query points for nearest-node lookup; Euclidean grids of "
        "dimension 1..4; rectangular axis lists with 1..4 axes; GeoNetworks / "
        "SpatialNetworks over such grids with random (un)directed adjacency "
        "and a history of node_weight_type settings. Non-trivial = the set "
        "holds a near-coincident (< 2^-7 rad), near-antipodal (> pi - 2^-7) "
        "or polar pair, or >= 3 distinct points (angular / Euclidean); >= 2 "
        "axes with >= 2 values (rect); >= 1 link and two distinct latitudes "
        "(networks). Distinct = hash of the whole case.")
ASSUMPTIONS = [
    "coordinates are float32-exact (the library stores float32; the reference "
    "is evaluated on the same stored values), lat in [-90, 90], lon in "
    "[-180, 360]",
    "Euclidean coordinates are 0 or have magnitude in [2^-10, 2^10] so that "
    "no float32 square under- or overflows",
    "upper end of the angular range is float32(pi) = pi + 8.7e-8, the "
    "float32 number nearest to pi (the matrix is float32)",
    "area-weighted measures are compared only when the total dimensionless "
    "area sum(cos lat) exceeds 1e-3 (all-polar grids divide by ~0); "
    "geometry-corrected link distances only when the mean distance of the "
    "node exceeds 1e-2",
    "measures documented as 'does not use directionality information' "
    "(average_link_distance, connectivity_weighted_distance, "
    "total_link_distance, average_neighbor_area_weighted_connectivity) are "
    "compared on undirected networks only: on directed ones their "
    "normalisation (in+out degree over the symmetrised adjacency) is not "
    "defined by the documentation; max_neighbor_area_weighted_connectivity "
    "only on networks without isolated nodes (maximum over an empty "
    "neighbourhood is undefined)",
    "for more than two axes the documentation of "
    "coord_sequence_from_rect_grid fixes no order: only the multiset of "
    "coordinate tuples is compared there",
]

EPS_COS = 2.0 ** -20     # |float32 cos(lat) - cos(lat)|, measured < 3e-7
EPS32 = 1e-5             # DESIGN 2.9: float32 results, O(1) quantities
EUCLID_RTOL = 2.0 ** -21
NEAR = 2.0 ** -7
F32_PI = float(np.float32(np.pi))


def _f32(x):
    return float(np.float32(x))


# ------------------------------------------------------------------ helpers

def _classes(R):
    """Pair classes of the reference angle matrix."""
    n = len(R)
    iu = np.triu_indices(n, 1)
    th = R[iu]
    return {
        "near_coincident": bool(np.any((th > 0) & (th < NEAR))),
        "coincident": bool(np.any(th == 0)),
        "near_antipodal": bool(np.any(th > math.pi - NEAR)),
    }


def _distinct_points(cols):
    return len({tuple(c) for c in cols})


def _triangle_excess(D, B):
    """max over (i,j,k) of D[i,k] - D[i,j] - D[j,k] - (B_ik + B_ij + B_jk)."""
    if len(D) == 0:
        return -np.inf
    ex = D[:, None, :] - D[:, :, None] - D[None, :, :] \
        - (B[:, None, :] + B[:, :, None] + B[None, :, :])
    return float(ex.max())


def _self_check_reference(lat, lon, R):
    """The two independent closed forms must agree (harness sanity)."""
    n = len(lat)
    for i in range(n):
        for j in range(i + 1, n):
            if R[i, j] < 3.0:
                h = G.haversine_pair(lat[i], lon[i], lat[j], lon[j])
                if abs(h - R[i, j]) > 1e-7:
                    raise HarnessError("reference forms disagree: %r %r" % (
                        h, R[i, j]))


# ------------------------------------------------------------ angular oracle

def oracle_angular(case, rec):
    from pyunicorn.core.geo_grid import GeoGrid
    lat_in = np.array(case["lat"], dtype=np.float64)
    lon_in = np.array(case["lon"], dtype=np.float64)
    n = len(lat_in)
    lat = G.f32(lat_in)
    lon = G.f32(lon_in)
    R = G.great_circle_matrix(lat, lon)
    _self_check_reference(lat, lon, R)
    B = G.angular_bound(R)
    cl = _classes(R)
    polar = bool(np.any(np.abs(lat) == 90.0))
    for k, v in cl.items():
        if v:
            rec.label(k)
    if polar:
        rec.label("polar")
    if np.any(np.isin(lon, [180.0, -180.0, 360.0])):
        rec.label("antimeridian_or_360")
    rec.label("N=%d" % n if n <= 3 else "N>=4")
    ndist = _distinct_points(zip(lat.tolist(), lon.tolist()))
    if cl["near_coincident"] or cl["near_antipodal"] or (polar and n >= 2) \
            or ndist >= 3:
        rec.nontrivial(True)

    ok, g = rec.call("construct_geogrid", GeoGrid, np.arange(2.0),
                     represent(lat_in), represent(lon_in), silence_level=3)
    if not ok:
        return
    # stored coordinates
    ok1, ls = rec.call("lat_sequence", g.lat_sequence)
    ok2, lo = rec.call("lon_sequence", g.lon_sequence)
    if ok1:
        rec.equal(np.asarray(ls, dtype=np.float64), lat, "lat_sequence_stored")
    if ok2:
        rec.equal(np.asarray(lo, dtype=np.float64), lon, "lon_sequence_stored")

    ok, D32 = rec.call("angular_distance", g.angular_distance)
    if ok:
        D32 = np.asarray(D32)
        D = D32.astype(np.float64)
        if rec.check(D.shape == (n, n), "angular_shape", str(D.shape)):
            rec.check(not np.isnan(D).any(), "angular_no_nan",
                      lambda: "nan at %s" % (np.argwhere(np.isnan(D))[:3]
                                             .tolist(),))
            rec.check(np.array_equal(D32, D32.T, equal_nan=True),
                      "angular_symmetry_exact",
                      lambda: "max |D-D^T| = %g" % np.nanmax(np.abs(D - D.T)))
            Dz = np.nan_to_num(D, nan=1e9)
            err = np.abs(Dz - R)
            off = ~np.eye(n, dtype=bool)
            # closed form, one signature per regime
            s = np.abs(np.sin(R))
            regimes = (
                ("generic", off & (s >= 0.125)),
                ("near_coincident", off & (s < 0.125) & (R < 1.0)),
                ("near_antipodal", off & (s < 0.125) & (R > 1.0)),
            )
            for name, m in regimes:
                if m.any():
                    bad = m & (err > B)
                    rec.check(not bad.any(), "angular_closed_form_" + name,
                              lambda bad=bad: _pair_detail(bad, Dz, R, B, lat,
                                                           lon))
            rec.check(not (off & (err >= G.ABS_CLAIM)).any(),
                      "angular_abs_error_below_2^-10",
                      lambda: _pair_detail(off & (err >= G.ABS_CLAIM), Dz, R,
                                           B, lat, lon))
            dg = np.diag(Dz)
            rec.check(bool(np.all(dg <= G.ABS_CLAIM)) and bool(np.all(
                dg >= 0)), "angular_self_distance",
                lambda: "diag=%s" % dg[:8])
            rec.check(bool(np.all(Dz >= 0.0)) and bool(np.all(Dz <= F32_PI)),
                      "angular_range_0_pi",
                      lambda: "min=%r max=%r" % (float(Dz.min()),
                                                 float(Dz.max())))
            Bd = B.copy()
            np.fill_diagonal(Bd, G.ABS_CLAIM)
            ex = _triangle_excess(Dz, Bd)
            rec.check(ex <= 0.0, "angular_triangle_inequality",
                      lambda: "excess over 3 bounds = %g" % ex)
        ok, Dd = rec.call("geogrid_distance", g.distance)
        if ok:
            rec.check(np.array_equal(np.asarray(Dd), D32, equal_nan=True),
                      "geogrid_distance_is_angular")

    # nearest-node lookup
    for q in case.get("queries", []):
        qlat, qlon = float(q[0]), float(q[1])
        ok, r = rec.call("node_number", g.node_number, qlat, qlon)
        if not ok:
            continue
        t = G.great_circle_to_point(lat, lon, qlat, qlon)
        m = int(np.argmin(t))
        if not rec.check(isinstance(r, (int, np.integer)) and 0 <= r < n,
                         "node_number_geo_valid_index", repr(r)):
            continue
        r = int(r)
        slack = float(G.angular_bound(t[r]) + G.angular_bound(t[m]))
        rec.check(t[r] <= t[m] + slack, "node_number_geo_nearest",
                  "query=(%r,%r) returned node %d at %.9g, node %d is at "
                  "%.9g (slack %.3g)" % (qlat, qlon, r, t[r], m, t[m], slack))
        if t[r] > t[m]:
            rec.label("node_number_within_slack")


def _pair_detail(bad, D, R, B, lat, lon):
    i, j = np.argwhere(bad)[0]
    return ("pair (%d,%d) lat/lon=(%r,%r),(%r,%r) lib=%.9g ref=%.9g "
            "err=%.3g bound=%.3g" % (i, j, float(lat[i]), float(lon[i]),
                                     float(lat[j]), float(lon[j]),
                                     D[i, j], R[i, j], abs(D[i, j] - R[i, j]),
                                     B[i, j]))


# ---------------------------------------------------------- euclidean oracle

def oracle_euclidean(case, rec):
    from pyunicorn.core.grid import Grid
    X_in = np.array(case["X"], dtype=np.float64)
    dim, n = X_in.shape
    X = G.f32(X_in)
    R = G.euclidean_matrix(X)
    rec.label("dim=%d" % dim)
    ndist = _distinct_points(zip(*X.tolist()))
    if ndist < n:
        rec.label("coincident")
    if ndist >= 3:
        rec.nontrivial(True)
    ok, g = rec.call("construct_grid", Grid, np.arange(2.0), represent(X_in),
                     silence_level=3)
    if not ok:
        return
    for d in range(dim):
        ok, sq = rec.call("sequence", g.sequence, d)
        if ok:
            rec.equal(np.asarray(sq, dtype=np.float64), X[d],
                      "sequence_stored")
    ok, D32 = rec.call("euclidean_distance", g.euclidean_distance)
    if ok:
        D32 = np.asarray(D32)
        D = D32.astype(np.float64)
        if rec.check(D.shape == (n, n), "euclidean_shape", str(D.shape)):
            rec.check(np.array_equal(D32, D32.T), "euclidean_symmetry_exact",
                      lambda: "max |D-D^T| = %g" % np.abs(D - D.T).max())
            rec.check(bool(np.all(np.diag(D) == 0.0)),
                      "euclidean_self_distance_zero",
                      lambda: "diag=%s" % np.diag(D)[:8])
            tol = EUCLID_RTOL * R
            bad = np.abs(D - R) > tol
            rec.check(not bad.any(), "euclidean_closed_form_dim%d" % dim,
                      lambda: _epair(bad, D, R, X))
            rec.check(bool(np.all(D >= 0)), "euclidean_nonnegative")
            ex = _triangle_excess(D, tol)
            rec.check(ex <= 0.0, "euclidean_triangle_inequality",
                      lambda: "excess = %g" % ex)
        ok, Dd = rec.call("grid_distance", g.distance)
        if ok:
            rec.check(np.array_equal(np.asarray(Dd), D32),
                      "grid_distance_is_euclidean")
    for q in case.get("queries", []):
        q = [float(v) for v in q]
        ok, r = rec.call("node_number_euclid", g.node_number, tuple(q))
        if not ok:
            continue
        t = G.euclidean_to_point(X, q)
        if not rec.check(isinstance(r, (int, np.integer)) and 0 <= r < n,
                         "node_number_euclid_valid_index", repr(r)):
            continue
        r = int(r)
        # the lookup works in float64 on the stored coordinates
        rec.check(t[r] <= t.min() * (1 + 1e-9) + 1e-12,
                  "node_number_euclid_nearest",
                  "query=%r returned node %d at %.12g, minimum %.12g (node "
                  "%d)" % (q, r, t[r], t.min(), int(np.argmin(t))))


def _epair(bad, D, R, X):
    i, j = np.argwhere(bad)[0]
    return "pair (%d,%d) x_i=%s x_j=%s lib=%.9g ref=%.9g" % (
        i, j, X[:, i].tolist(), X[:, j].tolist(), D[i, j], R[i, j])


# --------------------------------------------------------------- rect oracle

def oracle_rect(case, rec):
    from pyunicorn.core.grid import Grid
    from pyunicorn.core.geo_grid import GeoGrid
    axes = [np.array(a, dtype=np.float64) for a in case["axes"]]
    k = len(axes)
    ntot = int(np.prod([len(a) for a in axes]))
    rec.label("axes=%d" % k)
    if k >= 2 and sum(1 for a in axes if len(a) >= 2) >= 2:
        rec.nontrivial(True)
    want = G.product_multiset(axes)
    # every axis in its own representation (an integer latitude axis next
    # to a fractional longitude axis ...); the reference sees float64
    reps = case.get("rep") or [None] * k

    def given():
        return [represent(a.copy(), key=r) for a, r in zip(axes, reps)]
    if len({np.asarray(a).dtype for a in given()}) > 1:
        rec.label("axes_of_mixed_dtype")
    ok, seq = rec.call("coord_sequence_from_rect_grid",
                       Grid.coord_sequence_from_rect_grid,
                       given())
    if ok:
        seq = np.asarray(seq, dtype=np.float64)
        if rec.check(seq.shape == (k, ntot), "rect_shape", str(seq.shape)):
            got = sorted(tuple(float(v) for v in seq[:, i])
                         for i in range(ntot))
            rec.check(got == want, "rect_cartesian_product_multiset",
                      lambda: "got %s want %s" % (got[:6], want[:6]))
            if k == 2:
                a, b = G.rect_product_2d(axes[0], axes[1])
                rec.equal(seq[0], a, "rect_documented_order_axis0")
                rec.equal(seq[1], b, "rect_documented_order_axis1")
            if k == 1:
                rec.equal(seq[0], axes[0], "rect_single_axis")
    ok, g = rec.call("Grid.RegularGrid", Grid.RegularGrid, np.arange(2.0),
                     given(), silence_level=3)
    if ok:
        rec.check(g.N == ntot, "regular_grid_N", "%r vs %r" % (g.N, ntot))
        got = sorted(tuple(float(v) for v in g.grid()["space"][:, i])
                     for i in range(g.N))
        want32 = sorted(tuple(_f32(v) for v in t) for t in want)
        rec.check(got == want32, "regular_grid_cartesian_product_multiset")
    if k == 2 and np.all(np.abs(axes[0]) <= 90):
        a, b = G.rect_product_2d(axes[0], axes[1])
        ok, ll = rec.call("GeoGrid.coord_sequence_from_rect_grid",
                          GeoGrid.coord_sequence_from_rect_grid, *given())
        if ok:
            rec.check(len(ll) == 2, "geo_rect_returns_pair")
            if len(ll) == 2:
                rec.equal(np.asarray(ll[0], dtype=float), a,
                          "geo_rect_documented_order_lat")
                rec.equal(np.asarray(ll[1], dtype=float), b,
                          "geo_rect_documented_order_lon")
        ok, gg = rec.call("GeoGrid.RegularGrid", GeoGrid.RegularGrid,
                          np.arange(2.0), tuple(given()), silence_level=3)
        if ok:
            rec.equal(np.asarray(gg.lat_sequence(), dtype=float), G.f32(a),
                      "geo_regular_grid_lat_sequence")
            rec.equal(np.asarray(gg.lon_sequence(), dtype=float), G.f32(b),
                      "geo_regular_grid_lon_sequence")
            ok, D = rec.call("regular_angular_distance", gg.angular_distance)
            if ok and ntot <= 30:
                R = G.great_circle_matrix(G.f32(a), G.f32(b))
                Bd = G.angular_bound(R)
                np.fill_diagonal(Bd, G.ABS_CLAIM)
                D = np.nan_to_num(np.asarray(D, dtype=float), nan=1e9)
                rec.check(bool(np.all(np.abs(D - R) <= Bd)),
                          "regular_grid_angular_closed_form",
                          lambda: "max err %g" % np.abs(D - R).max())


# ------------------------------------------------------------ network oracle

def _adjacency(n, directed, bits, thr):
    A = np.zeros((n, n), dtype=np.int8)
    pairs = [(i, j) for i in range(n) for j in range(n) if i != j] \
        if directed else [(i, j) for i in range(n) for j in range(i + 1, n)]
    for (i, j), b in zip(pairs, bits):
        if b < thr:
            A[i, j] = 1
            if not directed:
                A[j, i] = 1
    return A


def _wtype(t):
    return None if t in (None, "none") else t


def _ref_weights(t, cos):
    if t == "surface":
        return cos
    if t == "irrigation":
        return cos ** 2
    return np.ones(len(cos))


def oracle_geonet(case, rec):
    from pyunicorn.core.geo_grid import GeoGrid
    from pyunicorn.core.geo_network import GeoNetwork
    lat_in = np.array(case["lat"], dtype=np.float64)
    lon_in = np.array(case["lon"], dtype=np.float64)
    n = len(lat_in)
    directed = bool(case["directed"])
    A = _adjacency(n, directed, case["bits"], case["thr"])
    types = [_wtype(t) for t in case["types"]]
    lat = G.f32(lat_in)
    lon = G.f32(lon_in)
    cos = G.cos_lat(lat)
    R = G.great_circle_matrix(lat, lon)
    B = G.angular_bound(R)
    np.fill_diagonal(B, G.ABS_CLAIM)
    norm = float(cos.sum())
    rec.label("directed" if directed else "undirected")
    nlinks = int(A.sum())
    if nlinks and len(set(lat.tolist())) >= 2:
        rec.nontrivial(True)
    if np.any(np.abs(lat) == 90.0):
        rec.label("polar")

    ok, g = rec.call("construct_geogrid", GeoGrid, np.arange(2.0),
                     represent(lat_in), represent(lon_in), silence_level=3)
    if not ok:
        return
    ok, net = rec.call("construct_geonetwork", GeoNetwork, g,
                       adjacency=A.copy(), directed=directed,
                       node_weight_type=types[0], silence_level=3)
    if not ok:
        return
    # cos-lat helper itself
    ok, cl = rec.call("cos_lat", g.cos_lat)
    if ok:
        rec.close(np.asarray(cl, dtype=float), cos, "grid_cos_lat", rtol=0,
                  atol=EPS_COS)
    # ... and its three companions (single precision like cos_lat)
    for nm, refv in (("sin_lat", np.sin(np.deg2rad(lat))),
                     ("cos_lon", np.cos(np.deg2rad(lon))),
                     ("sin_lon", np.sin(np.deg2rad(lon)))):
        ok, v = rec.call(nm, getattr(g, nm))
        if ok:
            # the argument itself is a float32 angle: |d sin| <= |d angle|
            rec.close(np.asarray(v, dtype=float), refv, "grid_" + nm, rtol=0,
                      atol=EPS_COS + 2.0 ** -23 * np.deg2rad(
                          max(1.0, float(np.abs(lon).max()),
                              float(np.abs(lat).max()))))

    # documented conversion from 0..360 to -180..180 (180 itself stays)
    lon360 = np.mod(lon_in, 360.0)
    ok, cv = rec.call("convert_lon_coordinates", g.convert_lon_coordinates,
                      lon360.copy())
    if ok:
        rec.close(np.asarray(cv, dtype=float),
                  np.where(lon360 > 180.0, lon360 - 360.0, lon360),
                  "convert_lon_coordinates_def", rtol=0, atol=0)
        if np.any(lon360 == 180.0):
            rec.label("lon_exactly_180")

    U = ((A + A.T) > 0).astype(np.int64)
    Ap = U + np.eye(n, dtype=np.int64) if not directed else None

    # node weights follow node_weight_type, initially and after every switch
    hbits = int(pbt.case_hash(case)[:6], 16)
    for step, t in enumerate(types):
        tag = str(t).lower()
        if step > 0:
            # half of the switches happen after the caller assigned weights
            # of their own (the geographic type must take over again)
            if (hbits >> step) & 1:
                ok, _ = rec.call("assign_custom_node_weights", setattr, net,
                                 "node_weights", 0.5 + 0.25 * np.arange(n))
                if ok:
                    rec.label("custom_weights_then_type" if
                              t != types[step - 1] else
                              "custom_weights_then_same_type")
            ok, _ = rec.call("set_node_weight_type", net.set_node_weight_type,
                             t)
            if not ok:
                continue
            rec.label("switch_%s_to_%s" % (str(types[step - 1]).lower(), tag))
        wref = _ref_weights(t, cos)
        w = net.node_weights
        stage = "init" if step == 0 else "switch"
        if w is None:
            rec.fail("node_weights_%s_%s" % (tag, stage),
                     "node_weights is None (documented: %s)" % (
                         "constant unit weights" if t is None else t))
        else:
            rec.close(np.asarray(w, dtype=float), wref,
                      "node_weights_%s_%s" % (tag, stage), rtol=0,
                      atol=2 * EPS_COS)
            # the total / mean weight every area-weighted n.s.i. measure
            # normalises by
            rec.close(float(net.total_node_weight), float(wref.sum()),
                      "weight_totals_total_%s_%s" % (tag, stage), rtol=0,
                      atol=2 * n * EPS_COS)
            rec.close(float(net.mean_node_weight), float(wref.mean()),
                      "weight_totals_mean_%s_%s" % (tag, stage), rtol=0,
                      atol=2 * EPS_COS)
            if not directed:
                ok, kd = rec.call("nsi_degree", net.nsi_degree)
                if ok:
                    rec.close(np.asarray(kd, dtype=float), Ap @ wref,
                              "nsi_degree_uses_own_latitude_%s_%s" % (tag,
                                                                      stage),
                              rtol=1e-6, atol=2 * (n + 1) * EPS_COS)

    # area weighted connectivity
    if norm > 1e-3:
        rec.label("area_ok")

        def tol_awc(v):
            return (n * EPS_COS * (1 + np.abs(v))) / norm + 1e-6
        inawc = (cos @ A) / norm
        outawc = (A @ cos) / norm
        awc = inawc + outawc if directed else inawc
        for name, ref in (("inarea_weighted_connectivity", inawc),
                          ("outarea_weighted_connectivity", outawc),
                          ("area_weighted_connectivity", awc)):
            ok, v = rec.call(name, getattr(net, name))
            if ok:
                _close_tol(rec, v, ref, tol_awc(ref), name + "_def")
        deg = U.sum(axis=1)
        if not directed:
            ref = np.zeros(n)
            nz = deg > 0
            ref[nz] = (U @ awc)[nz] / deg[nz]
            ok, v = rec.call("average_neighbor_awc",
                             net.average_neighbor_area_weighted_connectivity)
            if ok:
                _close_tol(rec, v, ref, tol_awc(ref),
                           "average_neighbor_area_weighted_connectivity_def")
        if np.all(deg > 0):
            rec.label("no_isolated")
            ref = np.array([awc[U[i] == 1].max() for i in range(n)])
            ok, v = rec.call("max_neighbor_awc",
                             net.max_neighbor_area_weighted_connectivity)
            if ok:
                _close_tol(rec, v, ref, tol_awc(ref),
                           "max_neighbor_area_weighted_connectivity_def")
    else:
        rec.label("area_degenerate")

    # link distance measures (angular distances)
    def blink(M):
        # largest admissible distance error over the links counted by M
        return (B * (np.asarray(M) != 0)).max(axis=1)
    bmean = B.mean(axis=1)     # admissible error of the mean distance

    def ald(M, k):
        out = np.zeros(n)
        nz = k > 0
        out[nz] = (R * M).sum(axis=1)[nz] / k[nz]
        return out

    kin = A.sum(axis=0)
    kout = A.sum(axis=1)
    variants = [("inaverage_link_distance", A.T, kin),
                ("outaverage_link_distance", A, kout)]
    if not directed:
        variants.append(("average_link_distance", U, U.sum(axis=1)))
    mean_d = R.mean(axis=1)
    for name, M, k in variants:
        ref = ald(M, k)
        ok, v = rec.call(name, getattr(net, name))
        if ok:
            _close_tol(rec, v, ref, blink(M) + EPS32, name + "_def")
        good = mean_d > 1e-2
        if good.any():
            ok, v = rec.call(name + "_corrected", getattr(net, name),
                             geometry_corrected=True)
            if ok and rec.check(np.shape(v) == (n,), name + "_corrected_shape"):
                refc = np.zeros(n)
                refc[good] = ref[good] / mean_d[good]
                t1 = blink(M) + EPS32
                t2 = bmean + EPS32
                tolc = np.ones(n)
                tolc[good] = (t1[good] + t2[good] * refc[good]) / (
                    mean_d[good] - t2[good]) + 1e-6
                v = np.asarray(v, dtype=float)
                _close_tol(rec, v[good], refc[good], tolc[good],
                           name + "_geometry_corrected_def")
    ok, v = rec.call("max_link_distance", net.max_link_distance)
    if ok:
        _close_tol(rec, v, (R * U).max(axis=1), blink(U) + EPS32,
                   "max_link_distance_def")
    if norm > 1e-3:
        def cwd(M, k):
            out = np.zeros(n)
            for i in range(n):
                if k[i] > 0:
                    out[i] = float((M[i] * cos * R[i]).sum()) / (k[i] * norm)
            return out
        cv = [("inconnectivity_weighted_distance", A.T, kin),
              ("outconnectivity_weighted_distance", A, kout)]
        if not directed:
            cv.append(("connectivity_weighted_distance", U, U.sum(axis=1)))
        for name, M, k in cv:
            ref = cwd(M, k)
            tol = (blink(M) + EPS_COS * (math.pi + n * ref)) / norm + \
                1e-6 * (1 + ref)
            ok, v = rec.call(name, getattr(net, name))
            if ok:
                _close_tol(rec, v, ref, tol, name + "_def")
        # total link distance = average link distance * AWC
        tv = [("intotal_link_distance", A.T, kin, (cos @ A) / norm),
              ("outtotal_link_distance", A, kout, (A @ cos) / norm)]
        if not directed:
            tv.append(("total_link_distance", U, U.sum(axis=1),
                       (cos @ A) / norm))
        for name, M, k, aw in tv:
            a_ = ald(M, k)
            ref = a_ * aw
            tol = (blink(M) + EPS32) * np.abs(aw) + a_ * (
                n * EPS_COS * (1 + np.abs(aw)) / norm + 1e-6) + 1e-6
            ok, v = rec.call(name, getattr(net, name))
            if ok:
                _close_tol(rec, v, ref, tol, name + "_def")

    # link distance distribution (counts per bin, undecidable near an edge)
    nb = int(case.get("n_bins", 0))
    if nb and nlinks:
        ok, res = rec.call("link_distance_distribution",
                           net.link_distance_distribution, nb,
                           grid_type="spherical", geometry_corrected=False)
        ok2, Dl = rec.call("angular_distance", g.angular_distance)
        if ok and ok2:
            top = float(np.asarray(Dl, dtype=float).max())
            if top > 1e-2:
                edges = np.linspace(0.0, top, nb + 1)
                vals = R[A == 1]
                bv = B[A == 1]
                near = np.abs(vals[:, None] - edges[None, 1:-1]) <= \
                    (bv[:, None] + 1e-6)
                if near.any():
                    rec.label("ldd_bin_edge_undecidable")
                else:
                    idx = np.minimum(np.searchsorted(edges, vals,
                                                     side="right") - 1, nb - 1)
                    cnt = np.bincount(idx, minlength=nb).astype(float)
                    rec.close(np.asarray(res[0], dtype=float), cnt / cnt.sum(),
                              "link_distance_distribution_spherical",
                              rtol=1e-9)
                    rec.label("ldd_checked")


def _close_tol(rec, v, ref, tol, clause):
    v = np.asarray(v, dtype=float)
    ref = np.asarray(ref, dtype=float)
    if not rec.check(v.shape == ref.shape, clause,
                     "shape %s vs %s" % (v.shape, ref.shape)):
        return
    d = np.abs(v - ref)
    bad = ~(d <= tol)
    if bad.any():
        i = int(np.flatnonzero(bad.ravel())[0])
        tl = np.broadcast_to(tol, v.shape).ravel()
        rec.fail(clause, "entry %d lib=%.9g ref=%.9g |diff|=%.3g tol=%.3g; "
                 "lib=%s ref=%s" % (i, v.ravel()[i], ref.ravel()[i],
                                    d.ravel()[i], tl[i],
                                    np.round(v.ravel()[:8], 7),
                                    np.round(ref.ravel()[:8], 7)))


def oracle_spatialnet(case, rec):
    """SpatialNetwork over a Euclidean grid: link distances use
    Grid.distance() = Euclidean distance."""
    from pyunicorn.core.grid import Grid
    from pyunicorn.core.spatial_network import SpatialNetwork
    X_in = np.array(case["X"], dtype=np.float64)
    dim, n = X_in.shape
    directed = bool(case["directed"])
    A = _adjacency(n, directed, case["bits"], case["thr"])
    X = G.f32(X_in)
    R = G.euclidean_matrix(X)
    U = ((A + A.T) > 0).astype(np.int64)
    rec.label("dim=%d" % dim)
    rec.label("directed" if directed else "undirected")
    if A.sum() and _distinct_points(zip(*X.tolist())) >= 2:
        rec.nontrivial(True)
    ok, g = rec.call("construct_grid", Grid, np.arange(2.0), represent(X_in),
                     silence_level=3)
    if not ok:
        return
    ok, net = rec.call("construct_spatialnetwork", SpatialNetwork, g,
                       adjacency=A.copy(), directed=directed, silence_level=3)
    if not ok:
        return
    scale = max(1.0, float(R.max()))

    def ald(M, k):
        out = np.zeros(n)
        nz = k > 0
        out[nz] = (R * M).sum(axis=1)[nz] / k[nz]
        return out
    variants = [("inaverage_link_distance", A.T, A.sum(axis=0)),
                ("outaverage_link_distance", A, A.sum(axis=1))]
    if not directed:
        variants.append(("average_link_distance", U, U.sum(axis=1)))
    for name, M, k in variants:
        ok, v = rec.call(name, getattr(net, name))
        if ok:
            _close_tol(rec, v, ald(M, k), 4 * EUCLID_RTOL * scale,
                       "euclid_" + name + "_def")
    ok, v = rec.call("max_link_distance", net.max_link_distance)
    if ok:
        _close_tol(rec, v, (R * U).max(axis=1), EUCLID_RTOL * scale,
                   "euclid_max_link_distance_def")
    ok, v = rec.call("network_distance", net.distance)
    if ok:
        _close_tol(rec, v, R, EUCLID_RTOL * R, "spatialnetwork_distance")


# --------------------------------------------------------------- generators

LAT_FREE = st.one_of(
    st.integers(-90, 90).map(float),
    st.integers(-360, 360).map(lambda k: k / 4.0),
    st.floats(-90, 90, width=32, allow_nan=False),
    st.sampled_from([90.0, -90.0, 0.0, 45.0, -45.0]))
LON_FREE = st.one_of(
    st.integers(-180, 360).map(float),
    st.integers(-720, 1440).map(lambda k: k / 4.0),
    st.floats(-180, 360, width=32, allow_nan=False),
    st.sampled_from([0.0, 180.0, -180.0, 360.0, 90.0, 270.0]))

KINDS = ["free", "free", "free", "pole", "merid", "dup", "dup360", "anti",
         "near", "near", "near_anti", "same_lat", "same_lon"]


def _wrap_lon(v):
    while v > 360.0:
        v -= 360.0
    while v < -180.0:
        v += 360.0
    return v


def _antipode(la, lo):
    lo2 = lo + 180.0 if lo + 180.0 <= 360.0 else lo - 180.0
    return -la, lo2


@st.composite
def point_sets(draw, n_min=1, n_max=14):
    n = draw(st.integers(n_min, n_max))
    pts = []
    for i in range(n):
        kind = draw(st.sampled_from(KINDS)) if i else \
            draw(st.sampled_from(["free", "pole", "merid"]))
        if kind in ("free", "pole", "merid") or not pts:
            la = draw(LAT_FREE)
            lo = draw(LON_FREE)
            if kind == "pole":
                la = draw(st.sampled_from([90.0, -90.0]))
            elif kind == "merid":
                lo = draw(st.sampled_from([0.0, 180.0, -180.0, 360.0]))
        else:
            bl, bo = pts[draw(st.integers(0, len(pts) - 1))]
            if kind == "dup":
                la, lo = bl, bo
            elif kind == "dup360":
                la = bl
                lo = bo + 360.0 if bo <= 0.0 else (
                    bo - 360.0 if bo >= 180.0 else bo)
            elif kind == "anti":
                la, lo = _antipode(bl, bo)
            elif kind == "same_lat":
                la, lo = bl, draw(LON_FREE)
            elif kind == "same_lon":
                la, lo = draw(LAT_FREE), bo
            else:
                e = draw(st.integers(1, 7))
                da = draw(st.integers(-9, 9)) * 10.0 ** -e
                do = draw(st.integers(-9, 9)) * 10.0 ** -e
                if kind == "near":
                    la, lo = bl + da, bo + do
                else:
                    la, lo = _antipode(bl, bo)
                    la, lo = la + da, lo + do
        la = _f32(min(90.0, max(-90.0, la)))
        lo = _f32(_wrap_lon(lo))
        pts.append((la, lo))
    return pts


@st.composite
def angular_cases(draw):
    pts = draw(point_sets())
    nq = draw(st.integers(0, 3))
    qs = []
    for _ in range(nq):
        kind = draw(st.sampled_from(["free", "node", "near", "mid", "pole",
                                     "shift360"]))
        bl, bo = pts[draw(st.integers(0, len(pts) - 1))]
        if kind == "free":
            q = (draw(LAT_FREE), draw(LON_FREE))
        elif kind == "node":
            q = (bl, bo)
        elif kind == "near":
            e = draw(st.integers(1, 6))
            q = (min(90.0, max(-90.0, bl + draw(st.integers(-9, 9))
                               * 10.0 ** -e)),
                 bo + draw(st.integers(-9, 9)) * 10.0 ** -e)
        elif kind == "mid":
            cl, co = pts[draw(st.integers(0, len(pts) - 1))]
            q = ((bl + cl) / 2.0, (bo + co) / 2.0)
        elif kind == "pole":
            q = (draw(st.sampled_from([90.0, -90.0])), draw(LON_FREE))
        else:
            q = (bl, bo + 360.0 if bo <= 0 else bo - 360.0)
        qs.append([float(q[0]), float(q[1])])
    return {"lat": [p[0] for p in pts], "lon": [p[1] for p in pts],
            "queries": qs}


def _mag_ok(v):
    v = _f32(v)
    if v == 0.0 or 2.0 ** -10 <= abs(v) <= 2.0 ** 10:
        return v
    return 0.0


EUC_VAL = st.one_of(
    st.integers(-20, 20).map(float),
    st.integers(-4000, 4000).map(lambda k: k / 4.0),
    st.floats(-1000, 1000, width=32, allow_nan=False).map(_mag_ok))


@st.composite
def euclid_points(draw, n_min=1, n_max=14):
    dim = draw(st.integers(1, 4))
    n = draw(st.integers(n_min, n_max))
    cols = []
    for i in range(n):
        kind = draw(st.sampled_from(["free", "free", "free", "dup", "near",
                                     "axis"])) if i else "free"
        if kind == "free":
            c = [draw(EUC_VAL) for _ in range(dim)]
        else:
            base = cols[draw(st.integers(0, len(cols) - 1))]
            if kind == "dup":
                c = list(base)
            elif kind == "near":
                e = draw(st.integers(0, 12))
                c = [_mag_ok(b + draw(st.integers(-3, 3)) * 2.0 ** -e)
                     for b in base]
            else:   # differs from base in one coordinate only
                c = list(base)
                c[draw(st.integers(0, dim - 1))] = draw(EUC_VAL)
        cols.append([_f32(v) for v in c])
    X = [[cols[i][d] for i in range(n)] for d in range(dim)]
    return X


@st.composite
def euclid_cases(draw):
    X = draw(euclid_points())
    dim, n = len(X), len(X[0])
    qs = []
    for _ in range(draw(st.integers(0, 3))):
        kind = draw(st.sampled_from(["free", "node", "mid", "near"]))
        i = draw(st.integers(0, n - 1))
        j = draw(st.integers(0, n - 1))
        if kind == "free":
            q = [draw(EUC_VAL) for _ in range(dim)]
        elif kind == "node":
            q = [X[d][i] for d in range(dim)]
        elif kind == "mid":
            q = [(X[d][i] + X[d][j]) / 2.0 for d in range(dim)]
        else:
            q = [X[d][i] + draw(st.integers(-3, 3)) / 64.0
                 for d in range(dim)]
        qs.append([float(v) for v in q])
    return {"X": X, "queries": qs}


AXIS_VAL = st.one_of(st.integers(-90, 90).map(float),
                     st.integers(-360, 360).map(lambda k: k / 4.0))


@st.composite
def rect_cases(draw):
    k = draw(st.sampled_from([1, 2, 2, 2, 3, 4]))
    axes = []
    for _ in range(k):
        m = draw(st.integers(1, 5 if k <= 2 else 3))
        ax = draw(st.one_of(
            st.lists(AXIS_VAL, min_size=m, max_size=m),
            st.lists(st.integers(-90, 90).map(float), min_size=m,
                     max_size=m)))
        if draw(st.booleans()):
            ax = sorted(ax)
        axes.append(ax)
    return {"axes": axes,
            "rep": draw(st.lists(st.integers(0, 7), min_size=k, max_size=k))}


WTYPES = st.sampled_from(["surface", "irrigation", "none"])


@st.composite
def geonet_cases(draw):
    pts = draw(point_sets(n_min=2, n_max=10))
    n = len(pts)
    directed = draw(st.booleans())
    npairs = n * (n - 1) if directed else n * (n - 1) // 2
    thr = draw(st.sampled_from([0, 20, 40, 60, 80, 100, 100]))
    bits = draw(st.lists(st.integers(0, 99), min_size=npairs,
                         max_size=npairs))
    types = draw(st.lists(WTYPES, min_size=1, max_size=3))
    return {"lat": [p[0] for p in pts], "lon": [p[1] for p in pts],
            "directed": directed, "bits": bits, "thr": thr, "types": types,
            "n_bins": draw(st.integers(0, 5))}


@st.composite
def spatialnet_cases(draw):
    X = draw(euclid_points(n_min=2, n_max=10))
    n = len(X[0])
    directed = draw(st.booleans())
    npairs = n * (n - 1) if directed else n * (n - 1) // 2
    thr = draw(st.sampled_from([0, 20, 40, 60, 80, 100]))
    bits = draw(st.lists(st.integers(0, 99), min_size=npairs,
                         max_size=npairs))
    return {"X": X, "directed": directed, "bits": bits, "thr": thr}


def enum_special(tier):
    """All pairs / triples over a small lattice of special coordinates
    (poles, equator, +-180, 0, 360, mid-latitudes): every polar, antimeridian,
    coincident and antipodal configuration, exhaustively."""
    lats = [-90.0, -86.0, -60.0, -45.0, -30.0, 0.0, 30.0, 45.0, 60.0, 86.0,
            90.0]
    lons = [-180.0, -90.0, 0.0, 90.0, 180.0, 270.0, 360.0]
    pts = list(itertools.product(lats, lons))
    for a, b in itertools.combinations_with_replacement(pts, 2):
        yield {"lat": [a[0], b[0]], "lon": [a[1], b[1]],
               "queries": [[a[0], a[1]], [(a[0] + b[0]) / 2.0, b[1]]]}


SUBCHECKS = [
    SubCheck("special_pairs", oracle_angular, enum=enum_special,
             quick=(4, None), thorough=(4, None)),
    SubCheck("angular", oracle_angular, gen=angular_cases,
             quick=(8, 1000), thorough=(16, 9000)),
    SubCheck("euclidean", oracle_euclidean, gen=euclid_cases,
             quick=(3, 700), thorough=(8, 4000)),
    SubCheck("rect", oracle_rect, gen=rect_cases,
             quick=(1, 500), thorough=(4, 2500)),
    SubCheck("geonet", oracle_geonet, gen=geonet_cases,
             quick=(4, 400), thorough=(12, 3000)),
    SubCheck("spatialnet", oracle_spatialnet, gen=spatialnet_cases,
             quick=(1, 300), thorough=(4, 2000)),
]
