"""C19 - distributed computation returns the serial result.

Oracle = the serial result (library's ``mpi.available`` False, the state in
which the repository's tests run).  The distributed side is driven in process
by a STAND-IN for mpi4py that this module installs into the library's
``pyunicorn.utils.mpi`` module for the duration of one case (see ``StandIn``).
"""
import collections
import itertools
import pickle
import sys
import types

import numpy as np
from hypothesis import strategies as st

from vp.pbt import SubCheck, HarnessError

PROPERTY = "C19"


# =========================================================== MPI stand-in ==

class StandInError(Exception):
    """The library used the message-passing protocol in a way that would
    dead-lock / abort a real MPI run (reported as a failed clause)."""


class _Yield(Exception):
    """Raised inside the library's serve() loop to hand control back."""


class Schedule:
    """When do the workers execute queued jobs?  A *tick* happens right after
    every master ``send`` and right before every master ``recv``.

    kind 'eager'    every job runs as soon as it is sent
         'lazy'     a job runs only when the master waits for its result
         'reverse'  nothing runs until a ``recv``; then all queued jobs run,
                    highest rank first
         'priority' nothing runs until a ``recv``; then all queued jobs run,
                    always the busy worker next whose oldest job has the
                    smallest prio[seq mod len(prio)] (seq = number of the
                    job in submission order): enumerating the permutations
                    ``prio`` enumerates every admissible execution order
         'drawn'    ticks[i] = list of integers; each integer p runs the next
                    job of the (p mod #busy workers)-th busy worker counted
                    from the highest rank (p = 0: the worker that usually
                    holds the youngest job); ticks beyond the list run
                    nothing (lazy)
    Per-worker FIFO order is kept by every kind (it is a property of MPI
    point-to-point messages, not of the schedule)."""

    def __init__(self, spec):
        self.kind = spec["kind"]
        if self.kind not in ("eager", "lazy", "reverse", "priority", "drawn"):
            raise HarnessError("unknown schedule kind %r" % (self.kind,))
        self.ticks = [list(t) for t in spec.get("ticks") or []]
        self.prio = list(spec.get("prio") or [0])
        self.n = 0

    def tick(self, comm, is_recv):
        i = self.n
        self.n += 1
        if self.kind == "lazy":
            return
        if self.kind == "drawn":
            for p in (self.ticks[i] if i < len(self.ticks) else []):
                busy = comm.busy()
                if not busy:
                    return
                comm.step(busy[(len(busy) - 1 - int(p)) % len(busy)])
            return
        if self.kind != "eager" and not is_recv:
            return
        while True:
            busy = comm.busy()
            if not busy:
                return
            if self.kind == "priority":
                m = len(self.prio)
                busy.sort(key=lambda r: (self.prio[comm.inbox[r][0][0] % m],
                                         r))
                comm.step(busy[0])
            else:
                comm.step(busy[-1] if self.kind == "reverse" else busy[0])


class FakeComm:
    """Master-side communicator (rank 0) over per-worker FIFOs."""

    def __init__(self, size, schedule, stepper):
        self.size = size
        self.rank = 0
        self.inbox = [collections.deque() for _ in range(size)]
        self.outbox = [collections.deque() for _ in range(size)]
        self.schedule = schedule
        self.stepper = stepper      # callable(rank, blob) -> blob | None
        self.seq = 0
        self.sent = []              # (seq, dest, name)
        self.exec_order = []        # seq numbers in execution order
        self.terminated = [False] * size
        self.aborted = False
        self.received = 0

    # -- what the library's master calls
    def send(self, obj, dest=0, tag=0):
        dest = int(dest)
        if not 1 <= dest < self.size:
            raise StandInError("master sends to rank %d (size %d): no such "
                               "worker" % (dest, self.size))
        if self.terminated[dest]:
            raise StandInError("job sent to worker %d after terminate" % dest)
        # MPI snapshot semantics: the message is serialised NOW
        blob = pickle.dumps(obj, protocol=pickle.HIGHEST_PROTOCOL)
        self.inbox[dest].append((self.seq, blob))
        self.sent.append((self.seq, dest, obj[0] if isinstance(obj, tuple)
                          and obj else None))
        self.seq += 1
        self.schedule.tick(self, False)

    def recv(self, source=0, tag=0):
        source = int(source)
        if not 1 <= source < self.size:
            raise StandInError("master receives from rank %d" % source)
        self.schedule.tick(self, True)
        while not self.outbox[source]:
            if not self.inbox[source]:
                raise StandInError(
                    "deadlock: master waits for a result of worker %d which "
                    "has no job queued" % source)
            self.step(source)
        self.received += 1
        return pickle.loads(self.outbox[source].popleft())

    def Abort(self, errorcode=0):
        self.aborted = True
        raise StandInError("comm.Abort() called")

    # -- worker side
    def busy(self):
        return [r for r in range(1, self.size) if self.inbox[r]]

    def step(self, r):
        seq, blob = self.inbox[r].popleft()
        out = self.stepper(r, blob)
        if out is None:
            self.terminated[r] = True
            return
        self.exec_order.append(seq)
        self.outbox[r].append(out)

    def drain(self):
        """Let every worker work off what is still queued (end of run)."""
        while True:
            busy = self.busy()
            if not busy:
                return
            self.step(busy[0])


class _StandInWorkers:
    """Worker loop written by the harness: one step = what the body of the
    library's ``serve()`` loop does with one message (mpi.py:470-498)."""

    def __init__(self, size):
        self.n_processed = [0] * size

    def __call__(self, rank, blob):
        name_to_call, args, kwargs, module, time_est = pickle.loads(blob)
        if name_to_call == "terminate":
            return None
        object_to_call = eval(  # pylint: disable=eval-used
            name_to_call, sys.modules[module].__dict__)
        result = object_to_call(*args, **kwargs)
        self.n_processed[rank] += 1
        this_time = 1.0     # no wall clock in the harness
        stats = {"id": id, "rank": rank, "this_time": this_time,
                 "time_over_est": this_time / time_est,
                 "n_processed": self.n_processed[rank],
                 "total_time": float(self.n_processed[rank])}
        return pickle.dumps((result, stats),
                            protocol=pickle.HIGHEST_PROTOCOL)


class _SlaveComm:
    """Communicator seen by one copy of the library's mpi module that was
    initialised as rank r > 0; feeds exactly one message into serve()."""

    def __init__(self, size, rank):
        self.size = size
        self.rank = rank
        self.msg = None
        self.out = None

    def recv(self, source=0, tag=0):
        if source != 0:
            raise StandInError("worker receives from rank %r" % (source,))
        if self.msg is None:
            raise _Yield()
        m, self.msg = self.msg, None
        return pickle.loads(m)

    def send(self, obj, dest=0, tag=0):
        if dest != 0:
            raise StandInError("worker sends to rank %r" % (dest,))
        if self.out is not None:
            raise StandInError("worker sent two results for one job")
        self.out = pickle.dumps(obj, protocol=pickle.HIGHEST_PROTOCOL)

    def Abort(self, errorcode=0):
        raise StandInError("worker called comm.Abort()")


_MPI_CODE = {}


class _LibraryWorkers:
    """Workers that run the library's own ``serve()``: the source of
    pyunicorn/utils/mpi.py is executed once per rank r in a fresh module
    namespace with a fake ``mpi4py`` whose COMM_WORLD reports (size, r), which
    makes the module take its slave branch and define ``serve()``."""

    def __init__(self, mpi_mod, size):
        path = mpi_mod.__file__
        if path not in _MPI_CODE:
            with open(path) as fh:
                _MPI_CODE[path] = compile(fh.read(), path, "exec")
        self.comms = [None] * size
        self.mods = [None] * size
        saved = {k: sys.modules.get(k) for k in ("mpi4py", "mpi4py.MPI")}
        try:
            for r in range(1, size):
                c = _SlaveComm(size, r)
                fake = types.ModuleType("mpi4py")
                fake.MPI = types.SimpleNamespace(COMM_WORLD=c)
                sys.modules["mpi4py"] = fake
                sys.modules.pop("mpi4py.MPI", None)
                m = types.ModuleType("pyunicorn.utils.mpi__rank%d" % r)
                m.__file__ = path
                exec(_MPI_CODE[path], m.__dict__)  # pylint: disable=exec-used
                if not (m.available and m.am_slave and m.rank == r
                        and hasattr(m, "serve")):
                    raise HarnessError("slave copy of mpi.py did not "
                                       "initialise as a slave")
                self.comms[r], self.mods[r] = c, m
        finally:
            for k, v in saved.items():
                if v is None:
                    sys.modules.pop(k, None)
                else:
                    sys.modules[k] = v

    def __call__(self, rank, blob):
        c = self.comms[rank]
        c.msg, c.out = blob, None
        try:
            self.mods[rank].serve()
        except _Yield:
            return c.out if c.out is not None else self._no_result(rank)
        # serve() returned: it was told to terminate
        return None

    @staticmethod
    def _no_result(rank):
        raise StandInError("worker %d waits for the next job without having "
                           "sent a result" % rank)


# what module initialisation sets up on a master (mpi.py:79-149) + run()
_MASTER_STATE = ("available", "size", "rank", "am_master", "am_slave",
                 "n_slaves", "stats", "total_time_est", "queue", "assigned",
                 "slave_queue", "n_processed", "total_time", "_verbose", "comm")
_MISSING = object()


class StandIn:
    """Installs the stand-in into ``pyunicorn.utils.mpi`` (the module object
    that network.py refers to as ``mpi``), runs ``body`` as the master through
    the library's own ``mpi.run()`` and restores every patched name."""

    def __init__(self, size, schedule, library_serve=False, verbose=False):
        self.size = int(size)
        self.schedule = Schedule(schedule)
        self.library_serve = bool(library_serve)
        self.verbose = bool(verbose)
        self.comm = None
        self.leftover = None
        self.master_state = None

    def run(self, body):
        from pyunicorn.utils import mpi
        size = self.size
        saved = {k: mpi.__dict__.get(k, _MISSING) for k in _MASTER_STATE}
        main = sys.modules["__main__"]
        saved_main = {k: main.__dict__.get(k, _MISSING)
                      for k in ("master", "slave")}
        box = {}

        def master():
            try:
                box["value"] = body()
            except BaseException as e:  # pylint: disable=broad-except
                box["error"] = e

        try:
            workers = (_LibraryWorkers(mpi, size) if self.library_serve
                       else _StandInWorkers(size))
            self.comm = FakeComm(size, self.schedule, workers)
            # ---- what `import mpi` does on rank 0 of `mpirun -n size`
            mpi.comm = self.comm
            mpi.available = size >= 2
            mpi.size = size
            mpi.rank = 0
            mpi.am_master = True
            mpi.am_slave = False
            mpi.n_slaves = size - 1
            mpi.stats = []
            mpi.total_time_est = np.zeros(size)
            mpi.total_time_est[0] = np.inf
            mpi.queue = []
            mpi.assigned = {}
            mpi.slave_queue = [[] for _ in range(size)]
            mpi.n_processed = np.zeros(size).astype("int")
            mpi.total_time = np.zeros(size)
            # ---- master() / run() as in the documented usage
            main.__dict__.pop("slave", None)
            main.__dict__["master"] = master
            try:
                mpi.run(verbose=self.verbose)
            except BaseException as e:  # pylint: disable=broad-except
                box.setdefault("error", e)
            self.master_state = {
                "queue": list(mpi.queue), "assigned": dict(mpi.assigned),
                "available_after_run": bool(mpi.available)}
            # jobs never collected by the master
            self.leftover = sum(1 for s in self.comm.sent
                                if s[2] != "terminate") - self.comm.received
            try:
                self.comm.drain()
            except BaseException as e:  # pylint: disable=broad-except
                box.setdefault("error", e)
        finally:
            for k, v in saved.items():
                if v is _MISSING:
                    mpi.__dict__.pop(k, None)
                else:
                    mpi.__dict__[k] = v
            for k, v in saved_main.items():
                if v is _MISSING:
                    main.__dict__.pop(k, None)
                else:
                    main.__dict__[k] = v
        if "error" in box:
            e = box["error"]
            if isinstance(e, (HarnessError, KeyboardInterrupt)):
                raise e
            return e
        return box.get("value")


# ============================================================== property ==

RULE = ("master_loops: cases = (undirected network made of 1..4 connected "
        "components with interleaved node labels: trees plus random links, "
        "paths, cycles, stars, wheels, ladders, cliques, bipartite graphs; "
        "component sizes 1..10 (one job), 11..60 (2..6 jobs, the last chunk "
        "usually shorter) and 101..125 (where the worker count limits the "
        "number of chunks); dyadic node weights; 1..2 of the measures Newman / "
        "n.s.i. Newman (with / without local ends) / n.s.i. Arenas (both "
        "neighbour rules, both stopping modes) run one after the other in the "
        "same MPI session; mpi.size 2..N+2; silence level 0..3; mpi verbose "
        "flag; worker loop = the library's own serve() or the harness's "
        "transcription of it; a schedule (eager / lazy / reverse / drawn "
        "interleaving)). schedule_orders: fixed two-component networks "
        "(31+12 and 44+7 nodes) x sizes {2,3,5,7} x every permutation of "
        "job priorities (every admissible execution order of <= 4 queued "
        "jobs) x the three measure families x silence levels. Non-trivial = "
        ">= 2 jobs were executed in an order different from their submission "
        "order. partitions_*: cases = (connected graph, weights, a "
        "composition of N into contiguous chunks, Arenas options, source "
        "and target lists); exhaustive part = every connected labelled "
        "graph on 2..4 nodes (thorough: 2..5) and 9 structured graphs each "
        "on 5, 6, 7 nodes "
        "x ALL 2^(N-1) compositions; random part = connected graphs of "
        "8..40 nodes with random compositions. Non-trivial = the composition "
        "has >= 2 chunks of unequal length. pool: connected / random graphs "
        "of 5..40 nodes, optional source / target lists, nsi flag, number "
        "of batches = cpu_count() or 2..N+2. "
        "Non-trivial = >= 2 targets (>= 2 non-empty batches). Distinct = "
        "hash of the whole case.")
ASSUMPTIONS = [
    "mpi4py is not installed: the distributed side is an in-process "
    "stand-in installed into pyunicorn.utils.mpi for one case (available, "
    "size, rank, comm, n_slaves and the master's bookkeeping queue / "
    "assigned / slave_queue / stats / total_time_est / n_processed / "
    "total_time re-initialised as module initialisation does for rank 0 of "
    "`mpirun -n size`; everything restored afterwards). The measure runs "
    "inside master() under the library's own mpi.run(), which ends with "
    "mpi.terminate()",
    "the stand-in models: point-to-point FIFO per (master, worker) pair; "
    "snapshot semantics (send pickles the message at once, the worker and "
    "the master get copies); workers that take one message at a time and "
    "answer (result, stats) - either the library's own serve() executed "
    "from a copy of mpi.py initialised as rank r with a fake mpi4py, or the "
    "harness's transcription eval(name, sys.modules[module].__dict__)"
    "(*args, **kwargs); blocking recv(source); an arbitrary interleaving of "
    "job executions subject to 'after its send' and per-worker FIFO, "
    "given by the schedule in the case",
    "the stand-in does NOT model: real concurrency / timing (jobs run one "
    "at a time in the master's process, time statistics are constants), "
    "separate address spaces beyond pickling (module-level state such as "
    "lru caches is shared between 'ranks'), worker crashes, message loss, "
    "MPI buffer limits, mpi4py's own pickling protocol, real load "
    "balancing (only its effect on the worker assignment via time_est)",
    "undirected networks with positive node weights (the four measures are "
    "documented for these); every component is connected by construction",
    "Newman / n.s.i. Newman results are slice-assigned per node: compared "
    "bit for bit; n.s.i. Arenas and n.s.i. betweenness results are sums over "
    "chunks: rtol 1e-9 (summation order)",
    "multiprocessing: nsi_betweenness(parallelize=True) spawns "
    "cpu_count() processes per call (~3 s): a handful of cases per run; "
    "the pool itself is real (spawned processes); only the NUMBER OF "
    "BATCHES is varied, by pointing network.py's imported name cpu_count at "
    "a number from the case for the one call (the pool size stays the "
    "machine's)",
    "the *_chunks_assemble_to_serial_result clauses play the master with "
    "harness-made inputs (V from a dense numpy inverse, P = D_k^-1 A+ D_w) "
    "and compare with the public serial measure at rtol 1e-9 of the "
    "vector's magnitude; the *_chunks_concatenate / *_sum_to_full clauses "
    "compare kernel with kernel on identical inputs",
]

MEASURES = {
    "newman": ("newman", "newman_betweenness", {}),
    "nsi_newman": ("nsi_newman", "nsi_newman_betweenness", {}),
    "nsi_newman_ends": ("nsi_newman", "nsi_newman_betweenness",
                        {"add_local_ends": True}),
    "nsi_arenas": ("nsi_arenas", "nsi_arenas_betweenness", {}),
    "nsi_arenas_incl": ("nsi_arenas", "nsi_arenas_betweenness",
                        {"exclude_neighbors": False}),
    "nsi_arenas_twin": ("nsi_arenas", "nsi_arenas_betweenness",
                        {"stopping_mode": "twinness"}),
    "nsi_arenas_twin_incl": ("nsi_arenas", "nsi_arenas_betweenness",
                             {"stopping_mode": "twinness",
                              "exclude_neighbors": False}),
}
EXACT = {"newman", "nsi_newman"}      # slice-assigned: bit for bit


def _adj(case):
    n = case["n"]
    A = np.zeros((n, n), dtype=np.int8)
    for i, j in case["edges"]:
        A[i, j] = A[j, i] = 1
    return A


def _components(A):
    n = len(A)
    seen = [False] * n
    out = []
    for s in range(n):
        if seen[s]:
            continue
        comp = [s]
        seen[s] = True
        for v in comp:
            for u in np.nonzero(A[v])[0]:
                if not seen[u]:
                    seen[u] = True
                    comp.append(int(u))
        out.append(sorted(comp))
    return out


def _where(e):
    import os
    import traceback
    where = ""
    for fr in reversed(traceback.extract_tb(e.__traceback__)):
        if "pyunicorn" in fr.filename:
            where = "%s:%d" % (os.path.basename(fr.filename), fr.lineno)
            break
    return "raised %s: %s at %s" % (type(e).__name__, str(e)[:200], where)


def _no_exit(fn, *args, **kw):
    """nsi_arenas_betweenness calls sys.exit() on a solver error: turn that
    into an ordinary exception so that it is reported, not obeyed."""
    try:
        return fn(*args, **kw)
    except SystemExit as e:
        raise RuntimeError("library called sys.exit(%s)" % (e.code,)) from e


def _scale(x):
    """Magnitude of a result vector: the rounding noise of a quantity that
    is analytically zero at one node is relative to the whole vector."""
    x = np.asarray(x, dtype=float)
    x = x[np.isfinite(x)]
    return float(np.abs(x).max()) if x.size else 0.0


def _expected_chunks(n, size):
    """The documented cut (network.py: 'determine in how many parts outer
    loop is split'), used for LABELS only."""
    if n < 2:
        return []
    max_parts = max(1, int(np.ceil(min((size - 1) * 10.0, 0.1 * n))))
    step = int(np.ceil(1.0 * n / (1.0 * max_parts)))
    return [min((i + 1) * step, n) - i * step
            for i in range(int(np.ceil(1.0 * n / step)))]


# ------------------------------------------------------- master loops ----

def oracle_master(case, rec):
    from pyunicorn.core.network import Network
    A = _adj(case)
    w = np.array(case["weights"], dtype=float)
    sil = int(case["silence"])
    size = int(case["size"])
    names = list(case["measures"])
    directed = bool(case.get("directed"))
    if directed:
        # Newman's measure is also computed for directed networks (link
        # directions as given): two thirds of the links become one-way
        A = A.copy()
        for i, j in case["edges"]:
            if (i + 2 * j) % 3 == 0:
                A[j, i] = 0
            elif (i + 2 * j) % 3 == 1:
                A[i, j] = 0
        names = ["newman"]
        rec.label("directed_one_way_links")

    def make(level):
        return Network(adjacency=A.copy(), node_weights=w.copy(),
                       directed=directed, silence_level=level)

    comps = _components(((A + A.T) > 0).astype(np.int8))
    chunks = [_expected_chunks(len(c), size) for c in comps]
    rec.label("components=%d" % min(len(comps), 4))
    rec.label("max_jobs_per_component=%d" % max(len(c) for c in chunks))
    if any(len(c) >= 2 and c[-1] != c[0] for c in chunks):
        rec.label("last_chunk_shorter")
    if any(len(c) >= 2 and c[-1] == c[0] for c in chunks):
        rec.label("chunks_equal")
    if any(len(c) > 100 and 0.1 * len(c) > (size - 1) * 10.0 for c in comps):
        rec.label("parts_limited_by_worker_count")
    rec.label("silence=%d" % sil)
    rec.label("size=%s" % (size if size <= 4 else
                           "5..8" if size <= 8 else ">8"))
    rec.label("schedule=" + case["schedule"]["kind"])
    rec.label("workers=" + ("library_serve" if case.get("serve")
                            else "transcribed"))

    # ---- oracle: the serial results (mpi.available is False)
    from pyunicorn.utils import mpi
    if mpi.available:
        raise HarnessError("mpi.available is True outside the stand-in")
    serial = {}
    for m in names:
        tag, meth, kw = MEASURES[m]
        try:
            serial[m] = _no_exit(getattr(make(3), meth), **kw)
        except Exception as e:  # pylint: disable=broad-except
            # no serial result: nothing for the property to say
            rec.label("serial_raised_%s_%s" % (tag, type(e).__name__))
            return
        if sil != 3:
            ok, again = rec.call(tag + "_serial_at_case_silence_level",
                                 _no_exit, getattr(make(sil), meth), **kw)
            if ok:
                rec.close(again, serial[m],
                          tag + "_serial_independent_of_silence_level",
                          rtol=0.0)

    # ---- distributed run
    def body():
        out = []
        for m in names:
            _, meth, kw = MEASURES[m]
            try:
                out.append((True, getattr(make(sil), meth)(**kw)))
            except BaseException as e:  # pylint: disable=broad-except
                if isinstance(e, (HarnessError, KeyboardInterrupt)):
                    raise
                out.append((False, e))
                break       # later failures would only be consequences
        return out

    sess = StandIn(size, case["schedule"], case.get("serve"),
                   case.get("verbose"))
    out = sess.run(body)
    if mpi.available or mpi.size != 1:
        raise HarnessError("stand-in was not removed")
    if isinstance(out, BaseException):
        rec.fail("mpi_run", _where(out))
        return
    for m, (ok, val) in zip(names, out):
        tag, meth, kw = MEASURES[m]
        region = ""
        if tag == "nsi_arenas" and sil >= 1:
            # region of the staged finding KF-C19-1 (see known_findings)
            region = "__silence_level_ge_1"
        if not ok:
            rec.fail(tag + "_distributed_call" + region,
                     "%s(%s) size=%d: %s" % (meth, kw, size, _where(val)))
            continue
        if tag in EXACT:
            rec.close(val, serial[m], tag + "_distributed_equals_serial",
                      rtol=0.0, detail="size=%d" % size)
        else:
            rec.close(val, serial[m], tag + "_distributed_equals_serial",
                      rtol=1e-9, detail="size=%d %s" % (size, kw))
    order = sess.comm.exec_order
    rec.label("jobs=%s" % (len(order) if len(order) < 2 else
                           "2..4" if len(order) <= 4 else ">4"))
    rec.label("workers_used=%d" % min(4, len({d for _, d, nm in sess.comm.sent
                                             if nm != "terminate"})))
    if sess.leftover:
        rec.label("jobs_left_uncollected")
    if len(order) >= 2 and order != sorted(order):
        rec.label("executed_out_of_submission_order")
        rec.nontrivial(True)
    elif len(order) >= 2:
        rec.label("executed_in_submission_order")


# ---------------------------------------------------- chunk partitions ----

def _prep_newman(A):
    """Inputs of the Newman chunk kernel for one connected component:
    (A, V) with V = inverse of the Kirchhoff matrix without its last row and
    column, padded with zeros (dense numpy, no library code)."""
    n = len(A)
    L = np.diag(A.sum(axis=1).astype(float)) - A
    V = np.zeros((n, n))
    V[:-1, :-1] = np.linalg.inv(L[:-1, :-1])
    return V


def _prep_nsi_newman(A, w):
    n = len(A)
    Ap = A + np.identity(n)
    k = Ap.dot(w)
    M = np.diag(w).dot(np.diag(k) - Ap.dot(np.diag(w))).dot(np.diag(1 / w))
    Mi = np.zeros((n, n))
    Mi[:-1, :-1] = np.linalg.inv(M[:-1, :-1])
    V = (np.diag(1 / k).dot(Ap).dot(Mi)).T
    return np.ascontiguousarray(V), k


def _compositions(n):
    for cuts in itertools.product((0, 1), repeat=n - 1):
        parts, cur = [], 1
        for c in cuts:
            if c:
                parts.append(cur)
                cur = 1
            else:
                cur += 1
        parts.append(cur)
        yield parts


def oracle_partition(case, rec):
    from pyunicorn.core.network import Network
    from pyunicorn.core._ext.types import \
        to_cy, ADJ, MASK, NODE, DEGREE, DWEIGHT, DFIELD
    from pyunicorn.core._ext import numerics as K
    from scipy import sparse as sp

    A = _adj(case)
    n = len(A)
    w = np.array(case["weights"], dtype=float)
    parts = [int(p) for p in case["parts"]]
    if sum(parts) != n or min(parts) < 1:
        raise HarnessError("not a composition of N")
    bounds = np.concatenate([[0], np.cumsum(parts)]).astype(int)
    ranges = list(zip(bounds[:-1].tolist(), bounds[1:].tolist()))
    rec.label("chunks=%s" % (len(parts) if len(parts) <= 3 else ">3"))
    if len(parts) >= 2 and len(set(parts)) > 1:
        rec.label("unequal_chunks")
        rec.nontrivial(True)
    A_cy = to_cy(A, ADJ)
    todo = case.get("kernels") or ["newman", "nsi_newman", "arenas",
                                   "nsi_betweenness"]

    def net(level=3):
        return Network(adjacency=A.copy(), node_weights=w.copy(),
                       directed=False, silence_level=level)

    # ---- Newman kernel: concatenation over the partition, bit for bit
    if "newman" in todo:
        V = to_cy(_prep_newman(A), DFIELD)
        ok, full = rec.call("newman_kernel_full_range",
                            K._mpi_newman_betweenness, A_cy, V, n, 0, n)
        got = np.full(n, np.nan)
        good = ok
        for a, b in ranges:
            ok2, res = rec.call(
                "newman_kernel_chunk", K._mpi_newman_betweenness,
                to_cy(A[a:b, :], ADJ), V, n, a, b)
            if not ok2:
                good = False
                break
            rec.check(res[1] == a and res[2] == b and len(res[0]) == b - a,
                      "newman_kernel_returns_its_range",
                      "asked [%d,%d) got [%s,%s) len %d" % (
                          a, b, res[1], res[2], len(res[0])))
            if len(res[0]) == b - a:
                got[a:b] = res[0]
        if good:
            rec.close(got, full[0], "newman_kernel_chunks_concatenate",
                      rtol=0.0, detail="parts=%s" % parts)
            ok3, pub = rec.call("newman_public", net().newman_betweenness)
            if ok3 and n >= 2:
                rec.close((got + 2 * (n - 1)) / (n - 1.0), pub,
                          "newman_chunks_assemble_to_serial_result",
                          rtol=1e-9, atol=1e-9 * _scale(pub),
                          detail="parts=%s" % parts)

    # ---- n.s.i. Newman kernel
    if "nsi_newman" in todo:
        Vn, k = _prep_nsi_newman(A.astype(float), w)
        Vn = to_cy(Vn, DFIELD)
        wd = to_cy(w, DWEIGHT)
        nae = (1 - A - np.identity(n)).astype(MASK)
        ok, full = rec.call("nsi_newman_kernel_full_range",
                            K._mpi_nsi_newman_betweenness,
                            A_cy, Vn, n, wd, nae, 0, n)
        got = np.full(n, np.nan)
        good = ok
        for a, b in ranges:
            ok2, res = rec.call(
                "nsi_newman_kernel_chunk", K._mpi_nsi_newman_betweenness,
                to_cy(A[a:b, :], ADJ), Vn, n, wd, nae[a:b, :], a, b)
            if not ok2:
                good = False
                break
            rec.check(res[1] == a and res[2] == b and len(res[0]) == b - a,
                      "nsi_newman_kernel_returns_its_range",
                      "asked [%d,%d) got [%s,%s)" % (a, b, res[1], res[2]))
            if len(res[0]) == b - a:
                got[a:b] = res[0]
        if good:
            rec.close(got, full[0], "nsi_newman_kernel_chunks_concatenate",
                      rtol=0.0, detail="parts=%s" % parts)
            ends = bool(case.get("ends"))
            ok3, pub = rec.call("nsi_newman_public",
                                net().nsi_newman_betweenness,
                                add_local_ends=ends)
            if ok3:
                ref = got + ((2.0 * w.sum() - k) * k if ends else 0.0)
                # V comes from a dense inverse here, from sparse LU in the
                # library: noise at nodes whose value is analytically zero
                # is relative to the magnitude of the whole vector
                rec.close(ref, pub,
                          "nsi_newman_chunks_assemble_to_serial_result",
                          rtol=1e-9, atol=1e-9 * _scale(pub),
                          detail="parts=%s ends=%s" % (parts, ends))

    # ---- n.s.i. Arenas: Python-level chunk function, sum over the partition
    if "arenas" in todo:
        excl = bool(case.get("exclude_neighbors", True))
        mode = case.get("stopping_mode", "neighbors")
        Ap = (A + np.identity(n)).astype(int)
        k = Ap.dot(w)
        P = sp.csc_matrix(Ap * w[None, :] / k[:, None]).todok()
        tw = None
        if mode == "twinness":
            ok, tw = rec.call("nsi_twinness", net().nsi_twinness)
            if not ok:
                tw = None
        if mode != "twinness" or tw is not None:
            fn = Network._mpi_nsi_arenas_betweenness
            ok, full = rec.call("nsi_arenas_chunk_full_range", fn, n, P, Ap,
                                w, w, 0, n, excl, mode, tw)
            tot = np.zeros(n)
            good = ok and full[0] == ""
            if ok and full[0] != "":
                rec.label("arenas_error_message")
            for a, b in ranges:
                if not good:
                    break
                ok2, res = rec.call(
                    "nsi_arenas_chunk", fn, n, P.copy(), Ap[a:b, :].copy(),
                    w.copy(), w[a:b].copy(), a, b, excl, mode,
                    None if tw is None else tw[a:b, :].copy())
                if not ok2 or res[0] != "":
                    good = False
                    break
                rec.check(res[1][1] == a and res[1][2] == b,
                          "nsi_arenas_chunk_returns_its_range",
                          "asked [%d,%d) got [%s,%s)" % (
                              a, b, res[1][1], res[1][2]))
                tot += res[1][0]
            if good:
                rec.close(tot, full[1][0], "nsi_arenas_chunks_sum_to_full",
                          rtol=1e-9, detail="parts=%s excl=%s mode=%s" % (
                              parts, excl, mode))
                ok3, pub = rec.call(
                    "nsi_arenas_public", _no_exit,
                    net().nsi_arenas_betweenness,
                    exclude_neighbors=excl, stopping_mode=mode)
                if ok3:
                    rec.close(tot / w, pub,
                              "nsi_arenas_chunks_assemble_to_serial_result",
                              rtol=1e-9, atol=1e-9 * _scale(pub),
                              detail="parts=%s excl=%s mode=%s" % (
                                  parts, excl, mode))

    # ---- n.s.i. betweenness kernel: sum over batches of the target list
    if "nsi_betweenness" in todo:
        src = case.get("sources")
        tgt = case.get("targets")
        nsi = bool(case.get("nsi", True))
        is_source = np.zeros(n, dtype=MASK)
        is_source[list(range(n)) if src is None else src] = 1
        targets = np.arange(n) if tgt is None else np.array(tgt, dtype=int)
        targets = targets.astype(NODE)
        deg = to_cy(A.sum(axis=1), DEGREE)
        ww = to_cy(w if nsi else np.ones(n), DWEIGHT)
        flat = to_cy(np.array(np.nonzero(A)).T[:, 1], NODE) if A.any() \
            else np.zeros(0, dtype=NODE)
        ok, full = rec.call("nsi_betweenness_kernel_full", K._nsi_betweenness,
                            n, ww, deg, flat, is_source, targets)
        # cut the target list in proportion to the node partition
        m = len(targets)
        cuts = sorted({min(m, int(round(b * m / float(n))))
                       for b in bounds.tolist()} | {0, m})
        tot = np.zeros(n)
        good = ok
        for a, b in zip(cuts[:-1], cuts[1:]):
            ok2, res = rec.call("nsi_betweenness_kernel_batch",
                                K._nsi_betweenness, n, ww, deg, flat,
                                is_source, targets[a:b].copy())
            if not ok2:
                good = False
                break
            tot += res
        if good:
            rec.close(tot, full, "nsi_betweenness_batches_sum_to_full",
                      rtol=1e-9, detail="cuts=%s" % cuts)
            ok3, pub = rec.call("nsi_betweenness_public",
                                net().nsi_betweenness, sources=src,
                                targets=tgt, nsi=nsi)
            if ok3:
                rec.close(tot / ww, pub,
                          "nsi_betweenness_batches_assemble_to_serial_result",
                          rtol=1e-9, detail="cuts=%s" % cuts)


# ------------------------------------------------------- multiprocessing --

def oracle_pool(case, rec):
    from pyunicorn.core.network import Network
    A = _adj(case)
    w = np.array(case["weights"], dtype=float)
    src, tgt = case.get("sources"), case.get("targets")
    nsi = bool(case.get("nsi", True))
    n_t = len(A) if tgt is None else len(tgt)
    rec.label("targets=%s" % ("all" if tgt is None else "subset"))
    rec.label("sources=%s" % ("all" if src is None else "subset"))
    rec.label("nsi=%s" % nsi)

    def net():
        return Network(adjacency=A.copy(), node_weights=w.copy(),
                       directed=False, silence_level=3)

    ok, ser = rec.call("nsi_betweenness_serial", net().nsi_betweenness,
                       sources=src, targets=tgt, nsi=nsi, parallelize=False)
    if not ok:
        return
    # number of batches the target list is split into: the machine's
    # cpu_count() or, to vary the worker count, a number from the case that
    # network.py's `cpu_count` name is pointed at for this one call
    k = case.get("batches")
    rec.label("batches=%s" % ("cpu_count" if k is None else
                              "fewer_than_targets" if k < n_t else
                              "at_least_targets"))
    from pyunicorn.core import network as net_mod
    if not hasattr(net_mod, "cpu_count"):
        raise HarnessError("network.py no longer imports cpu_count")
    saved = net_mod.cpu_count
    try:
        if k is not None:
            net_mod.cpu_count = lambda: int(k)
        ok, par = rec.call("nsi_betweenness_parallelize_call",
                           net().nsi_betweenness, sources=src, targets=tgt,
                           nsi=nsi, parallelize=True)
    finally:
        net_mod.cpu_count = saved
    if not ok:
        return
    rec.close(par, ser, "nsi_betweenness_parallelize_equals_serial",
              rtol=1e-9)
    if n_t >= 2:
        rec.nontrivial(True)


# ============================================================ generators ==

def _family_edges(kind, m, k):
    from vp.gen.graphs import _family
    return _family(kind, m, k)


@st.composite
def component(draw, lo, hi):
    """Connected undirected graph on 0..n-1 as an edge list."""
    n = draw(st.integers(lo, hi))
    if n == 1:
        return 1, []
    kind = draw(st.sampled_from(
        ["tree+", "tree+", "tree+", "path", "cycle", "star", "wheel",
         "ladder", "clique", "bipartite"]))
    if kind == "ladder" and n % 2:
        kind = "tree+"
    if kind == "clique" and n > 40:
        kind = "tree+"
    if kind != "tree+":
        return n, _family_edges(kind, n, draw(st.integers(1, n - 1)))
    edges = set()
    for i in range(1, n):
        edges.add((draw(st.integers(0, i - 1)), i))
    extra = draw(st.lists(st.tuples(st.integers(0, n - 1),
                                    st.integers(0, n - 1)),
                          max_size=draw(st.sampled_from([0, n // 2, n,
                                                         3 * n]))))
    for i, j in extra:
        if i != j:
            edges.add((min(i, j), max(i, j)))
    return n, [list(e) for e in sorted(edges)]


@st.composite
def network(draw, big_ok=True):
    """Disjoint union of connected components under a random relabelling."""
    ncomp = draw(st.sampled_from([1, 2, 2, 3, 3, 4]))
    comps = []
    for _ in range(ncomp):
        cls = draw(st.sampled_from(
            ["small", "medium", "medium", "medium", "medium", "medium",
             "medium", "medium"] + (["big"] if big_ok else [])))
        if cls == "big" and any(c[0] > 100 for c in comps):
            cls = "medium"
        lo, hi = {"small": (1, 10), "medium": (11, 60),
                  "big": (101, 125)}[cls]
        comps.append(draw(component(lo, hi)))
    if sum(c[0] for c in comps) < 2:
        comps = [(2, [[0, 1]])]     # Network needs N >= 2 (link density)
    n = sum(c[0] for c in comps)
    perm = draw(st.permutations(list(range(n))))
    edges = []
    off = 0
    for m, e in comps:
        edges += [sorted((perm[off + i], perm[off + j])) for i, j in e]
        off += m
    weights = draw(st.lists(st.integers(1, 40).map(lambda k: k / 8.0),
                            min_size=n, max_size=n))
    return {"n": n, "edges": sorted(edges), "weights": weights}


def schedules():
    drawn = st.builds(
        lambda t: {"kind": "drawn", "ticks": t},
        # two ticks out of three run nothing, so that a backlog builds up
        # which the third works off in a drawn order
        st.lists(st.one_of(st.just([]), st.just([]),
                           st.lists(st.integers(0, 7), min_size=1,
                                    max_size=8)),
                 min_size=4, max_size=30))
    fixed = st.sampled_from(["eager", "lazy", "reverse"]).map(
        lambda k: {"kind": k})
    prio = st.permutations(list(range(6))).map(
        lambda p: {"kind": "priority", "prio": list(p)})
    return st.one_of(drawn, drawn, fixed, prio)


@st.composite
def master_cases(draw):
    names = draw(st.lists(st.sampled_from(sorted(MEASURES)), min_size=1,
                          max_size=2))
    heavy = any(MEASURES[m][0] == "nsi_arenas" for m in names)
    net = draw(network(big_ok=True))
    if heavy and net["n"] > 140:
        names = [m for m in names if MEASURES[m][0] != "nsi_arenas"] or \
            ["nsi_newman"]
    n = net["n"]
    size = draw(st.one_of(st.sampled_from([3, 4, 2, 5, 6, 3, 7, 4, 8, 9]),
                          st.sampled_from([3, 4, 2, 5, 6, 3, 7, 4, 8, 9]),
                          st.integers(2, n + 2)))
    case = dict(net)
    case.update({
        "directed": draw(st.integers(0, 5)) == 0,
        "measures": names, "size": size,
        # more weight on level 0 for Arenas: levels >= 1 lie behind KF-C19-1
        "silence": draw(st.sampled_from([0, 0, 0, 0, 0, 1, 2, 3] if heavy
                                        else [0, 0, 1, 2, 3])),
        "schedule": draw(schedules()),
        "serve": draw(st.booleans()),
        "verbose": draw(st.integers(0, 5)) == 5,
    })
    return case


def _fixed_net(sizes, stride):
    """Deterministic multi-component network: component c is a cycle with
    chords (i, i+c+2) on every third node; labels interleaved by a stride
    permutation; weights (1 + (i mod 5)) / 2."""
    n = sum(sizes)
    perm = [(i * stride) % n for i in range(n)]
    if len(set(perm)) != n:
        raise HarnessError("stride not coprime")
    edges = set()
    off = 0
    for c, m in enumerate(sizes):
        local = set()
        for i in range(m):
            if m >= 2:
                local.add((i, (i + 1) % m))
            if m > 4 and i % 3 == 0:
                local.add((i, (i + c + 2) % m))
        for i, j in local:
            if i != j:
                edges.add(tuple(sorted((perm[off + i], perm[off + j]))))
        off += m
    return {"n": n, "edges": [list(e) for e in sorted(edges)],
            "weights": [(1 + (i % 5)) / 2.0 for i in range(n)]}


def enum_orders(tier):
    nets = [_fixed_net([31, 12], 5), _fixed_net([44, 7], 5)]
    fams = ["newman", "nsi_newman_ends", "nsi_arenas_twin", "nsi_newman",
            "nsi_arenas", "nsi_arenas_incl"]
    idx = 0
    for net in nets:
        for size in (2, 3, 5, 7):
            for prio in itertools.permutations(range(4)):
                for f in range(3):
                    sil = idx % 4
                    m = fams[f + 3 * ((idx // 3) % 2)]
                    if MEASURES[m][0] == "nsi_arenas" and idx % 8 < 6:
                        sil = 0     # most Arenas runs behind KF-C19-1
                    case = dict(net)
                    case.update({"measures": [m], "size": size,
                                 "silence": sil,
                                 "schedule": {"kind": "priority",
                                              "prio": list(prio)},
                                 "serve": bool(idx % 2), "verbose": False})
                    idx += 1
                    yield case
    # components with more than 100 nodes per worker: the number of chunks
    # then exceeds ten per worker (a cap some master loops apply)
    big = _fixed_net([103, 8], 5)
    for k, m in enumerate(("newman", "nsi_newman", "nsi_newman_ends")):
        for size in (2, 3):
            case = dict(big)
            case.update({"measures": [m], "size": size, "silence": k % 2,
                         "schedule": {"kind": ("eager", "reverse")[size - 2]},
                         "serve": bool(k % 2), "verbose": False})
            yield case


def _all_connected(n):
    pairs = [(i, j) for i in range(n) for j in range(i + 1, n)]
    for bits in itertools.product((0, 1), repeat=len(pairs)):
        edges = [list(p) for p, b in zip(pairs, bits) if b]
        A = _adj({"n": n, "edges": edges})
        if len(_components(A)) == 1:
            yield edges


def enum_partitions(tier):
    graphs = []
    for n in (2, 3, 4) + ((5,) if tier == "thorough" else ()):
        for e in _all_connected(n):
            graphs.append((n, e))
    for n in (5, 6, 7):
        for kind in ("path", "cycle", "star", "clique", "bipartite", "wheel"):
            graphs.append((n, _family_edges(kind, n, 2)))
        # three irregular graphs: path with chords / lollipop / tree
        graphs.append((n, [[i, i + 1] for i in range(n - 1)] + [[0, 2],
                                                               [1, n - 1]]))
        graphs.append((n, [[0, 1], [0, 2], [1, 2]] +
                       [[i, i + 1] for i in range(2, n - 1)]))
        graphs.append((n, [[(i - 1) // 2, i] for i in range(1, n)]))
    idx = 0
    for n, e in graphs:
        edges = sorted({tuple(sorted(x)) for x in e})
        for parts in _compositions(n):
            yield {"n": n, "edges": [list(x) for x in edges],
                   "weights": [(1 + ((3 * i + idx) % 7)) / 4.0
                               for i in range(n)],
                   "parts": parts, "ends": bool(idx % 2),
                   "exclude_neighbors": bool((idx // 2) % 2),
                   "stopping_mode": ["neighbors", "twinness"][(idx // 4) % 2],
                   "sources": None if idx % 3 else list(range(0, n, 2)),
                   "targets": None if idx % 5 else list(range(n - 1, -1, -2)),
                   "nsi": bool(idx % 7)}
            idx += 1


@st.composite
def partition_cases(draw):
    n, edges = draw(component(8, 40))
    perm = draw(st.permutations(list(range(n))))
    edges = sorted(sorted((perm[i], perm[j])) for i, j in edges)
    cuts = draw(st.lists(st.integers(1, n - 1), max_size=6, unique=True))
    b = [0] + sorted(cuts) + [n]
    parts = [y - x for x, y in zip(b[:-1], b[1:])]
    kernels = draw(st.sampled_from([
        ["newman", "nsi_newman", "nsi_betweenness"],
        ["newman", "nsi_newman", "nsi_betweenness"],
        ["arenas"], ["newman", "nsi_newman", "arenas", "nsi_betweenness"]]))
    subset = st.lists(st.integers(0, n - 1), min_size=1, max_size=n,
                      unique=True)
    return {"n": n, "edges": edges,
            "weights": draw(st.lists(st.integers(1, 40).map(
                lambda k: k / 8.0), min_size=n, max_size=n)),
            "parts": parts, "kernels": kernels,
            "ends": draw(st.booleans()),
            "exclude_neighbors": draw(st.booleans()),
            "stopping_mode": draw(st.sampled_from(["neighbors",
                                                   "twinness"])),
            "sources": draw(st.one_of(st.none(), subset)),
            "targets": draw(st.one_of(st.none(), subset)),
            "nsi": draw(st.booleans())}


@st.composite
def pool_cases(draw):
    if draw(st.booleans()):
        n, edges = draw(component(5, 40))
    else:
        from vp.gen.graphs import random_graph
        g = draw(random_graph(5, 24, False))
        n, edges = g["n"], g["edges"]
    subset = st.lists(st.integers(0, n - 1), min_size=1, max_size=n,
                      unique=True)
    return {"n": n, "edges": [list(e) for e in edges],
            "weights": draw(st.lists(st.integers(1, 40).map(
                lambda k: k / 8.0), min_size=n, max_size=n)),
            "sources": draw(st.one_of(st.none(), subset)),
            "targets": draw(st.one_of(st.none(), subset, subset)),
            "nsi": draw(st.sampled_from([True, True, False])),
            "batches": draw(st.one_of(st.none(), st.integers(2, n + 2)))}


SUBCHECKS = [
    SubCheck("master_loops", oracle_master, gen=master_cases,
             quick=(10, 110), thorough=(16, 1000)),
    SubCheck("schedule_orders", oracle_master, enum=enum_orders,
             quick=(4, None), thorough=(4, None)),
    SubCheck("partitions_exhaustive", oracle_partition, enum=enum_partitions,
             quick=(6, None), thorough=(6, None)),
    SubCheck("partitions_random", oracle_partition, gen=partition_cases,
             quick=(4, 150), thorough=(8, 1500)),
    SubCheck("pool", oracle_pool, gen=pool_cases,
             quick=(6, 3), thorough=(6, 20), timeout=(900, 7200)),
]
