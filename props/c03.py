"""C03 - network measures equal their published definitions.

Each public structural measure of pyunicorn.core.Network is compared with
vp/ref/graph.py (dense numpy / pure python straight from the definitions) on
exhaustively enumerated small graphs and on generated graphs (random over the
full density range, structured families, disjoint unions, isolated nodes).
"""
import numpy as np
from hypothesis import strategies as st

from vp import pbt
from vp.pbt import SubCheck, sel
from vp.gen import graphs as G
from vp.ref import graph as R

PROPERTY = "C03"
RULE = ("cases = (graph, node weights, link-weight matrix, source/target "
        "sets); exhaustive part = every labelled undirected graph on 2..5 "
        "nodes and directed graph on 2..4 nodes; random part = graphs of "
        "6..40 nodes over the full density range plus structured families "
        "(path, cycle, star, clique, bipartite, wheel, ladder, disjoint "
        "unions, isolated nodes) under random relabelling. Non-trivial = the "
        "graph has a link and at least one structural feature the measures "
        "are about: a node of degree >= 3, >= 2 components, an isolated node "
        "or a pair joined by >= 2 shortest paths; distinct = hash of the "
        "whole case.")
ASSUMPTIONS = [
    "vp/ref/graph.py is the trusted statement of each definition",
    "closeness / eigenvector centrality / PageRank / synchronizability are "
    "compared on connected undirected graphs only (docstrings leave the "
    "disconnected case open); assortativity only where the end-degree "
    "variance is non-zero; matching index, coreness, cliquishness, link "
    "betweenness on undirected graphs (as documented)",
    "errors that need degree >= 32768 (int16 DEGREE) or N >= 32767 are out "
    "of reach of any affordable generated size",
    "ARPACK-based values compared with rtol 1e-6, float64 pipelines 1e-9",
]

EIG_TOL = 1e-6
# nsi_eigenvector_centrality asks ARPACK (eigsh, shift-invert) for tol=1e-8 on
# the eigenvalue; the vector then carries errors up to ~1e-5 on graphs with a
# small spectral gap (observed 6.5e-6 at n=40 in the thorough tier)
NSI_EIG_TOL = 1e-6


def make(case, weights=True):
    from pyunicorn.core import Network
    g = case["g"]
    A = G.adj(g)
    w = case.get("w") if weights else None
    if not g["edges"]:
        # a link attribute cannot exist on a network without links
        case = dict(case, W=None)
    net = Network(adjacency=G.represent_adj(A), directed=g["directed"],
                  node_weights=G.represent_weights(w),
                  silence_level=3)
    if case.get("W") is not None:
        net.set_link_attribute("len", np.array(case["W"], dtype=float))
    return net, A


def classify(A, rec, directed):
    n = len(A)
    U = R.sym(A)
    k = U.sum(axis=1)
    comps = G.components(A)
    rec.label("directed" if directed else "undirected")
    rec.label("components>=2" if len(comps) > 1 else "connected")
    if (k == 0).any():
        rec.label("has_isolated")
    if k.max(initial=0) >= 3:
        rec.label("deg>=3")
    if k.max(initial=0) >= 4:
        rec.label("deg>=4")
    D, S = R.sp_counts(U)
    multi = bool((S[np.isfinite(D)] >= 2).any())
    if multi:
        rec.label("multi_shortest_paths")
    if U.sum() and (k.max() >= 3 or len(comps) > 1 or (k == 0).any()
                    or multi):
        rec.nontrivial(True)


class Plan:
    """Comparisons are collected first and executed in an order that is a
    pure function of the case (different for different cases): a measure
    that disturbs shared cached state (path lengths ...) then precedes its
    victims in a share of the cases instead of always coming last."""

    def __init__(self, rec, case):
        from vp.pbt import case_hash
        self.rec = rec
        self.items = []
        self.key = int(case_hash(case)[:8], 16)

    def cmp(self, net, name, ref, clause=None, args=(), kw=None, rtol=1e-9,
            atol=0.0, allowed=()):
        self.items.append((net, name, ref, clause, args, kw, rtol, atol,
                           allowed))

    def run(self):
        n = len(self.items)
        order = sorted(range(n), key=lambda i: (self.key * (2 * i + 1)
                                                + 7919 * i) % 1000003)
        for i in order:
            net, name, ref, clause, args, kw, rtol, atol, allowed = \
                self.items[i]
            _cmp(self.rec, net, name, ref, clause, args, kw, rtol, atol,
                 allowed)
        self.items = []


def _cmp(rec, net, name, ref, clause=None, args=(), kw=None, rtol=1e-9,
         atol=0.0, allowed=()):
    ok, val = rec.call((clause or name) + "_raises", getattr(net, name),
                       *args, allowed=allowed, **(kw or {}))
    if ok:
        rec.close(val, ref, clause or name, rtol=rtol, atol=atol)
    return ok, val


# ------------------------------------------------------------------ oracle

def oracle_basic(case, rec):
    if not case["g"]["edges"]:
        case = dict(case, W=None)
    g = case["g"]
    directed = g["directed"]
    n = g["n"]
    ok, res = rec.call("construct", make, case)
    if not ok:
        return
    net, A = res
    classify(A, rec, directed)
    plan = Plan(rec, case)
    sfx = "_dir" if directed else ""
    U = R.sym(A)
    w = np.array(case["w"], dtype=float) if case.get("w") else np.ones(n)

    # --- degrees and strengths
    plan.cmp(net, "degree", R.degree(A, directed), "degree" + sfx)
    plan.cmp(net, "indegree", R.indegree(A), "indegree" + sfx)
    plan.cmp(net, "outdegree", R.outdegree(A), "outdegree" + sfx)
    plan.cmp(net, "bildegree", R.bildegree(A), "bildegree" + sfx)
    if case.get("W") is not None:
        W = np.array(case["W"], dtype=float)
        si, so, sb = R.strengths(A, W)
        plan.cmp(net, "indegree", si, "instrength" + sfx, args=("len",))
        plan.cmp(net, "outdegree", so, "outstrength" + sfx, args=("len",))
        plan.cmp(net, "degree", si + so if directed else so,
             "strength" + sfx, args=("len",))
        plan.cmp(net, "bildegree", sb, "bilstrength" + sfx, args=("len",))
        plan.cmp(net, "link_attribute", W * (A != 0), "link_attribute",
             args=("len",))
    # --- laplacians
    plan.cmp(net, "laplacian", R.laplacian(A, directed, "out"),
         "laplacian_out" + sfx, kw={"direction": "out"})
    if directed:
        plan.cmp(net, "laplacian", R.laplacian(A, True, "in"),
             "laplacian_in_dir", kw={"direction": "in"})
    # --- clustering family (symmetrised graph for directed input)
    plan.cmp(net, "local_clustering", R.local_clustering(A),
         "local_clustering" + sfx)
    plan.cmp(net, "global_clustering", R.local_clustering(A).mean(),
         "global_clustering" + sfx)
    plan.cmp(net, "transitivity", R.transitivity(A), "transitivity" + sfx)
    for kind in ("cycle", "mid", "in", "out"):
        plan.cmp(net, "local_%smotif_clustering" % kind,
             R.motif_clustering(A, kind), "%smotif%s" % (kind, sfx))
        if case.get("W") is not None and n <= 14:
            plan.cmp(net, "local_%smotif_clustering" % kind,
                 R.motif_clustering(A, kind, case["W"]),
                 "%smotif_weighted%s" % (kind, sfx), kw={"key": "len"})
    # --- shortest paths
    D = R.path_lengths(A)
    plan.cmp(net, "path_lengths", D, "path_lengths" + sfx)
    plan.cmp(net, "average_path_length", R.average_path_length(D),
         "average_path_length" + sfx)
    plan.cmp(net, "diameter", R.diameter(D), "diameter" + sfx)
    # documented variants: unconnected graphs give N when only_connected is
    # off; directed=False measures the undirected version
    conn_all = bool(np.isfinite(D).all())
    plan.cmp(net, "diameter", R.diameter(D) if conn_all else n,
             "diameter_all_pairs" + sfx, kw={"only_connected": False})
    DU = R.path_lengths(R.sym(A))
    plan.cmp(net, "diameter", R.diameter(DU), "diameter_undirected" + sfx,
             kw={"directed": False})
    plan.cmp(net, "global_efficiency", R.global_efficiency(D),
         "global_efficiency" + sfx)
    if case.get("W") is not None:
        DW = R.path_lengths(A, case["W"])
        plan.cmp(net, "path_lengths", DW, "path_lengths_weighted" + sfx,
             args=("len",))
        if np.isfinite(DW).sum() > n:
            plan.cmp(net, "average_path_length", R.average_path_length(DW),
                 "average_path_length_weighted" + sfx, args=("len",))
        plan.cmp(net, "global_efficiency", R.global_efficiency(DW),
             "global_efficiency_weighted" + sfx, args=("len",))
        if np.isfinite(DW).all():
            plan.cmp(net, "closeness", R.closeness_connected(DW),
                 "closeness_weighted" + sfx, args=("len",))
        # link lengths may be zero on existing links (coincident nodes of a
        # distance attribute): such pairs are connected pairs at distance 0
        W0 = np.array(case["W"], dtype=float)
        zi, zj = np.nonzero(A)
        zero = [(i, j) for i, j in zip(zi, zj)
                if (3 * min(i, j) + 5 * max(i, j) + plan.key) % 3 == 0]
        if zero:
            for i, j in zero:
                W0[i, j] = 0.0
                if not directed:
                    W0[j, i] = 0.0
            ok0, _ = rec.call("set_link_attribute_zero_lengths",
                              net.set_link_attribute, "len0", W0)
            if ok0:
                rec.label("zero_length_links")
                D0 = R.path_lengths(A, W0)
                plan.cmp(net, "path_lengths", D0,
                         "path_lengths_zero_lengths" + sfx, args=("len0",))
                if (np.isfinite(D0) & ~np.eye(n, dtype=bool)).any():
                    plan.cmp(net, "average_path_length",
                             R.average_path_length(D0),
                             "average_path_length_zero_lengths" + sfx,
                             args=("len0",))
    # --- betweenness
    plan.cmp(net, "betweenness", R.betweenness(A, directed),
         "betweenness" + sfx)

    if directed:
        # "Does not respect directionality of links": the value on the simple
        # undirected graph A or A^T, reciprocated links counted as one link
        if n <= 14:
            plan.cmp(net, "link_betweenness", R.link_betweenness(A),
                 "link_betweenness_dir")
        # n.s.i. degrees for directed graphs
        plan.cmp(net, "nsi_indegree", R.nsi_indegree(A, w), "nsi_indegree")
        plan.cmp(net, "nsi_outdegree", R.nsi_outdegree(A, w),
             "nsi_outdegree")
        plan.cmp(net, "nsi_degree", R.nsi_degree(A, w, True),
                 "nsi_degree_dir")
        plan.run()
        return

    # ------------------------- undirected only from here -----------------
    connected = np.isfinite(D).all()
    k = U.sum(axis=1)
    if connected:
        plan.cmp(net, "closeness", R.closeness_connected(D), "closeness")
    mi = R.matching_index(A)
    ok, val = rec.call("matching_index_raises", net.matching_index)
    if ok:
        m = ~np.isnan(mi)
        rec.close(sel(val, m), mi[m], "matching_index")
    plan.cmp(net, "coreness", R.coreness(A), "coreness")
    ra = R.assortativity(A)
    if not np.isnan(ra):
        plan.cmp(net, "assortativity", ra, "assortativity", rtol=1e-8)
    if (k > 0).all():
        plan.cmp(net, "average_neighbors_degree", (U @ k) / k,
             "average_neighbors_degree")
    plan.cmp(net, "max_neighbors_degree", (U * k[None, :]).max(axis=1),
         "max_neighbors_degree")
    # interregional betweenness for generated source / target sets
    src = sorted({s % n for s in case.get("src") or [0]})
    tgt = sorted({t % n for t in case.get("tgt") or [n - 1]})
    plan.cmp(net, "interregional_betweenness",
         R.interregional_betweenness(A, src, tgt),
         "interregional_betweenness", kw={"sources": src, "targets": tgt})
    plan.cmp(net, "interregional_betweenness", 2 * R.betweenness(A, False),
         "interregional_all_equals_twice_betweenness")
    # --- n.s.i. measures from their docstring formulas, general weights
    plan.cmp(net, "nsi_degree", R.nsi_degree(A, w), "nsi_degree")
    plan.cmp(net, "nsi_local_clustering", R.nsi_local_clustering(A, w),
         "nsi_local_clustering")
    plan.cmp(net, "nsi_global_clustering",
         R.nsi_local_clustering(A, w) @ w / w.sum(), "nsi_global_clustering")
    plan.cmp(net, "nsi_average_path_length",
         R.nsi_average_path_length(A, w), "nsi_average_path_length")
    plan.cmp(net, "nsi_closeness", R.nsi_closeness(A, w), "nsi_closeness")
    plan.cmp(net, "nsi_harmonic_closeness", R.nsi_harmonic_closeness(A, w),
         "nsi_harmonic_closeness")
    plan.cmp(net, "nsi_exponential_closeness",
         R.nsi_exponential_closeness(A, w), "nsi_exponential_closeness")
    plan.cmp(net, "nsi_global_efficiency", R.nsi_global_efficiency(A, w),
         "nsi_global_efficiency")
    # further n.s.i. measures (extended neighbourhoods, node weights)
    plan.cmp(net, "nsi_transitivity", R.nsi_transitivity(A, w),
             "nsi_transitivity")
    plan.cmp(net, "nsi_average_neighbors_degree",
             R.nsi_average_neighbors_degree(A, w),
             "nsi_average_neighbors_degree")
    plan.cmp(net, "nsi_max_neighbors_degree",
             R.nsi_max_neighbors_degree(A, w), "nsi_max_neighbors_degree")
    plan.cmp(net, "nsi_bildegree", R.nsi_bildegree(A, w), "nsi_bildegree")
    plan.cmp(net, "nsi_laplacian", R.nsi_laplacian(A, w), "nsi_laplacian")
    plan.cmp(net, "nsi_local_soffer_clustering",
             R.nsi_local_soffer_clustering(A, w),
             "nsi_local_soffer_clustering")
    plan.cmp(net, "nsi_twinness", R.nsi_twinness(A, w), "nsi_twinness")
    if n <= 9:
        # weighted shortest-path betweenness by path enumeration
        refb = R.nsi_betweenness(A, w)
        plan.cmp(net, "nsi_betweenness", refb, "nsi_betweenness_def",
                 rtol=1e-9, atol=1e-12 * max(float(np.abs(refb).max()),
                                             float(np.min(w))))
        plan.cmp(net, "nsi_interregional_betweenness",
                 R.nsi_betweenness(A, w, src, tgt),
                 "nsi_interregional_betweenness_def",
                 kw={"sources": src, "targets": tgt}, rtol=1e-9,
                 atol=1e-12 * max(float(np.abs(refb).max()),
                                  float(np.min(w))))
    plan.cmp(net, "undirected_adjacency", U, "undirected_adjacency")
    if connected and n >= 3 and U.sum():
        plan.cmp(net, "nsi_eigenvector_centrality",
                 R.nsi_eigenvector_centrality(A, w),
                 "nsi_eigenvector_centrality", rtol=NSI_EIG_TOL,
                 atol=NSI_EIG_TOL)
    if case.get("W") is not None and U.sum():
        Wm = np.array(case["W"], dtype=float) * U
        ref_w = R.weighted_local_clustering(Wm)
        ok, val = rec.call("weighted_local_clustering_raises",
                           net.weighted_local_clustering, Wm)
        if ok:
            m = ~np.isnan(ref_w)
            rec.close(sel(np.asarray(val, dtype=float), m), ref_w[m],
                      "weighted_local_clustering")
    # --- unit weights: documented relations to the unweighted measures
    ok, res = rec.call("construct_unit", make, case, False)
    if ok:
        unit, _ = res
        plan.cmp(unit, "nsi_degree", k + 1, "unit_nsi_degree_is_k_plus_1")
        plan.cmp(unit, "nsi_degree", k, "unit_corrected_nsi_degree_is_k",
             kw={"typical_weight": 1.0})
        ok2, c = rec.call("unit_corrected_nsi_local_clustering_raises",
                          unit.nsi_local_clustering, typical_weight=1.0)
        if ok2:
            m = k >= 2
            rec.close(sel(c, m), R.local_clustering(A)[m],
                      "unit_corrected_nsi_local_clustering")
    plan.run()


def oracle_heavy(case, rec):
    """Costlier measures on undirected graphs."""
    if not case["g"]["edges"]:
        case = dict(case, W=None)
    g = case["g"]
    n = g["n"]
    ok, res = rec.call("construct", make, case)
    if not ok:
        return
    net, A = res
    classify(A, rec, False)
    plan = Plan(rec, case)
    U = R.sym(A)
    k = U.sum(axis=1)
    D = R.path_lengths(A)
    connected = bool(np.isfinite(D).all())
    plan.cmp(net, "local_cliquishness", R.local_clustering(A),
         "cliquishness3", args=(3,))
    plan.cmp(net, "local_cliquishness", R.local_cliquishness(A, 4),
         "cliquishness4", args=(4,))
    plan.cmp(net, "local_cliquishness", R.local_cliquishness(A, 5),
         "cliquishness5", args=(5,))
    if n <= 16:
        plan.cmp(net, "higher_order_transitivity",
             R.higher_order_transitivity4(A), "higher_order_transitivity4",
             args=(4,))
    plan.cmp(net, "link_betweenness", R.link_betweenness(A),
         "link_betweenness")
    plan.cmp(net, "edge_betweenness", R.link_betweenness(A),
         "edge_betweenness")
    if U.sum() and n >= 3 and n <= 14:
        # vulnerability needs a non-zero efficiency and node-deleted graphs
        plan.cmp(net, "local_vulnerability", R.local_vulnerability(A),
             "local_vulnerability")
        if case.get("W") is not None:
            plan.cmp(net, "local_vulnerability",
                 R.local_vulnerability(A, case["W"]),
                 "local_vulnerability_weighted", args=("len",))
    plan.cmp(net, "newman_betweenness", R.newman_betweenness(A),
         "newman_betweenness", rtol=1e-8)
    plan.cmp(net, "arenas_betweenness", R.arenas_betweenness(A),
         "arenas_betweenness", rtol=1e-8)
    # the n.s.i. random-walk betweennesses against their random-walk /
    # circuit definitions (vp.ref.graph), node weights k/8 or unit
    if n <= 11:
        wv = np.ones(n) if case.get("w") is None else \
            np.array(case["w"], dtype=float)
        rec.label("rw_unit_weights" if case.get("w") is None
                  else "rw_node_weights")
        hk = int(pbt.case_hash(case)[:4], 16)
        excl, mode = bool(hk & 1), ("neighbors", "twinness")[(hk >> 1) & 1]
        ref = R.nsi_arenas_betweenness(A, wv, excl, mode)
        plan.cmp(net, "nsi_arenas_betweenness", ref,
                 "nsi_arenas_betweenness_def_%s_%s" % (
                     "excl" if excl else "all", mode),
                 kw={"exclude_neighbors": excl, "stopping_mode": mode},
                 rtol=1e-7, atol=1e-7 * max(1.0, float(np.abs(ref).max())))
        ale = bool((hk >> 2) & 1)
        ref = R.nsi_newman_betweenness(A, wv, ale)
        plan.cmp(net, "nsi_newman_betweenness", ref,
                 "nsi_newman_betweenness_def" + ("_local_ends" if ale
                                                 else ""),
                 kw={"add_local_ends": ale}, rtol=1e-7,
                 atol=1e-7 * max(1.0, float(np.abs(ref).max()),
                                 float(wv.sum()) ** 2))
    if connected and n >= 3 and U.sum():
        plan.cmp(net, "eigenvector_centrality",
             R.eigenvector_centrality(A), "eigenvector_centrality",
             rtol=EIG_TOL, atol=EIG_TOL)
        plan.cmp(net, "msf_synchronizability", R.msf_synchronizability(A),
             "msf_synchronizability", rtol=1e-7)
        ok, pr = rec.call("pagerank_raises", net.pagerank)
        if ok:
            pr = np.asarray(pr, dtype=float)
            rec.close(pr / pr.sum(), R.pagerank(U), "pagerank", rtol=1e-6,
                      atol=1e-9)
    plan.run()
    from pyunicorn.core import Network
    other = Network(adjacency=np.roll(np.roll(A, 1, 0), 1, 1),
                    silence_level=3)
    ok, h = rec.call("hamming_raises", net.hamming_distance_from, other)
    if ok:
        B = np.roll(np.roll(A, 1, 0), 1, 1)
        rec.close(h, (A != B).sum() / float(n * (n - 1)), "hamming_distance")


def _cliques_in(B, size):
    """Number of cliques of `size` (2, 3 or 4) nodes in the simple graph B."""
    B = B.astype(np.int64)
    if size == 2:
        return int(B.sum()) // 2
    if size == 3:
        return int(np.trace(B @ B @ B)) // 6
    tot = 0
    m = len(B)
    for a in range(m):
        for b in range(a + 1, m):
            if B[a, b]:
                c = np.nonzero(B[a] & B[b])[0]
                tot += int(B[np.ix_(c, c)].sum()) // 2
    return tot // 6      # every 4-clique is found once from each of its links


def cliquishness_dense(A, order):
    """Definition as in vp.ref.graph.local_cliquishness, counted by matrix
    products so that neighbourhoods of 16..39 nodes stay cheap."""
    from math import comb
    U = R.sym(A)
    out = np.zeros(len(U))
    for i in range(len(U)):
        nb = np.nonzero(U[i])[0]
        if len(nb) >= order - 1:
            out[i] = _cliques_in(U[np.ix_(nb, nb)], order - 1) \
                / comb(len(nb), order - 1)
    return out


def oracle_dense(case, rec):
    """Dense graphs on 17..40 nodes: degrees of 16..39, where products like
    k(k-1)(k-2)(k-3) leave the small integer types of the kernels."""
    ok, res = rec.call("construct", make, case)
    if not ok:
        return
    net, A = res
    classify(A, rec, False)
    U = R.sym(A)
    k = U.sum(axis=1)
    rec.label("max_degree>=16" if k.max() >= 16 else "max_degree<16")
    rec.label("max_degree>=34" if k.max() >= 34 else "max_degree<34")
    if len(U) <= 9:
        for o in (4, 5):    # the fast count against the literal definition
            rec.close(cliquishness_dense(A, o), R.local_cliquishness(A, o),
                      "selfcheck_reference_cliquishness%d" % o)
    plan = Plan(rec, case)
    plan.cmp(net, "local_cliquishness", R.local_clustering(A),
             "cliquishness3", args=(3,))
    plan.cmp(net, "local_cliquishness", cliquishness_dense(A, 4),
             "cliquishness4", args=(4,))
    plan.cmp(net, "local_cliquishness", cliquishness_dense(A, 5),
             "cliquishness5", args=(5,))
    plan.cmp(net, "degree", k, "degree")
    plan.cmp(net, "local_clustering", R.local_clustering(A),
             "local_clustering")
    plan.cmp(net, "transitivity", R.transitivity(A), "transitivity")
    plan.cmp(net, "matching_index", R.matching_index(A), "matching_index")
    plan.run()
    if k.max() >= 16:
        rec.nontrivial(True)


# -------------------------------------------------------------- generators

def _dyadic_w(n, salt):
    return [((3 * i + salt) % 7 + 1) / 4.0 for i in range(n)]


def _attr(n, directed, salt):
    W = np.zeros((n, n))
    for i in range(n):
        for j in range(n):
            if i == j:
                continue
            a, b = (i, j) if directed or i < j else (j, i)
            W[i, j] = ((5 * a + 3 * b + salt) % 9 + 1) / 2.0
    return W.tolist()


def enum_small(tier):
    for idx, g in enumerate(G.all_small_graphs(5, 4)):
        n = g["n"]
        # every seventh graph carries its weights at one of the small
        # magnitudes (exact powers of two near 1e-8 / 1e-9 / 1e-6)
        sc = (1.0, 2.0 ** -26, 2.0 ** -30, 2.0 ** -20)[
            (idx // 7) % 4 if idx % 7 == 0 else 0]
        yield {"g": g, "w": [v * sc for v in _dyadic_w(n, idx % 5)],
               "W": _attr(n, g["directed"], idx % 4),
               "src": [idx % n, (idx // 3) % n], "tgt": [(idx // 7) % n]}


@st.composite
def basic_cases(draw, n_min=6, n_max=24):
    directed = draw(st.booleans())
    g = draw(G.graphs(n_min, n_max, directed))
    n = g["n"]
    w = draw(st.one_of(st.none(), G.node_weights_wide(n)))
    W = draw(st.one_of(st.none(), G.link_attr(n, directed)))
    return {"g": g, "w": w, "W": W,
            "src": draw(st.lists(st.integers(0, 63), min_size=1, max_size=5)),
            "tgt": draw(st.lists(st.integers(0, 63), min_size=1, max_size=5))}


@st.composite
def big_cases(draw):
    c = draw(basic_cases(25, 40))
    c["W"] = None
    return c


@st.composite
def heavy_cases(draw, n_min=3, n_max=13):
    g = draw(st.one_of(G.graphs(n_min, n_max, False),
                       G.connected_graph(n_min, n_max)))
    n = g["n"]
    return {"g": g, "w": draw(st.one_of(st.none(), G.node_weights(n))),
            "W": draw(st.one_of(st.none(), G.link_attr(n, False)))}


@st.composite
def dense_cases(draw):
    n = draw(st.one_of(st.integers(5, 9), st.integers(17, 40),
                       st.integers(17, 40)))
    pairs = [(i, j) for i in range(n) for j in range(i + 1, n)]
    kind = draw(st.integers(0, 3))
    if kind == 0:
        gone = set()                      # complete graph
    else:
        frac = (0.05, 0.15, 0.3)[kind - 1]
        gone = set(draw(st.lists(st.integers(0, len(pairs) - 1),
                                 max_size=int(frac * len(pairs)) + 1)))
    edges = [list(p) for i, p in enumerate(pairs) if i not in gone]
    return {"g": {"n": n, "directed": False, "edges": edges}, "w": None,
            "W": None}


def enum_small_heavy(tier):
    for idx, g in enumerate(G.all_small_graphs(5, 0)):
        yield {"g": g, "w": _dyadic_w(g["n"], idx) if idx % 3 else None,
               "W": _attr(g["n"], False, idx % 4) if idx % 2 else None}


SUBCHECKS = [
    SubCheck("exhaustive_basic", oracle_basic, enum=enum_small,
             quick=(8, None), thorough=(8, None)),
    SubCheck("exhaustive_heavy", oracle_heavy, enum=enum_small_heavy,
             quick=(4, None), thorough=(4, None)),
    SubCheck("random_basic", oracle_basic, gen=basic_cases,
             quick=(8, 120), thorough=(12, 1500)),
    SubCheck("random_big", oracle_basic, gen=big_cases,
             quick=(4, 15), thorough=(8, 300)),
    SubCheck("random_heavy", oracle_heavy, gen=heavy_cases,
             quick=(8, 100), thorough=(12, 1500)),
    SubCheck("random_dense", oracle_dense, gen=dense_cases,
             quick=(8, 12), thorough=(12, 200)),
]
