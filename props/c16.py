"""C16 - event synchronisation / event coincidence analysis follow their
counting rules.

Reference: vp/ref/events.py - literal loop evaluation (exact Fractions) of
the formulas the repository publishes in the tutorial notebook
docs/source/examples/tutorials/EventSeriesAnalysis.ipynb and in the
docstrings / code comments of pyunicorn/eventseries/event_series.py.

All times, lags and windows are dyadic rationals (multiples of 1/8, |t| < 2^12)
so the library's float64 arithmetic on them is exact and every `<=` / `==`
in the counting rules is decided identically by library and reference.
"""
import warnings
from fractions import Fraction

import numpy as np
from hypothesis import strategies as st

from vp.pbt import SubCheck
from vp.ref import events as ref

PROPERTY = "C16"
RULE = ("cases = pairs of 0/1 event sequences (T 3..40, Bernoulli densities "
        "0.1..0.5 so that 0-3 events per series are frequent, optional forced "
        "events at both ends, second sequence independent or a shifted noisy "
        "copy of the first = simultaneous / near-simultaneous events), index "
        "time or increasing integer / dyadic timestamps (optionally different "
        "for the two sequences), taumax in {inf, k/4}, lag k/4, shift and "
        "power-of-two rescaling parameters; T x N event matrices (N 2..5) "
        "with all six / four symmetrisations and three window types; "
        "continuous T x N data on tie-rich dyadic grids with every "
        "combination of threshold method / value / type (scalar, per "
        "variable, default). Non-trivial (pairs, matrices) = both series "
        "(resp. at least one pair of columns) have >= 3 events and at least "
        "one pair of events lies within the coincidence window; "
        "(thresholding) = at least one sample equals the threshold or both "
        "marks 0 and 1 occur. Distinct = hash of the whole case.")
ASSUMPTIONS = [
    "times, lag, taumax are dyadic rationals (float64 arithmetic exact)",
    "ES 'equals the formula' is asserted only when no event takes part in "
    "coincidences of both directions (otherwise Odenweller's double-count "
    "correction, cited but not spelled out by the repository, applies) and "
    "both series have >= 3 events; for fewer events the documented returns "
    "NaN / 0 are accepted",
    "ECA boundary counts s', s'' are those of the code comments (events "
    "within lag+taumax of the first / last event; 0 for lag = taumax = 0); a "
    "rate whose averaging set is empty (0/0) is undefined: NaN accepted",
    "ECA lag >= 0 (tutorial: tau >= 0)",
    "quantile thresholds: numpy's float interpolation is trusted to within "
    "1e-12 relative; a sample closer than that to the exact rational "
    "threshold may be marked either way unless all arithmetic is exact "
    "(dyadic quantile level)",
]

SYM_ES = ["directed", "symmetric", "antisym", "mean", "max", "min"]
SYM_ECA = ["directed", "mean", "max", "min"]
WINDOWS = ["advanced", "retarded", "symmetric"]


# ------------------------------------------------------------------ helpers

def _quiet(fn, *a, **k):
    with warnings.catch_warnings():
        warnings.simplefilter("ignore")
        with np.errstate(all="ignore"):
            return fn(*a, **k)


def _arr_ts(ts):
    return None if ts is None else np.array(ts, dtype=np.float64)


def _taumax(v):
    return np.inf if v is None else float(v)


def lib_es(x, y, ts1, ts2, taumax, lag):
    from pyunicorn.eventseries import EventSeries
    r = _quiet(EventSeries.event_synchronization,
               np.array(x, dtype=int), np.array(y, dtype=int),
               ts1=_arr_ts(ts1), ts2=_arr_ts(ts2), taumax=_taumax(taumax),
               lag=lag)
    return np.array([float(v) for v in r])


def lib_eca(x, y, ts1, ts2, taumax, lag):
    from pyunicorn.eventseries import EventSeries
    r = _quiet(EventSeries.event_coincidence_analysis,
               np.array(x, dtype=int), np.array(y, dtype=int), float(taumax),
               ts1=_arr_ts(ts1), ts2=_arr_ts(ts2), lag=lag)
    return np.array([float(v) for v in r])


def _in_unit(v):
    v = np.asarray(v, dtype=float)
    with np.errstate(invalid="ignore"):
        return bool(np.all(np.isnan(v) | ((v >= 0.0) & (v <= 1.0))))


def _fmt(v):
    return np.array2string(np.asarray(v, dtype=float), precision=6)


def _times(case):
    ts1 = case.get("ts")
    ts2 = case.get("ts2")
    if ts2 is None:
        ts2 = ts1
    return ts1, ts2


# ------------------------------------------------------------------ ES pairs

def oracle_es_pair(case, rec):
    x, y = case["x"], case["y"]
    ts1, ts2 = _times(case)
    taumax, lag = case["taumax"], case["lag"]
    T = len(x)
    tx = ref.event_times(x, ts1)
    ty = ref.event_times(y, ts2)
    qxy, qyx, info = ref.es_strengths(tx, ty, _taumax(taumax), Fraction(lag))
    path = "index" if ts1 is None else "timestamps"
    rec.label("events_%s" % info["status"])
    rec.label("time_" + path + ("_two_clocks" if case.get("ts2") else ""))
    rec.label("taumax_" + ("inf" if taumax is None else "finite"))
    rec.label("lag_" + ("zero" if lag == 0 else "nonzero"))
    if min(len(tx), len(ty)) <= 3:
        rec.label("series_with_0_to_3_events")
    if x[0] and x[-1] or y[0] and y[-1]:
        rec.label("events_at_both_ends")
    if set(tx) & set(t + Fraction(lag) for t in ty):
        rec.label("simultaneous_events")
    if info["both_directions"]:
        rec.label("coincidence_in_both_directions")

    ok, q = rec.call("event_synchronization_raises", lib_es, x, y, ts1, ts2,
                     taumax, lag)
    if not ok:
        return
    rec.check(_in_unit(q), "es_range_0_1", lambda: "Q=%s" % _fmt(q))
    if info["status"] == "ok":
        if not info["both_directions"]:
            rec.close(q, [qxy, qyx], "es_equals_formula_" + path, rtol=1e-12,
                      detail="sx=%d sy=%d" % (info["sx"], info["sy"]))
        if info["n_coinc"] > 0:
            rec.nontrivial(True)
    else:
        # documented returns: NaN (no event) / 0 (1 or 2 events)
        rec.check(bool(np.all(np.isnan(q) | (q == 0.0))),
                  "es_too_few_events_returns_nan_or_0", lambda: _fmt(q))

    # exchange of the two sequences (the lag belongs to the second one)
    ok, qs = rec.call("event_synchronization_raises_exchanged", lib_es, y, x,
                      ts2, ts1, taumax, -lag)
    if ok:
        rec.close(qs[::-1], q, "es_exchange_swaps_outputs", rtol=1e-12)

    # common shift in time
    k = case["shift"]
    if ts1 is None:
        pad = [0] * (abs(k) % 51)     # index time: a few leading samples
        tail = [0] * (abs(k) % 3)
        ok, q2 = rec.call("event_synchronization_raises_shifted", lib_es,
                          pad + x + tail, pad + y + tail, None, None, taumax,
                          lag)
        if ok:
            rec.close(q2, q, "es_shift_invariance_index", rtol=1e-12)
        # explicit timestamps 0..T-1 describe the same event times
        ar = list(range(T))
        ok, q3 = rec.call("event_synchronization_raises_arange", lib_es, x, y,
                          ar, ar, taumax, lag)
        if ok:
            rec.close(q3, q, "es_index_time_equals_arange_timestamps",
                      rtol=1e-12)
        b1 = b2 = ar
    else:
        s1 = [t + k for t in ts1]
        s2 = [t + k for t in ts2]
        ok, q2 = rec.call("event_synchronization_raises_shifted", lib_es, x,
                          y, s1, s2, taumax, lag)
        if ok:
            rec.close(q2, q, "es_shift_invariance_timestamps", rtol=1e-12)
        b1, b2 = ts1, ts2
    # rescaling of time with an unbounded window
    if taumax is None:
        f = 2.0 ** case["scale"]
        ok, q4 = rec.call("event_synchronization_raises_scaled", lib_es, x, y,
                          [t * f for t in b1], [t * f for t in b2], None,
                          lag * f)
        if ok:
            rec.close(q4, q, "es_time_rescaling_invariance_taumax_inf",
                      rtol=1e-12, detail="factor=%s" % f)


# ----------------------------------------------------------------- ECA pairs

ECA_NAMES = ["precursor_xy", "trigger_xy", "precursor_yx", "trigger_yx"]


def oracle_eca_pair(case, rec):
    x, y = case["x"], case["y"]
    ts1, ts2 = _times(case)
    taumax, lag = case["taumax"], case["lag"]
    T = len(x)
    tx = ref.event_times(x, ts1)
    ty = ref.event_times(y, ts2)
    path = "index" if ts1 is None else "timestamps"
    rec.label("time_" + path + ("_two_clocks" if case.get("ts2") else ""))
    rec.label("lag_" + ("zero" if lag == 0 else "positive"))
    rec.label("taumax_zero" if taumax == 0 else "taumax_positive")
    if min(len(tx), len(ty)) <= 3:
        rec.label("series_with_0_to_3_events")
    if not tx or not ty:
        # the counting formula is 0/0 for a series without events: undefined,
        # NaN expected (as ES returns); an exception is not a value
        rec.label("series_without_events")
        ok, r = rec.call("eca_series_without_events", lib_eca, x, y, ts1, ts2,
                         taumax, lag)
        if ok:
            rec.check(_in_unit(r), "eca_range_0_1", lambda: _fmt(r))
        return
    rates, pairs = ref.eca_rates(tx, ty, Fraction(taumax), Fraction(lag))
    ok, r = rec.call("event_coincidence_analysis_raises", lib_eca, x, y, ts1,
                     ts2, taumax, lag)
    if not ok:
        return
    rec.check(_in_unit(r), "eca_range_0_1", lambda: "rates=%s" % _fmt(r))
    defined = 0
    for idx, name in enumerate(ECA_NAMES):
        v = ref.rate_value(rates[idx])
        if v is None:
            rec.label("rate_undefined_0_over_0")
            continue
        defined += 1
        # the library returns float32 quotients
        rec.close(r[idx], v, "eca_equals_formula_" + name, rtol=0, atol=1e-6,
                  detail="count/den=%s" % (rates[idx],))
    if len(tx) >= 3 and len(ty) >= 3 and pairs > 0 and defined:
        rec.nontrivial(True)
    if x[0] and x[-1] or y[0] and y[-1]:
        rec.label("events_at_both_ends")
    if set(tx) & set(t + Fraction(lag) for t in ty):
        rec.label("simultaneous_events")

    ok, rs = rec.call("event_coincidence_analysis_raises_exchanged", lib_eca,
                      y, x, ts2, ts1, taumax, lag)
    if ok:
        rec.close(rs[[2, 3, 0, 1]], r, "eca_exchange_swaps_outputs", rtol=0,
                  atol=1e-12)
    k = case["shift"]
    if ts1 is None:
        pad = [0] * (abs(k) % 51)     # index time: a few leading samples
        tail = [0] * (abs(k) % 3)
        ok, r2 = rec.call("event_coincidence_analysis_raises_shifted",
                          lib_eca, pad + x + tail, pad + y + tail, None, None,
                          taumax, lag)
        if ok:
            rec.close(r2, r, "eca_shift_invariance_index", rtol=0, atol=1e-12)
        ar = list(range(T))
        ok, r3 = rec.call("event_coincidence_analysis_raises_arange", lib_eca,
                          x, y, ar, ar, taumax, lag)
        if ok:
            rec.close(r3, r, "eca_index_time_equals_arange_timestamps",
                      rtol=0, atol=1e-12)
        b1 = b2 = ar
    else:
        ok, r2 = rec.call("event_coincidence_analysis_raises_shifted",
                          lib_eca, x, y, [t + k for t in ts1],
                          [t + k for t in ts2], taumax, lag)
        if ok:
            rec.close(r2, r, "eca_shift_invariance_timestamps", rtol=0,
                      atol=1e-12)
        b1, b2 = ts1, ts2
    # all quantities of the formula are homogeneous in time
    f = 2.0 ** case["scale"]
    ok, r4 = rec.call("event_coincidence_analysis_raises_scaled", lib_eca, x,
                      y, [t * f for t in b1], [t * f for t in b2], taumax * f,
                      lag * f)
    if ok:
        rec.close(r4, r, "eca_joint_rescaling_of_time_window_and_lag", rtol=0,
                  atol=1e-12, detail="factor=%s" % f)


# ------------------------------------------------------------------ matrices

def _lib_series(E, ts, taumax, lag):
    from pyunicorn.eventseries import EventSeries
    return EventSeries(np.array(E, dtype=int), timestamps=_arr_ts(ts),
                       taumax=_taumax(taumax), lag=lag)


def _cmp_matrix(rec, M, expect, clause, atol, nan_required):
    """Off-diagonal comparison; expect[i][j] None = undefined (skipped, or
    NaN required when ``nan_required``)."""
    n = len(expect)
    M = np.asarray(M, dtype=float)
    if M.shape != (n, n):
        rec.fail(clause, "shape %s" % (M.shape,))
        return
    bad = []
    for i in range(n):
        for j in range(n):
            if i == j:
                continue
            e = expect[i][j]
            if e is None:
                if nan_required and not np.isnan(M[i, j]):
                    bad.append((i, j, M[i, j], "nan"))
                continue
            if not abs(M[i, j] - e) <= atol:
                bad.append((i, j, M[i, j], e))
    if bad:
        rec.fail(clause, "N=%d (i,j,lib,expected): %s" % (n, bad[:4]))


def _climate_clause(rec, E, T, N, taumax, lag, sym, want):
    from pyunicorn.core import GeoGrid
    from pyunicorn.climate import ClimateData
    from pyunicorn.climate.eventseries_climatenetwork import \
        EventSeriesClimateNetwork

    def build():
        grid = GeoGrid(np.arange(float(T)), 10.0 * np.arange(N) - 40.0,
                       15.0 * np.arange(N), silence_level=3)
        data = ClimateData(np.array(E, dtype=float), grid, time_cycle=1,
                           anomalies=True, silence_level=3)
        if lag is None:      # documented defaults
            return EventSeriesClimateNetwork(
                data, method="ES", symmetrization=sym, silence_level=3)
        return EventSeriesClimateNetwork(
            data, method="ES", taumax=_taumax(taumax), lag=lag,
            symmetrization=sym, silence_level=3)
    tag = sym + ("_defaults" if lag is None else "")
    ok, net = rec.call("climate_network_ES_%s_construct" % tag, _quiet, build)
    if not ok:
        return
    rec.label("climate_network_sym=" + tag)
    ok, S = rec.call("climate_network_similarity", net.similarity_measure)
    if ok:
        _cmp_matrix(rec, S, [[None if i == j else abs(want[i][j])
                              for j in range(N)] for i in range(N)],
                    "climate_network_es_%s_similarity_equals_formula" % tag,
                    1e-6, False)
    A = np.asarray(net.adjacency)
    exp = np.array([[0 if i == j else int(abs(want[i][j]) > 1e-9)
                     for j in range(N)] for i in range(N)])
    sure = np.array([[i != j and not 0 < abs(want[i][j]) <= 1e-6
                      for j in range(N)] for i in range(N)])
    rec.check(A.shape == (N, N) and bool((A[sure] == exp[sure]).all()),
              "climate_network_es_%s_links_positive_pairs" % tag,
              lambda: "adjacency %s expected %s" % (A.tolist(), exp.tolist()))


def oracle_matrix(case, rec):
    E = case["E"]                    # T rows of N bits
    T, N = len(E), len(E[0])
    ts = case.get("ts")
    taumax, lag = case["taumax"], case["lag"]
    method = case["method"]
    perm = case["perm"]
    cols = [[E[t][i] for t in range(T)] for i in range(N)]
    times = [ref.event_times(c, ts) for c in cols]
    rec.label("method_" + method)
    rec.label("N=%d" % N)
    rec.label("lag_" + ("zero" if lag == 0 else "nonzero"))
    flat = [v for row in E for v in row]
    if len(set(flat)) != 2:
        # documented: the constructor wants a matrix holding both 0 and 1
        rec.label("constant_matrix")
        rec.call("construct", _lib_series, E, ts, taumax, lag,
                 allowed=(IOError,))
        return
    ok, es = rec.call("construct", _lib_series, E, ts, taumax, lag)
    if not ok:
        return
    tsl = list(range(T)) if ts is None else ts
    if method == "ES":
        # pairwise values: library's own pair function and the formula
        Dlib = [[0.0] * N for _ in range(N)]
        Dref = [[0.0] * N for _ in range(N)]
        nt = False
        for i in range(N):
            for j in range(i + 1, N):
                ok, q = rec.call("event_synchronization_raises", lib_es,
                                 cols[i], cols[j], tsl, tsl, taumax, lag)
                if not ok:
                    return
                Dlib[i][j] = None if np.isnan(q[0]) else q[0]
                Dlib[j][i] = None if np.isnan(q[1]) else q[1]
                a, b, info = ref.es_strengths(times[i], times[j],
                                              _taumax(taumax), Fraction(lag))
                if info["status"] != "ok" or info["both_directions"]:
                    a = b = None
                elif info["n_coinc"]:
                    nt = True
                Dref[i][j], Dref[j][i] = a, b
        if nt:
            rec.nontrivial(True)
        mats = {}
        # the six symmetrisations are requested on ONE object in an order
        # that is a pure function of the case (all 720 orders occur): a
        # request must not disturb the ones that follow it
        import itertools
        from vp.pbt import case_hash
        k = int(case_hash(case)[:6], 16) % 720
        sym_order = list(next(itertools.islice(
            itertools.permutations(SYM_ES), k, None)))
        rec.label("first_sym=" + sym_order[0])
        for sym in sym_order:
            ok, M = rec.call("event_series_analysis_ES_%s_raises" % sym,
                             _quiet, es.event_series_analysis, method="ES",
                             symmetrization=sym)
            if not ok:
                continue
            mats[sym] = np.array(M, dtype=float)
            _cmp_matrix(rec, M, ref.symmetrise(Dlib, sym),
                        "matrix_es_%s_holds_pairwise_values" % sym, 1e-12,
                        nan_required=(sym == "directed"))
            _cmp_matrix(rec, M, ref.symmetrise(Dref, sym),
                        "matrix_es_%s_equals_formula" % sym, 1e-12, False)
        if "directed" in mats:
            off = mats["directed"][~np.eye(N, dtype=bool)]
            rec.check(_in_unit(off), "matrix_es_directed_range_0_1",
                      lambda: _fmt(off))
        # the climate-network class builds its similarity matrix from the
        # same analysis (event matrix handed over as ClimateData, unit time
        # steps): it must hold the formula values under its symmetrisation,
        # and link exactly the pairs with a positive value
        sym0 = sym_order[0]
        want = ref.symmetrise(Dref, sym0)
        if ts is None and N >= 2 and all(
                want[i][j] is not None for i in range(N) for j in range(N)
                if i != j):
            _climate_clause(rec, E, T, N, taumax, lag, sym0, want)
            # a second network built afterwards WITHOUT taumax / lag must
            # use the documented defaults (inf, 0), not the first one's
            Ddef = [[0.0] * N for _ in range(N)]
            for i in range(N):
                for j in range(i + 1, N):
                    a, b, info = ref.es_strengths(times[i], times[j],
                                                  _taumax(None), Fraction(0))
                    if info["status"] != "ok" or info["both_directions"]:
                        a = b = None
                    Ddef[i][j], Ddef[j][i] = a, b
            wdef = ref.symmetrise(Ddef, sym0)
            if all(wdef[i][j] is not None for i in range(N)
                   for j in range(N) if i != j):
                _climate_clause(rec, E, T, N, None, None, sym0, wdef)
    else:
        if any(not t for t in times):
            rec.label("series_without_events")
            ok, M = rec.call("eca_series_without_events", _quiet,
                             es.event_series_analysis, method="ECA",
                             symmetrization="directed",
                             window_type=case["window"])
            return
        mats = {}
        nt = False
        for win in WINDOWS:
            D = [[0.0] * N for _ in range(N)]
            for i in range(N):
                for j in range(i + 1, N):
                    c12, c21, pairs = ref.eca_window_rates(
                        times[i], times[j], Fraction(taumax), Fraction(lag),
                        win)
                    D[i][j] = ref.rate_value(c12)
                    D[j][i] = ref.rate_value(c21)
                    if pairs and len(times[i]) >= 3 and len(times[j]) >= 3 \
                            and D[i][j] is not None:
                        nt = True
            for sym in SYM_ECA:
                ok, M = rec.call(
                    "event_series_analysis_ECA_%s_%s_raises" % (win, sym),
                    _quiet, es.event_series_analysis, method="ECA",
                    symmetrization=sym, window_type=win)
                if not ok:
                    continue
                mats[(win, sym)] = np.array(M, dtype=float)
                # float32 quotients inside
                _cmp_matrix(rec, M, ref.symmetrise(D, sym),
                            "matrix_eca_%s_%s_equals_formula" % (win, sym),
                            1e-6, False)
            if (win, "directed") in mats:
                off = mats[(win, "directed")][~np.eye(N, dtype=bool)]
                rec.check(_in_unit(off), "matrix_eca_%s_range_0_1" % win,
                          lambda: _fmt(off))
        if nt:
            rec.nontrivial(True)
        # advanced / retarded are the precursor / trigger rates of the
        # four-rate pair function
        for win, (a, b) in (("advanced", (0, 2)), ("retarded", (1, 3))):
            if (win, "directed") not in mats:
                continue
            Dl = [[0.0] * N for _ in range(N)]
            for i in range(N):
                for j in range(i + 1, N):
                    ok, r = rec.call("event_coincidence_analysis_raises",
                                     lib_eca, cols[i], cols[j], tsl, tsl,
                                     taumax, lag)
                    if not ok:
                        return
                    Dl[i][j] = None if np.isnan(r[a]) else r[a]
                    Dl[j][i] = None if np.isnan(r[b]) else r[b]
            _cmp_matrix(rec, mats[(win, "directed")], Dl,
                        "matrix_eca_%s_holds_pairwise_values" % win, 1e-12,
                        True)

    if method == "ECA":
        # symmetrisations defined for ES strengths only ('symmetric' adds,
        # 'antisym' subtracts the two directions) are not rates: the call is
        # refused - or, wherever a matrix comes back, it holds rates
        for sym in ("symmetric", "antisym"):
            for win in ("symmetric", "advanced", "retarded"):
                try:
                    M_ = _quiet(es.event_series_analysis, method="ECA",
                                window_type=win, symmetrization=sym)
                except Exception:  # pylint: disable=broad-except
                    rec.label("eca_refuses_" + sym)
                    continue
                M_ = np.asarray(M_, dtype=float)
                off = M_[~np.eye(len(M_), dtype=bool)]
                off = off[~np.isnan(off)]
                rec.check(bool(((off >= -1e-12) & (off <= 1 + 1e-12)).all()),
                          "matrix_eca_accepts_%s_rates_outside_unit_interval"
                          % sym, "window %s: min %s max %s" % (
                              win, off.min() if off.size else None,
                              off.max() if off.size else None))
    # exchange of sequences = simultaneous permutation of rows and columns
    # (ES: only without lag, because the lag belongs to the later column)
    keys = list(mats)
    if keys and (method == "ECA" or lag == 0):
        Ep = [[row[p] for p in perm] for row in E]
        ok, esp = rec.call("construct_permuted", _lib_series, Ep, ts, taumax,
                           lag)
        if ok:
            for key in keys:
                if method == "ES":
                    kw = dict(method="ES", symmetrization=key)
                    name = "es_" + key
                else:
                    kw = dict(method="ECA", window_type=key[0],
                              symmetrization=key[1])
                    name = "eca_%s_%s" % key
                ok, Mp = rec.call("event_series_analysis_permuted_raises",
                                  _quiet, esp.event_series_analysis, **kw)
                if ok:
                    want = mats[key][np.ix_(perm, perm)]
                    rec.close(np.array(Mp, dtype=float), want,
                              "matrix_%s_column_exchange" % name, rtol=0,
                              atol=1e-12, detail="perm=%s" % (perm,))
    # common shift of the timestamps
    if keys and ts is not None:
        k = case["shift"]
        ok, ess = rec.call("construct_shifted", _lib_series, E,
                           [t + k for t in ts], taumax, lag)
        if ok:
            key = keys[case["shift"] % len(keys)]
            if method == "ES":
                kw = dict(method="ES", symmetrization=key)
            else:
                kw = dict(method="ECA", window_type=key[0],
                          symmetrization=key[1])
            ok, Ms = rec.call("event_series_analysis_shifted_raises", _quiet,
                              ess.event_series_analysis, **kw)
            if ok:
                rec.close(np.array(Ms, dtype=float), mats[key],
                          "matrix_%s_shift_invariance" % method.lower(),
                          rtol=0, atol=1e-12)


# -------------------------------------------------------------- thresholding

def _lib_threshold(data, dtype, methods, values, types, via):
    from pyunicorn.eventseries import EventSeries
    arr = np.array(data, dtype=dtype)
    kw = {}
    if values is not None:
        kw["threshold_values"] = values
    if types is not None:
        kw["threshold_types"] = types
    if via == "constructor":
        es = _quiet(EventSeries, arr, threshold_method=methods, **kw)
        return np.array(es.get_event_matrix())
    return np.array(_quiet(EventSeries.make_event_matrix, arr,
                           threshold_method=methods, **kw))


def _is_dyadic(fr, bits=12):
    d = fr.denominator
    return d & (d - 1) == 0 and d <= (1 << bits)


def oracle_threshold(case, rec):
    data = case["data"]                    # T rows, N values
    T, N = len(data), len(data[0])
    methods, values, types = case["methods"], case["values"], case["types"]
    via = case["via"]
    dtype = case["dtype"]
    rec.label("via_" + via)
    rec.label("dtype_" + dtype)
    rec.label("methods_" + ("per_variable" if isinstance(methods, list)
                            else methods))
    rec.label("values_" + ("default_median" if values is None else
                           "per_variable" if isinstance(values, list)
                           else "scalar"))
    rec.label("types_" + ("default" if types is None else
                          "per_variable" if isinstance(types, list)
                          else types))
    int_list = isinstance(values, list) and \
        all(isinstance(v, int) for v in values)
    if int_list:
        rec.label("values_integer_list")
    expect = []
    reject = None
    exact = True
    for i in range(N):
        col = [Fraction(row[i]) for row in data]
        m = methods[i] if isinstance(methods, list) else methods
        v = values[i] if isinstance(values, list) else values
        k = types[i] if isinstance(types, list) else types
        fv = None if v is None else Fraction(v)
        out = ref.threshold_events(col, m, fv, k)
        if out[0] == "reject":
            reject = out[1]
            rec.label("documented_rejection")
            break
        thr, kind, marks = out
        if m == "quantile" and fv is not None and not _is_dyadic(fv):
            exact = False
        expect.append((thr, kind, marks, col))
    allowed = (IOError, ValueError) if reject else ()
    clause = "make_event_matrix_raises"
    if int_list and not reject:
        # per-variable thresholds given as Python / numpy integers: the
        # docstring and the error text both promise "float/int"
        clause = "make_event_matrix_rejects_integer_threshold_list"
    ok, M = rec.call(clause, _lib_threshold, data, dtype, methods, values,
                     types, via, allowed=allowed)
    if not ok or reject:
        return
    if M.shape != (T, N):
        rec.fail("make_event_matrix_shape", "shape %s for data %s" % (
            M.shape, (T, N)))
        return
    rec.check(bool(np.all((M == 0) | (M == 1))),
              "make_event_matrix_binary", lambda: _fmt(np.unique(M)))
    seen = set()
    tie = False
    for i, (thr, kind, marks, col) in enumerate(expect):
        m = methods[i] if isinstance(methods, list) else methods
        bad = []
        scale = max([abs(v) for v in col] + [1])
        for t in range(T):
            if col[t] == thr:
                tie = True
            if not exact and col[t] != thr and \
                    abs(col[t] - thr) <= Fraction(1, 10 ** 12) * scale:
                rec.label("boundary_sample_either_answer")
                continue
            if not exact and col[t] == thr and m == "quantile":
                # threshold itself carries numpy's rounding of q*(n-1)
                rec.label("boundary_sample_either_answer")
                continue
            seen.add(marks[t])
            if int(M[t, i]) != marks[t]:
                bad.append((t, float(col[t]), int(M[t, i]), marks[t]))
        if bad:
            rec.fail("marks_%s_%s" % (m, kind),
                     "variable %d threshold %s (t,value,lib,expected): %s" % (
                         i, float(thr), bad[:4]))
    if tie or seen == {0, 1}:
        rec.nontrivial(True)
    if tie:
        rec.label("sample_equal_to_threshold")


# --------------------------------------------------------------- generators

# time origins: small, and epochs as they occur in practice (Julian days,
# Unix seconds, beyond 2^24 where single precision stops resolving steps)
SHIFTS = st.one_of(st.integers(-50, 50), st.integers(-50, 50),
                   st.sampled_from([2440000, 1700000000, -10000000,
                                    2 ** 24 + 1, 10 ** 12]))


@st.composite
def bit_series(draw, T):
    p = draw(st.sampled_from([1, 2, 2, 3, 3, 4, 5]))
    raw = draw(st.lists(st.integers(0, 9), min_size=T, max_size=T))
    x = [int(v > 9 - p) for v in raw]     # shrinks towards no events
    ends = draw(st.integers(0, 3))
    if ends == 0:
        x[0] = x[-1] = 1
    elif ends == 1:
        x[draw(st.sampled_from([0, T - 1]))] = 1
    return x


@st.composite
def pair_of_series(draw, T):
    x = draw(bit_series(T))
    if draw(st.booleans()):
        y = draw(bit_series(T))
    else:
        s = draw(st.integers(-2, 2))
        y = [x[t - s] if 0 <= t - s < T else 0 for t in range(T)]
        for pos in draw(st.lists(st.integers(0, T - 1), max_size=4)):
            y[pos] = 1 - y[pos]
    return x, y


@st.composite
def timestamps(draw, T, allow_none=True):
    kind = draw(st.sampled_from((["none"] if allow_none else []) +
                                ["int", "int", "dyadic"]))
    if kind == "none":
        return None
    den = 1 if kind == "int" else draw(st.sampled_from([2, 4, 8]))
    gaps = draw(st.lists(st.integers(1, 4 * den), min_size=T, max_size=T))
    t0 = draw(st.integers(-20, 20))
    out, cur = [], t0 * den
    for g in gaps:
        cur += g
        out.append(cur / den)
    return out


def quarter(lo, hi):
    return st.integers(lo, hi).map(lambda k: k / 4.0)


@st.composite
def es_pair_cases(draw):
    T = draw(st.integers(3, 40))
    x, y = draw(pair_of_series(T))
    ts = draw(timestamps(T))
    ts2 = None
    if ts is not None and draw(st.integers(0, 3)) == 0:
        ts2 = draw(timestamps(T, allow_none=False))
    taumax = draw(st.one_of(st.none(), st.none(), quarter(0, 12),
                            quarter(0, 60)))
    lag = draw(st.one_of(st.just(0.0), st.just(0.0), quarter(-12, 12)))
    return {"x": x, "y": y, "ts": ts, "ts2": ts2, "taumax": taumax,
            "lag": lag, "shift": draw(SHIFTS),
            "scale": draw(st.integers(-2, 3))}


@st.composite
def eca_pair_cases(draw):
    T = draw(st.integers(3, 40))
    x, y = draw(pair_of_series(T))
    ts = draw(timestamps(T))
    ts2 = None
    if ts is not None and draw(st.integers(0, 3)) == 0:
        ts2 = draw(timestamps(T, allow_none=False))
    taumax = draw(st.one_of(quarter(0, 8), quarter(0, 8), quarter(0, 16),
                            quarter(0, 60)))
    lag = draw(st.one_of(st.just(0.0), quarter(0, 12)))
    return {"x": x, "y": y, "ts": ts, "ts2": ts2, "taumax": taumax,
            "lag": lag, "shift": draw(SHIFTS),
            "scale": draw(st.integers(-2, 3))}


@st.composite
def matrix_cases(draw):
    T = draw(st.integers(3, 40))
    N = draw(st.integers(2, 5))
    method = draw(st.sampled_from(["ES", "ECA"]))
    cols = []
    x, y = draw(pair_of_series(T))
    cols += [x, y]
    while len(cols) < N:
        cols.append(draw(bit_series(T)))
    if method == "ECA" and draw(st.integers(0, 9)) != 0:
        # a series without events is a separate class (see oracle)
        for c in cols:
            if not any(c):
                c[draw(st.integers(0, T - 1))] = 1
    E = [[cols[i][t] for i in range(N)] for t in range(T)]
    ts = draw(timestamps(T))
    if method == "ES":
        taumax = draw(st.one_of(st.none(), quarter(0, 24)))
        lag = draw(st.one_of(st.just(0.0), st.just(0.0), quarter(-8, 8)))
    else:
        taumax = draw(quarter(0, 24))
        lag = draw(st.one_of(st.just(0.0), quarter(0, 8)))
    return {"E": E, "ts": ts, "taumax": taumax, "lag": lag, "method": method,
            "window": draw(st.sampled_from(WINDOWS)),
            "perm": list(draw(st.permutations(list(range(N))))),
            "shift": draw(SHIFTS)}


@st.composite
def threshold_cases(draw):
    T = draw(st.integers(2, 24))
    N = draw(st.integers(1, 4))
    grid = draw(st.sampled_from(["small_int", "int", "dyadic"]))
    if grid == "small_int":
        val = st.integers(0, 4)
    elif grid == "int":
        val = st.integers(-30, 30)
    else:
        val = st.integers(-64, 64).map(lambda k: k / 8.0)
    data = [draw(st.lists(val, min_size=N, max_size=N)) for _ in range(T)]
    dtype = "float64"
    if grid != "dyadic" and draw(st.integers(0, 3)) == 0:
        dtype = "int64"
    one_method = st.sampled_from(["quantile", "value"])
    methods = draw(st.one_of(
        one_method, st.lists(one_method, min_size=N, max_size=N)))

    def value_for(i):
        m = methods[i] if isinstance(methods, list) else methods
        col = sorted(row[i] for row in data)
        if m == "quantile":
            return draw(st.one_of(
                st.sampled_from([0.0, 0.25, 0.5, 0.75, 1.0, 0.125, 0.875]),
                st.integers(0, 20).map(lambda k: k / 20.0),
                st.integers(0, T).map(lambda k: k / max(1, T - 1)
                                      if k < T else 1.0)))
        # a sample value (tie), something between, rarely out of range
        c = draw(st.integers(0, 9))
        if c == 0:
            return float(col[-1] + 1) if draw(st.booleans()) \
                else float(col[0] - 1)
        v = float(draw(st.sampled_from(col)))
        if c < 4:
            v = (v + float(draw(st.sampled_from(col)))) / 2.0
        return v

    vkind = draw(st.sampled_from(["none", "none", "scalar", "scalar", "list",
                                  "list", "list", "list", "int_list"]))
    if vkind == "none":
        values = None
    elif vkind == "scalar":
        if isinstance(methods, list) and len(set(methods)) == 2:
            # one number for both methods: must be a legal quantile
            values = draw(st.sampled_from([0.0, 0.25, 0.5, 0.75, 1.0]))
        else:
            values = value_for(0)
            if (methods[0] if isinstance(methods, list) else methods) \
                    == "value":
                # in range of every variable or documented rejection
                pass
    elif vkind == "list":
        values = [value_for(i) for i in range(N)]
    else:
        values = []
        for i in range(N):
            m = methods[i] if isinstance(methods, list) else methods
            col = sorted(row[i] for row in data)
            if m == "quantile":
                values.append(draw(st.sampled_from([0, 1])))
            else:
                values.append(int(np.floor(draw(st.sampled_from(col)))))
    one_type = st.sampled_from(["above", "below"])
    types = draw(st.one_of(st.none(), one_type,
                           st.lists(one_type, min_size=N, max_size=N)))
    via = "static"
    if T >= N and draw(st.integers(0, 2)) == 0:
        via = "constructor"
    return {"data": data, "dtype": dtype, "methods": methods,
            "values": values, "types": types, "via": via}


SUBCHECKS = [
    SubCheck("es_pairs", oracle_es_pair, gen=es_pair_cases,
             quick=(4, 1200), thorough=(8, 12000)),
    SubCheck("eca_pairs", oracle_eca_pair, gen=eca_pair_cases,
             quick=(4, 1200), thorough=(8, 12000)),
    SubCheck("matrix", oracle_matrix, gen=matrix_cases,
             quick=(4, 200), thorough=(8, 2000)),
    SubCheck("thresholding", oracle_threshold, gen=threshold_cases,
             quick=(4, 400), thorough=(8, 5000)),
]
