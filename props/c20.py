"""C20 - compiled kernels never touch memory outside their arrays.

Crash oracle: every case is executed by ``vp.asan_worker`` running under
``LD_PRELOAD=libasan.so:libubsan.so`` against the *asan* flavour of the build
of /repo's working tree (gcc -O1 -g -fsanitize=address,undefined
-fno-sanitize-recover=undefined).  The framework's work unit itself is an
ordinary (plain flavour) process; it owns one persistent asan child, reads
the sanitizer report of a dying child from its stderr file, restarts it and
goes on.  Entry points that have crashed once in a shard are executed in a
forked grandchild afterwards (a crash then costs ~40 ms, not a re-import).

Verdicts per case
  * Python exception                       -> pass ("rejected")
  * sanitizer report with a pyunicorn frame -> VIOLATION, clause
    ``<entry>__<report kind>__<top pyunicorn frame function>``
  * sanitizer report without any pyunicorn frame (numpy / igraph / CPython
    only)                                  -> ignored, counted
  * the child dies without a report (SIGSEGV/SIGABRT...) -> VIOLATION
    ``<entry>__died_<signal>__no_report``; SIGKILL -> inconclusive
  * a Cython bounds-check IndexError raised *inside an _ext kernel* on a case
    the entry marks as well-formed (sizes inside the documented,
    non-degenerate domain, index arguments in range) -> VIOLATION
    ``<entry>__cython_bounds_guard_tripped__<kernel>``: the kernel's own
    index arithmetic left its array and only the build-time ``boundscheck``
    directive (setup.py) stopped the access; on degenerate sizes the same
    IndexError is the legitimate "rejected with a Python exception".
  * no answer within the per-case timeout   -> inconclusive (never a verdict)
"""
import atexit
import hashlib
import itertools
import json
import os
import re
import select
import signal
import subprocess
import tempfile
import time

from hypothesis import strategies as st

from vp import asan_worker as aw
from vp import build, pbt
from vp.pbt import SubCheck

PROPERTY = "C20"
RULE = ("case = (public entry point, sizes, variant, dtype, memory layout, "
        "value class, seeds); table of %d entry points reaching the _ext "
        "kernels of climate/core/timeseries/funcnet. grid: every size tuple "
        "in {0,1,2,3}^k per entry point x every variant of the entry point "
        "(metric, mode, estimator...), dtype/layout/value class cycled "
        "deterministically from VERIF_SEED (thorough: x all 5 value classes "
        "x all 4 dtypes); random: Hypothesis draws entry point, sizes 0..max "
        "(N and T independent, so N > T and N < T both occur), dtype in "
        "f8/f4/i8/b1, layout in contiguous / a[..., ::2] / a.T / a[::-1], "
        "value class in random/constant/tied/NaN/huge, seeds; long: every "
        "entry point with a time axis at 130 / 700-1100 (quadratic cost) or "
        "130 / 1030 / 3000 (thorough: up to 6000) samples, other sizes 1-3, "
        "and the entry points without a time axis at 40..300 nodes (densest "
        "graphs). "
        "Non-trivial = "
        "the call reached a compiled kernel AND (some size <= 1 OR more "
        "nodes than samples); distinct = hash of the whole case."
        % len(aw.ENTRIES))
ASSUMPTIONS = [
    "gcc ASan/UBSan see heap, stack and alloca red zones; an overrun that "
    "stays inside the allocation granule (<= 7 bytes past a block whose size "
    "is not a multiple of 8) or lands in another live block can escape",
    "float-cast-overflow and float-divide-by-zero are not part of "
    "-fsanitize=undefined in gcc and are not instrumented",
    "termination preconditions are established by the generator (eligible "
    "swap for the rewiring loops, knn < T - max_lag - 1 for the growing-cube "
    "search); a hang is reported as inconclusive, not as a violation",
    "sanitizer reports whose first stack trace holds no pyunicorn frame are "
    "ignored (numpy / igraph / CPython internals)",
    "Surrogates.test_* with differently shaped original / surrogate arrays "
    "and ResNetwork.vertex_current_flow_betweenness / the "
    "InteractingNetworks cross clustering and transitivity methods with a "
    "node index outside 0..N-1 are treated as inputs that must be rejected "
    "with a "
    "Python exception (separate entry points, separate signatures)",
]

CASE_TIMEOUT = {"quick": 25.0, "thorough": 60.0}


# ------------------------------------------------------------- asan child

class Child:
    """Persistent ``python -u -m vp.asan_worker`` under the sanitizer."""

    def __init__(self):
        bdir, self.tree = build.ensure("asan")
        env = dict(os.environ)
        env.update(build.asan_env())
        pp = [os.path.join(bdir, "src"), build.VERIF]
        deps = os.path.join(build.VERIF, ".deps")
        if os.path.isdir(deps):
            pp.append(deps)
        env["PYTHONPATH"] = ":".join(pp)
        for k in ("OMP_NUM_THREADS", "OPENBLAS_NUM_THREADS",
                  "MKL_NUM_THREADS"):
            env[k] = "1"
        env["PYTHONHASHSEED"] = "0"
        env["PYTHONDONTWRITEBYTECODE"] = "1"
        self.env = env
        self.dir = tempfile.mkdtemp(prefix="asan-", dir=os.getcwd())
        self.errpath = os.path.join(self.dir, "stderr.txt")
        self.proc = None
        self.seq = 0
        self.starts = 0
        self.kernel_names = []
        self.buf = b""

    def start(self):
        errfh = open(self.errpath, "ab")
        self.proc = subprocess.Popen(
            [build.PY, "-u", "-m", "vp.asan_worker"], stdin=subprocess.PIPE,
            stdout=subprocess.PIPE, stderr=errfh, env=self.env, cwd=self.dir,
            start_new_session=True, bufsize=0)
        errfh.close()
        self.buf = b""
        self.starts += 1
        line = self._readline(180.0)
        if not line:
            raise pbt.HarnessError(
                "asan worker did not start: rc=%s stderr=%s" % (
                    self.proc.poll(), self._stderr_from(0)[-1500:]))
        ready = json.loads(line)
        self.kernel_names = ready["kernel_names"]

    def _readline(self, timeout):
        """One line from the child's stdout; b'' on EOF, None on timeout."""
        fd = self.proc.stdout.fileno()
        end = time.time() + timeout
        while b"\n" not in self.buf:
            left = end - time.time()
            if left <= 0:
                return None
            r, _, _ = select.select([fd], [], [], min(left, 5.0))
            if not r:
                continue
            chunk = os.read(fd, 1 << 16)
            if not chunk:
                return b""
            self.buf += chunk
        line, self.buf = self.buf.split(b"\n", 1)
        return line

    def _stderr_from(self, offset):
        try:
            with open(self.errpath, "rb") as fh:
                fh.seek(offset)
                return fh.read().decode("utf8", "replace")
        except OSError:
            return ""

    def kill(self):
        if self.proc is not None:
            try:
                os.killpg(self.proc.pid, signal.SIGKILL)
            except (OSError, ProcessLookupError):
                pass
            try:
                self.proc.wait(timeout=10)
            except Exception:  # pylint: disable=broad-except
                pass
            for f in (self.proc.stdin, self.proc.stdout):
                try:
                    f.close()
                except Exception:  # pylint: disable=broad-except
                    pass
            self.proc = None

    def close(self):
        self.kill()
        import shutil
        shutil.rmtree(self.dir, ignore_errors=True)

    def request(self, case, fork, timeout):
        if self.proc is None or self.proc.poll() is not None:
            self.kill()
            self.start()
        self.seq += 1
        try:
            offset = os.path.getsize(self.errpath)
        except OSError:
            offset = 0
        msg = json.dumps({"id": self.seq, "fork": bool(fork),
                          "case": pbt.to_jsonable(case)}) + "\n"
        try:
            self.proc.stdin.write(msg.encode())
            self.proc.stdin.flush()
        except (BrokenPipeError, OSError):
            pass
        line = self._readline(timeout)
        if line is None:
            self.kill()
            return {"status": "timeout"}
        if line == b"":
            rc = self.proc.wait()
            text = self._stderr_from(offset)
            self.kill()
            return {"status": "crash", "rc": rc, "stderr": text}
        res = json.loads(line)
        if res.get("status") == "crash":
            res["stderr"] = self._stderr_from(offset)
        return res


_CHILD = None
STATS = {"timeouts": 0, "foreign_reports": [], "crashes": 0,
         "kernels": set(), "nonreproducible": 0}
FORK_ENTRIES = set()
TIER = ["quick"]


def child():
    global _CHILD
    if _CHILD is None:
        _CHILD = Child()
        atexit.register(_CHILD.close)
    return _CHILD


# ------------------------------------------------------- report parsing

_FRAME = re.compile(r"^\s*#(\d+) 0x[0-9a-f]+ (?:in (\S+) )?(.*)$")
_UBSAN = re.compile(r"^(\S+?):(\d+):(?:\d+:)? runtime error: (.*)$")


def _clean_fn(fn):
    m = re.search(r"_ext_8numerics_\d*(.+)$", fn)
    return m.group(1) if m else fn


def _slug(msg):
    words = []
    for w in msg.replace(":", " ").split():
        if any(ch.isdigit() for ch in w) or "'" in w or w.startswith("0x"):
            break
        words.append(w)
    return "-".join(words[:6]) or "undefined-behaviour"


def parse_report(text):
    """-> dict(kind, func, where, foreign, summary) or None if ``text`` holds
    no sanitizer report."""
    lines = text.splitlines()
    start = None
    kind = None
    where = None
    for i, ln in enumerate(lines):
        m = re.search(r"ERROR: AddressSanitizer: (\S+)", ln)
        if m:
            kind = m.group(1).rstrip(":")
            start = i
            break
        m = re.search(r"AddressSanitizer:? (failed to allocate|"
                      r"requested allocation size)", ln)
        if m and "ERROR" in ln:
            kind = "allocation-size"
            start = i
            break
        m = _UBSAN.match(ln.strip())
        if m:
            kind = "ubsan-" + _slug(m.group(3))
            where = "%s:%s" % (os.path.basename(m.group(1)), m.group(2))
            start = i
            if "pyunicorn" in m.group(1):
                where = "%s:%s" % (m.group(1)[m.group(1).find("pyunicorn"):],
                                   m.group(2))
            break
    if start is None:
        return None
    access = ""
    frames = []
    seen_frame = False
    for ln in lines[start + 1:start + 80]:
        m = re.match(r"^(READ|WRITE) of size", ln.strip())
        if m and not seen_frame:
            access = "-" + m.group(1).lower()
            continue
        m = re.search(r"caused by a (READ|WRITE) memory access", ln)
        if m and not seen_frame:
            access = "-" + m.group(1).lower()
            continue
        m = _FRAME.match(ln)
        if m:
            seen_frame = True
            frames.append((m.group(2) or "", m.group(3) or ""))
            continue
        if seen_frame:
            break               # end of the first stack trace
    if kind.startswith("ubsan-"):
        access = ""
    top = None
    for fn, loc in frames:
        if "pyunicorn" in loc or "pyunicorn" in fn:
            top = (fn, loc)
            break
    ubsan_in_lib = kind.startswith("ubsan-") and where and \
        "pyunicorn" in where
    summary = ""
    for ln in lines[start:]:
        if ln.startswith("SUMMARY:"):
            summary = ln.strip()
            break
    if top is None and not ubsan_in_lib:
        return {"kind": kind + access, "func": None, "where": where,
                "foreign": True, "summary": summary or lines[start][:200],
                "frames": ["%s %s" % f for f in frames[:6]]}
    fn, loc = top if top else (frames[0] if frames else ("unknown", where))
    loc = loc[loc.find("pyunicorn"):] if "pyunicorn" in loc else loc
    return {"kind": kind + access, "func": _clean_fn(fn) or "unknown",
            "where": where or loc, "foreign": False,
            "summary": summary or lines[start][:200],
            "frames": ["%s %s" % f for f in frames[:6]]}


# ----------------------------------------------------------------- oracle

def _classify_dims(case):
    e = aw.ENTRIES[case["entry"]]
    d = [int(v) for v in case["d"]]
    small = any(v <= 1 for v in d)
    n_gt_t = False
    if e["nt"] is not None:
        n_gt_t = d[e["nt"][0]] > d[e["nt"][1]]
    return d, small, n_gt_t


def execute(case):
    """Run one case in the asan child; returns the worker's answer with a
    parsed report attached for crashes."""
    c = child()
    entry = case["entry"]
    res = c.request(case, entry in FORK_ENTRIES, CASE_TIMEOUT[TIER[0]])
    if res["status"] == "crash":
        FORK_ENTRIES.add(entry)
        STATS["crashes"] += 1
        res["report"] = parse_report(res.get("stderr", ""))
    return res


def oracle(case, rec):
    if case["entry"] not in aw.ENTRIES:
        raise pbt.HarnessError("unknown entry point %r" % case["entry"])
    entry = case["entry"]
    d, small, n_gt_t = _classify_dims(case)
    rec.label("entry:" + entry)
    rec.label("vc:" + case["vc"])
    rec.label("dtype:" + case["dtype"])
    rec.label("layout:" + case["layout"])
    if any(v == 0 for v in d):
        rec.label("shape:some_dim_0")
    if any(v == 1 for v in d):
        rec.label("shape:some_dim_1")
    if n_gt_t:
        rec.label("shape:N>T")
    res = execute(case)
    st_ = res["status"]
    if st_ == "harness-error":
        raise pbt.HarnessError("asan worker: %s\n%s" % (
            res.get("error"), res.get("traceback", "")))
    if st_ == "timeout":
        STATS["timeouts"] += 1
        rec.label("outcome:timeout_inconclusive")
        rec.label("timeout:%s" % entry)
        return
    if st_ == "crash":
        rep = res.get("report")
        rc = res.get("rc")
        if rep is None:
            if rc in (-9, 137):
                STATS["timeouts"] += 1
                rec.label("outcome:killed_inconclusive")
                return
            rec.label("outcome:died_without_report")
            rec.fail("%s__died_rc%s__no_report" % (entry, rc),
                     "child died rc=%s without a sanitizer report; stderr "
                     "tail: %s" % (rc, res.get("stderr", "")[-300:]))
            return
        if rep["foreign"]:
            rec.label("outcome:foreign_report_ignored")
            if len(STATS["foreign_reports"]) < 5:
                STATS["foreign_reports"].append(
                    {"case": pbt.short(case), "summary": rep["summary"],
                     "frames": rep["frames"]})
            return
        rec.label("outcome:sanitizer_report")
        for k in re.findall(r"^@@kernel (\S+)$", res.get("stderr", ""),
                            re.M):
            rec.label("kernel:" + k)
            STATS["kernels"].add(k)
        # the faulting kernel was reached by definition
        rec.nontrivial(True if (small or n_gt_t) else None)
        reg = aw.ENTRIES[entry]["region"]
        tag = reg(case) if reg else None
        rec.fail("%s__%s__%s%s" % (entry, rep["kind"], rep["func"],
                                   "__" + tag if tag else ""),
                 "%s | at %s | frames: %s" % (
                     rep["summary"], rep["where"],
                     " <- ".join(rep["frames"][:3])))
        return
    # the entry point returned: Python-level outcomes only
    kernels = res.get("kernels", [])
    for k in kernels:
        rec.label("kernel:" + k)
        STATS["kernels"].add(k)
    steps = res.get("steps", [])
    excs = [s for s in steps if s.get("exc")]
    if excs:
        rec.label("outcome:rejected_with_python_exception")
        for t in sorted({s["exc"] for s in excs}):
            rec.label("exc:" + t)
    else:
        rec.label("outcome:ok")
    rec.label("kernel_reached" if kernels else "kernel_not_reached")
    if kernels and (small or n_gt_t):
        rec.nontrivial(True)
    for s in excs:
        if s.get("guard"):
            kern = str(s.get("kernel")).rsplit(".", 1)[-1]
            rec.label("guard_tripped:" + kern)
            if res.get("wellformed"):
                rec.fail("%s__cython_bounds_guard_tripped__%s" % (
                    entry, kern),
                    "step %s raised %s: %s on a well-formed case" % (
                        s["step"], s["exc"], s["msg"]))


# -------------------------------------------------------------- generation

def _off(seed):
    return int(hashlib.sha256(("C20:%d" % seed).encode()).hexdigest()[:8], 16)


def grid_cases(tier, seed):
    """Exhaustive {0,1,2,3}^k size grid per entry point x every variant;
    smallest sizes first."""
    off = _off(seed)
    pts = []
    for name in aw.ENTRY_NAMES:
        e = aw.ENTRIES[name]
        for d in itertools.product(range(4), repeat=len(e["dims"])):
            pts.append((sum(d), name, d))
    pts.sort()
    nv, nd, nl = len(aw.VCLASSES), len(aw.DTYPES), len(aw.LAYOUTS)
    for i, (_, name, d) in enumerate(pts):
        e = aw.ENTRIES[name]
        for p in range(e["variants"]):
            j = i * 31 + p * 7 + off
            if tier == "quick":
                combos = [(aw.VCLASSES[(j + c) % nv],
                           aw.DTYPES[(j // nv + 2 * c + c // 2) % nd])
                          for c in range(3)]
            else:
                combos = [(vc, dt) for vc in aw.VCLASSES for dt in aw.DTYPES]
            for c, (vc, dt) in enumerate(combos):
                jj = j + c * 13
                yield {"entry": name, "d": list(d), "p": p, "dtype": dt,
                       "layout": aw.LAYOUTS[(jj // (nv * nd)) % nl],
                       "vc": vc, "vs": (off + i * 131 + p * 17 + c) % 65536,
                       "s1": (off + 3 * i + p) % 100000,
                       "s2": (off + 5 * i + c) % 100000}


@st.composite
def random_cases(draw):
    name = draw(st.sampled_from(aw.ENTRY_NAMES))
    e = aw.ENTRIES[name]
    d = [draw(st.integers(0, hi)) for _, hi in e["dims"]]
    return {"entry": name, "d": d,
            "p": draw(st.integers(0, e["variants"] - 1)),
            "dtype": draw(st.sampled_from(aw.DTYPES)),
            "layout": draw(st.sampled_from(aw.LAYOUTS)),
            "vc": draw(st.sampled_from(aw.VCLASSES)),
            "vs": draw(st.integers(0, 65535)),
            "s1": draw(st.integers(0, 99999)),
            "s2": draw(st.integers(0, 99999))}


# smoke cases: one comfortable, fixture-like size per entry point and variant
# (6 nodes x 10 samples style); used to measure kernels_reached/kernels_total
def smoke_cases(seed):
    off = _off(seed)
    fixture = {"N": 6, "T": 10, "D": 2, "dim": 2, "tau": 1, "N1": 3, "N2": 3,
               "Tx": 9, "Ty": 7, "M": 6, "n_bins": 4, "tau_max": 1,
               "past": 1, "N2_": 6, "T2": 10}
    i = 0
    for name in aw.ENTRY_NAMES:
        e = aw.ENTRIES[name]
        d = [min(hi, fixture.get(dn, 4)) for dn, hi in e["dims"]]
        if name == "surr_test_shape_mismatch":
            d = [4, 9, 4, 9]
        if name == "geo_rewire_geomodel":
            d = [8]
        for p in range(e["variants"]):
            for vc in ("random", "nan"):
                i += 1
                yield {"entry": name, "d": list(d), "p": p, "dtype": "f8",
                       "layout": "c", "vc": vc, "vs": (off + i) % 65536,
                       "s1": (off + i) % 100000, "s2": (off + 2 * i) % 100000}


# ------------------------------------------------------------------ runners

def _finish(ctx):
    c = _CHILD
    names = c.kernel_names if c is not None else []
    reached = sorted(STATS["kernels"])
    ctx.inconclusive += STATS["timeouts"]
    ctx.extra["shard%d" % ctx.shard] = {
        "kernels_reached": len(reached), "kernels_total": len(names),
        "child_starts": c.starts if c else 0, "crashes": STATS["crashes"],
        "fork_mode_entries": sorted(FORK_ENTRIES),
        "foreign_reports_ignored": STATS["foreign_reports"]}
    if c is not None:
        c.close()


def _confirm_fresh(ctx):
    """Re-run the kept case of every new signature in a fresh child (the
    replay path) and note those that do not reproduce there."""
    for sig, m in sorted(ctx.mism.items()):
        if _CHILD is not None:
            _CHILD.kill()
        saved = set(FORK_ENTRIES)
        FORK_ENTRIES.clear()          # in-process, exactly as --replay does
        try:
            rec = pbt.evaluate(oracle, m["case"])
        finally:
            FORK_ENTRIES.update(saved)
        if not any(c == m["clause"] for c, _ in rec.fails):
            ctx.extra.setdefault("not_reproduced_in_fresh_child",
                                 []).append(sig)


def _begin(ctx):
    TIER[0] = ctx.tier
    # entry points named by a known finding crash by definition: run them in
    # forked grandchildren from the start (no 3 s re-import per shard)
    for k in ctx.known:
        for name in aw.ENTRY_NAMES:
            if name in k.get("signature", ""):
                FORK_ENTRIES.add(name)


def run_grid(ctx):
    _begin(ctx)
    pbt.run_enum(ctx, grid_cases(ctx.tier, ctx.seed), oracle, cap=ctx.n)
    _confirm_fresh(ctx)
    _finish(ctx)


# entry points whose cost grows faster than linearly with the series length
_QUADRATIC = ("rp_", "crp_", "surr_embed", "surr_twin", "visibility",
              "ca_mutual_information",
              "ca_information_transfer", "ca_get_nearest_neighbors")


def long_cases(tier, seed):
    """Long time axes (every other size small): work arrays sized from the
    series length - alloca / fixed scratch buffers / per-sample tables - only
    show beyond a few hundred or thousand samples."""
    off = _off(seed)
    for name in aw.ENTRY_NAMES:
        e = aw.ENTRIES[name]
        tdims = [k for k, (dn, _) in enumerate(e["dims"])
                 if dn in ("T", "Tx", "Ty")]
        if not tdims:
            continue
        if name.startswith(_QUADRATIC):
            lengths = (130, 700) if tier == "quick" else (130, 700, 1100)
        else:
            lengths = (130, 1030, 3000) if tier == "quick" else \
                (130, 1030, 2049, 3000, 4097, 6000)
        for T in lengths:
            for p in range(e["variants"]):
                d = []
                for k, (dn, hi) in enumerate(e["dims"]):
                    if k in tdims:
                        d.append(T)
                    elif dn in ("N", "N2", "D", "dim", "k", "M"):
                        d.append(min(hi, 2 + (p + T) % 2))
                    elif dn == "n_bins":
                        d.append(min(hi, 4))
                    else:
                        d.append(1)
                yield {"entry": name, "d": d, "p": p, "dtype": "f8",
                       "layout": "c", "vc": "random",
                       "vs": (off + T + 17 * p) % 65536,
                       "s1": (off + T) % 100000, "s2": (off + p) % 100000}


# entry points without a time axis: node counts well beyond the grid (stack
# scratch space that grows with links x nodes, per-node tables)
_BIG_NODES = {"res_current_flow_betweenness": (60, 110),
              "net_local_cliquishness": (60,),
              "net_nsi_betweenness": (60,),
              "net_newman_betweenness": (40,),
              "inter_cross_clustering": (40,),
              "geo_rewire_geomodel": (40,),
              "grid_distances": (300,)}


def big_cases(tier, seed):
    off = _off(seed)
    for name, sizes in sorted(_BIG_NODES.items()):
        e = aw.ENTRIES[name]
        for nn in sizes:
            for p in range(e["variants"]):
                d = [nn if dn in ("N", "N1", "N2") else min(hi, 3)
                     for dn, hi in e["dims"]]
                # vs = 3: the densest graphs of the entry points that draw one
                yield {"entry": name, "d": d, "p": p, "dtype": "f8",
                       "layout": "c", "vc": "random", "vs": 3,
                       "s1": (off + nn) % 100000, "s2": (off + p) % 100000}


def run_long(ctx):
    _begin(ctx)
    pbt.run_enum(ctx, itertools.chain(long_cases(ctx.tier, ctx.seed),
                                      big_cases(ctx.tier, ctx.seed)),
                 oracle, cap=ctx.n)
    _confirm_fresh(ctx)
    _finish(ctx)


def _fails_clause(case, clause):
    rec = pbt.evaluate(oracle, case)
    for c, d in rec.fails:
        if c == clause:
            return d
    return None


def shrink_case(case, clause, budget):
    """Greedy descent on the literal case (Hypothesis' byte-level shrinker
    needs far more evaluations than a crash every 0.5 s allows): neutral
    dtype / layout / value class / variant / seeds first, then every size
    towards 0."""
    best = dict(case, d=list(case["d"]))
    detail = None
    calls = 0

    def attempt(cand):
        nonlocal best, detail, calls
        if calls >= budget or cand == best:
            return False
        if aw.ENTRIES[cand["entry"]]["region"] is not None and \
                aw.ENTRIES[cand["entry"]]["region"](cand) != \
                aw.ENTRIES[best["entry"]]["region"](best):
            return False
        calls += 1
        d = _fails_clause(cand, clause)
        if d is not None:
            best, detail = cand, d
            return True
        return False

    for key, val in (("vc", "random"), ("dtype", "f8"), ("layout", "c"),
                     ("p", 0), ("vs", 0), ("s1", 0), ("s2", 0)):
        attempt(dict(best, **{key: val}))
    progress = True
    while progress and calls < budget:
        progress = False
        for i in range(len(best["d"])):
            for v in sorted({0, 1, 2, 3, best["d"][i] // 2,
                             best["d"][i] - 1}):
                if 0 <= v < best["d"][i]:
                    d2 = list(best["d"])
                    d2[i] = v
                    if attempt(dict(best, d=d2)):
                        progress = True
                        break
    return best, detail, calls


def run_random(ctx):
    import hypothesis
    from hypothesis import Phase, given
    _begin(ctx)

    @hypothesis.seed(ctx.unit_seed)
    @pbt._settings(ctx.n, [Phase.generate])  # pylint: disable=W0212
    @given(random_cases())
    def collect(case):
        ctx.absorb(case, pbt.evaluate(oracle, case))

    collect()
    budget = 60 if ctx.tier == "quick" else 300
    for sig, m in sorted(ctx.mism.items()):
        case, detail, calls = shrink_case(m["case"], m["clause"], budget)
        m["case"] = case
        m["detail"] = detail or m["detail"]
        ctx.extra.setdefault("shrink_calls", {})[sig] = calls
        m["replay"] = pbt.write_replay(ctx, sig, m["clause"], case,
                                       m["detail"])
    _confirm_fresh(ctx)
    _finish(ctx)


def run_coverage(ctx):
    """Fixture-sized call of every entry point / variant: which _ext
    functions does the table reach at all?  An unreached kernel is a gap of
    this harness (reported, not a verdict about the library)."""
    _begin(ctx)
    pbt.run_enum(ctx, smoke_cases(ctx.seed), oracle)
    c = child()
    if not c.kernel_names:
        c.start()
    names = list(c.kernel_names)
    reached = sorted(STATS["kernels"])
    ctx.extra["kernels_total"] = len(names)
    ctx.extra["kernels_reached"] = len(reached)
    ctx.extra["kernels_unreached"] = sorted(set(names) - set(reached))
    ctx.extra["kernels_expected_by_table_but_unreached"] = sorted(
        aw.expected_kernels() - set(reached))
    _finish(ctx)


SUBCHECKS = [
    SubCheck("coverage", oracle, run=run_coverage, quick=(1, None),
             thorough=(1, None), timeout=(900, 3600)),
    SubCheck("grid", oracle, run=run_grid, quick=(13, None),
             thorough=(15, None), timeout=(900, 14400)),
    SubCheck("long", oracle, run=run_long, quick=(8, None),
             thorough=(12, None), timeout=(1500, 14400)),
    SubCheck("random", oracle, run=run_random, quick=(2, 900),
             thorough=(12, 3500), timeout=(900, 14400)),
]
