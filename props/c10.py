"""C10 - similarity and coupling estimates equal reference statistics.

Every pairwise estimate of funcnet.CouplingAnalysis (cross correlation,
mutual information with the binning / gauss / knn estimators, bivariate
information transfer), of CouplingAnalysisPurePython, of the climate
similarity classes (Tsonis / Spearman / partial correlation / mutual
information) and of Surrogates.test_* is recomputed by vp/ref/stats.py
(textbook definitions in float64, scipy ranks, brute-force neighbour counts)
from the same time series and compared; metamorphic relations (symmetry,
bounds, affine invariance with power-of-two scalings, permutation
equivariance) and the compiled-vs-pure-Python differential complete it.

Tolerance ("single-precision accuracy" of the statement): the library stores
every one of these results as float32 and standardises in float32, so a value
v is compared with |lib - ref| <= TOL * max(1, |v|), TOL = 1e-5.  Calibration
on the unchanged tree (seeds 0,1,2,3,5,7,12345, quick tier sizes): the largest
deviation seen is 3.6e-7 (lagged cross correlation: float32 mean / std of
the windows), 2.7e-7 for the C histogram MI kernels (float32 accumulation of
<= 80 terms), 6e-8 elsewhere (float32 storage of the result).  1e-5 leaves a
factor ~30 of head room and is three decades below the smallest effect of a
mutant we could construct (a (n-1)/n normalisation at n = 80 is 1e-2).
Library-vs-library relations whose two sides perform the same arithmetic
(permutation, zero-lag symmetry, power-of-two scalings of order statistics
and neighbour counts) use 1e-6.

Genuine defects found and staged as known findings (known_findings.d/C10.json):
KF-C10-1 binning MI normalised by T instead of T - tau_max; KF-C10-2
information_transfer(lag_mode='all') IndexError; KF-C10-3 Spearman ranks
without tie averaging; KF-C10-4 int8 lag matrix for tau_max >= 128.  Each has
a clause name of its own; everything else about the same calls is still
checked (e.g. binning values after removing the known factor).
"""
import math

import numpy as np
from hypothesis import strategies as st

from vp import pbt
from vp.pbt import SubCheck, represent
from vp.ref import stats as R

PROPERTY = "C10"
RULE = ("cases = (T x N data array, tau_max, estimator parameters, lag mode, "
        "condition mode, seeds, transformation); arrays are float32-exact "
        "(small integers with many ties, dyadics, 2^-8 grids, integer random "
        "walks) with constant, duplicated, negated, affinely mapped, lagged "
        "and noisy-copy columns inserted by construction, T 3..80, N 2..6 "
        "(also N > T). Non-trivial = at least two columns that are "
        "non-constant and not identical to each other, and tau_max > 0 in "
        "the cross-correlation, transfer and relation sub-checks; distinct "
        "= hash of the whole case.")
ASSUMPTIONS = [
    "vp/ref/stats.py is the trusted statement of each statistic",
    "single precision = 1e-5 * max(1,|v|) (float32 storage and float32 "
    "standardisation in the library)",
    "where the statistic is undefined (constant window) the library's "
    "documented conventions are accepted: 0 after 'correct for zero "
    "variance', NaN from corrcoef, ValueError('nans after standardizing') "
    "from the gauss / knn estimators",
    "diagonal entries follow the library's documented conventions (1/lag 0 "
    "for cross correlation 'max', 0 for information transfer, untouched 0 "
    "in the C histogram kernels) and are not compared with a statistic",
    "mutual information 'max' mode: the library takes the largest positive "
    "value (0 / lag 0 if no estimate is positive); accepted as the meaning "
    "of 'absolute maximum' for a non-negative quantity",
    "partial correlations are compared where the conditioning set is well "
    "conditioned (cond < 1e6) and leaves variance (> 1e-8), perfectly "
    "collinear pairs (|rho| > 1-1e-9) only for 'very large / inf / nan'",
    "equal-width histogram MI is compared when no sample lies within 1e-4 "
    "bin widths (float32 kernel) / 1e-9 (float64 kernel) of a bin boundary",
    "kNN estimator: generator keeps knn < T - max_lag - 1 (growing-cube "
    "search does not terminate otherwise) and knn <= T/2 (asserted by the "
    "library); the reference consumes the same numpy.random stream for the "
    "tie-breaking noise as the library (one rand(dim, T') per (i, j, tau) "
    "in loop order)",
]

TOL = 1e-5          # single precision, see module docstring
HUGE_MI = 8.0       # gauss MI of |rho| >= 1 - 5.6e-8: 'perfectly collinear'


# ===================================================================== data

def arr(case):
    return np.array(case["x"], dtype=np.float64)


def nontrivial_data(X):
    cols = [X[:, k] for k in range(X.shape[1])]
    good = [c for c in cols if not R.is_constant(c)]
    for a in range(len(good)):
        for b in range(a + 1, len(good)):
            if not np.array_equal(good[a], good[b]):
                return True
    return False


def label_data(X, rec):
    T, N = X.shape
    rec.label("T<=8" if T <= 8 else "T<=30" if T <= 30 else "T>30")
    if N > T:
        rec.label("N>T")
    if any(R.is_constant(X[:, k]) for k in range(N)):
        rec.label("has_constant_series")
    dup = neg = False
    for a in range(N):
        for b in range(a + 1, N):
            if R.is_constant(X[:, a]):
                continue
            if np.array_equal(X[:, a], X[:, b]):
                dup = True
            if np.array_equal(X[:, a], -X[:, b]):
                neg = True
    if dup:
        rec.label("has_duplicated_series")
    if neg:
        rec.label("has_negated_series")
    if R.has_ties(X):
        rec.label("has_ties")


@st.composite
def data_arrays(draw, t_min=3, t_max=80, n_min=2, n_max=6,
                kinds=("small", "dyadic", "fine", "walk"), structure=True,
                degenerate=True, affine=True):
    """T x N list of float32-exact floats."""
    N = draw(st.integers(n_min, n_max))
    T = draw(st.one_of(st.integers(t_min, min(t_max, max(t_min, 12))),
                       st.integers(t_min, min(t_max, max(t_min, 40))),
                       st.integers(t_min, t_max)))
    kind = draw(st.sampled_from(kinds))
    lo, hi, scale = {"small": (-3, 3, 1.0), "dyadic": (-40, 40, 0.25),
                     "fine": (-(1 << 17), 1 << 17, 1.0 / 256),
                     "walk": (-8, 8, 0.5)}[kind]
    flat = draw(st.lists(st.integers(lo, hi), min_size=T * N, max_size=T * N))
    B = np.array(flat, dtype=np.float64).reshape(T, N) * scale
    if kind == "walk":
        B = np.cumsum(B, axis=0)
    X = B.copy()
    if structure:
        ops = ["none"] * 6 + ["lagged", "mix"]
        if affine:
            ops += ["affine"]
        if degenerate:
            ops += ["const", "dup", "neg"]
        for k in range(1, N):
            op = draw(st.sampled_from(ops))
            if op == "none":
                continue
            src = draw(st.integers(0, k - 1))
            if op == "const":
                X[:, k] = X[0, k]
            elif op == "dup":
                X[:, k] = X[:, src]
            elif op == "neg":
                X[:, k] = -X[:, src]
            elif op == "affine":
                a = draw(st.sampled_from([-4.0, -0.5, 0.5, 2.0]))
                X[:, k] = a * X[:, src] + draw(st.integers(-5, 5))
            elif op == "lagged":
                s = draw(st.integers(0, min(6, T - 1)))
                X[s:, k] = X[:T - s, src] + B[s:, k] / 4.0
            elif op == "mix":
                X[:, k] = X[:, src] + B[:, k] / 2.0
    return [[float(v) for v in row] for row in X]


# ================================================================ utilities

def close_masked(rec, lib, ref, clause, mask=None, tol=TOL, detail=""):
    """Compare where ``mask`` (default: ref is not NaN)."""
    lib = np.asarray(lib, dtype=np.float64)
    ref = np.asarray(ref, dtype=np.float64)
    if lib.shape != ref.shape:
        rec.fail(clause, "shape %s vs %s" % (lib.shape, ref.shape))
        return False
    if mask is None:
        mask = ~np.isnan(ref)
    if not mask.any():
        return True
    return rec.close(lib[mask], ref[mask], clause, rtol=tol, detail=detail)


def first_strict_max(values):
    """Library convention of the MI / transfer 'max' mode: scan tau upwards,
    keep a value only if it is strictly larger than the running maximum,
    which starts at 0."""
    best, lag = 0.0, 0
    for t, v in enumerate(values):
        if v > best:
            best, lag = v, t
    return best, lag


def check_max_summary(rec, S, L, lagf, clause, pairs, tol=TOL, skip=None):
    """'max' mode equals the value / lag summary of the reference lag
    functions ``lagf`` (N, N, taus) under the first-strict-max convention;
    lags are accepted if their reference value is within tol of the max."""
    bad_v = bad_l = None
    for (i, j) in pairs:
        if skip is not None and skip[i, j]:
            continue
        f = lagf[i, j]
        if np.any(np.isnan(f)) or np.any(np.isinf(f)):
            continue
        best, _ = first_strict_max(f)
        t = tol * max(1.0, abs(best))
        if abs(float(S[i, j]) - best) > t and bad_v is None:
            bad_v = "(%d,%d) lib=%r ref=%r" % (i, j, float(S[i, j]), best)
        lag = int(L[i, j])
        okl = 0 <= lag < len(f) and (
            f[lag] >= best - 2 * t or (best <= 2 * t and lag == 0))
        if not okl and bad_l is None:
            bad_l = "(%d,%d) lib lag=%d ref lagfunc=%s" % (
                i, j, lag, np.array2string(f, precision=6))
    rec.check(bad_v is None, clause + "_value", bad_v)
    rec.check(bad_l is None, clause + "_lag", bad_l)


def check_max_of_all(rec, S, L, allv, clause, pairs):
    """library 'max' mode == first-strict-max of the library's own 'all'
    mode (both float32)."""
    bad = None
    for (i, j) in pairs:
        f = np.asarray(allv[i, j], dtype=np.float64)
        s = float(S[i, j])
        lag = int(L[i, j])
        if not 0 <= lag < len(f):
            bad = bad or "(%d,%d) lag %d out of range" % (i, j, lag)
            continue
        g = np.where(np.isnan(f), -np.inf, f)
        best = max(0.0, float(g.max()))
        if math.isnan(s) or math.isnan(f[lag]):
            continue
        if best == 0.0:
            good = s == 0.0 and lag == 0
        elif math.isinf(best):
            good = math.isinf(s) and math.isinf(f[lag])
        else:
            t = 1e-6 * max(1.0, best)
            good = abs(s - best) <= t and abs(f[lag] - best) <= t
        if not good and bad is None:
            bad = "(%d,%d) max=(%r,%d) all=%s" % (
                i, j, s, lag, np.array2string(f, precision=7))
    rec.check(bad is None, clause, bad)


def offdiag(N):
    return [(i, j) for i in range(N) for j in range(N) if i != j]


def allpairs(N):
    return [(i, j) for i in range(N) for j in range(N)]


def window_constant(X, lags, L):
    """Is any window X[L-lag : T-lag, k] constant (k any column)?"""
    T, N = X.shape
    for k in range(N):
        for lag in lags:
            if R.is_constant(X[L - lag:T - lag, k]):
                return True
    return False


def CA(X):
    """The data as [time, index] or with several spatial dimensions
    ("multidimensional numpy array ... with time in first dimension"):
    [time, a, b] with a * b = N, [time, 1, N] or [time, N, 1] - chosen from
    the values, always the same N variables in the same order."""
    import zlib
    from pyunicorn.funcnet import CouplingAnalysis
    X = np.array(X, dtype=np.float64)
    if X.ndim == 2 and X.size:
        T, N = X.shape
        k = zlib.crc32(X.tobytes()) % 4
        if k == 1:
            div = [a for a in range(2, N) if N % a == 0]
            if div:
                a = div[zlib.crc32(X.tobytes()) // 4 % len(div)]
                X = X.reshape(T, a, N // a)
        elif k == 2:
            X = X.reshape(T, 1, N)
        elif k == 3:
            X = X.reshape(T, N, 1)
    return CouplingAnalysis(represent(X), silence_level=3)


# ========================================================= cross correlation

def oracle_cc(case, rec):
    X = arr(case)
    T, N = X.shape
    tm = int(case["tau_max"])
    label_data(X, rec)
    rec.label("tau_max=0" if tm == 0 else "tau_max>0")
    if nontrivial_data(X) and tm > 0:
        rec.nontrivial(True)
    ref = R.cross_correlation_all(X, tm)
    undefined = np.isnan(ref)
    if undefined.any():
        rec.label("has_undefined_window")
    # documented convention: zero-variance windows are set to 0 -> rho = 0
    ref0 = np.where(undefined, 0.0, ref)
    ca = CA(X)
    sfx = "_tau0" if tm == 0 else "_lagged"
    ok, allv = rec.call("cc_all_call", ca.cross_correlation, tau_max=tm,
                        lag_mode="all")
    if ok:
        allv = np.asarray(allv)
        if close_masked(rec, allv, ref0, "cc_all_value" + sfx,
                        mask=np.ones(ref0.shape, bool)):
            pass
        rec.check(np.all(np.abs(allv) <= 1 + TOL), "cc_all_bounded",
                  "max |rho| = %r" % float(np.abs(allv).max()))
        rec.close(allv[:, :, 0], allv[:, :, 0].T, "cc_zero_lag_symmetric",
                  rtol=1e-6)
        d = np.array([allv[k, k, 0] for k in range(N)])
        dref = np.array([ref0[k, k, 0] for k in range(N)])
        rec.close(d, dref, "cc_all_diagonal_one", rtol=TOL)
    # (a ValueError for lags that do not fit the int8 lag matrix would be a
    # fair, explicit rejection)
    ok2, res = rec.call("cc_max_call", ca.cross_correlation, tau_max=tm,
                        lag_mode="max",
                        allowed=(ValueError,) if tm > 127 else ())
    if not ok2:
        return
    S, L = np.asarray(res[0]), np.asarray(res[1])
    rec.check(S.shape == (N, N) and L.shape == (N, N), "cc_max_shape")
    # the lag matrix is int8: a lag >= 128 comes back wrapped.  That is one
    # narrow signature of its own; the remaining clauses go on with the
    # unwrapped lag so that they still see everything else.
    Lw = L.astype(np.int64)
    wrapped = (Lw < 0) & (Lw + 256 <= tm)
    if wrapped.any():
        w = np.argwhere(wrapped)[0]
        rec.fail("cc_max_lag_int8_wraparound",
                 "tau_max=%d: lag (%d,%d) returned as %d, i.e. %d modulo 256"
                 % (tm, w[0], w[1], Lw[w[0], w[1]], Lw[w[0], w[1]] + 256))
        Lw = np.where(wrapped, Lw + 256, Lw)
    bad_v = bad_l = None
    for (i, j) in offdiag(N):
        lags, m = R.absmax_lags(ref0[i, j], 2 * TOL)
        lag = int(Lw[i, j])
        if lag not in lags and bad_l is None:
            bad_l = "(%d,%d) lib lag=%d acceptable=%s ref=%s" % (
                i, j, lag, sorted(lags)[:20],
                np.array2string(ref0[i, j], precision=6)[:300])
        if 0 <= lag <= tm:
            if abs(float(S[i, j]) - ref0[i, j, lag]) > TOL and bad_v is None:
                bad_v = "(%d,%d) lib=%r ref at lag %d=%r" % (
                    i, j, float(S[i, j]), lag, ref0[i, j, lag])
    rec.check(bad_v is None, "cc_max_value" + sfx, bad_v)
    rec.check(bad_l is None, "cc_max_lag" + sfx, bad_l)
    rec.check(all(S[k, k] == 1 and L[k, k] == 0 for k in range(N)),
              "cc_max_diagonal_convention",
              "diag S=%s L=%s" % (np.diag(S), np.diag(L)))
    if ok:
        # max mode == value / lag at the absolute maximum of the all mode
        bad = None
        for (i, j) in offdiag(N):
            lag = int(Lw[i, j])
            if not 0 <= lag <= tm:
                bad = bad or "(%d,%d) lag %d outside 0..%d" % (i, j, lag, tm)
                continue
            f = allv[i, j].astype(np.float64)
            if abs(float(S[i, j]) - f[lag]) > 1e-6 or \
                    abs(f[lag]) < np.abs(f).max() - 1e-6:
                bad = bad or "(%d,%d) max=(%r,%d) all=%s" % (
                    i, j, float(S[i, j]), lag,
                    np.array2string(f, precision=7)[:300])
        rec.check(bad is None, "cc_max_equals_absmax_of_all" + sfx, bad)


@st.composite
def cc_cases(draw):
    x = draw(data_arrays())
    T = len(x)
    tm = draw(st.one_of(tau_for_s(T), st.integers(0, T - 1)))
    return {"x": x, "tau_max": tm}


def tau_for_s(T, cap=6, keep=2):
    return st.integers(0, max(0, min(cap, T - keep)))


# --------------------------------------------------------- int8 lag edge

@st.composite
def lag_edge_cases(draw):
    """tau_max >= 128 with the coupling placed at a lag >= 128."""
    N = 2
    T = draw(st.integers(150, 170))
    tm = draw(st.integers(128, 135))
    s = draw(st.integers(126, tm))
    flat = draw(st.lists(st.integers(-40, 40), min_size=T * N,
                         max_size=T * N))
    B = np.array(flat, dtype=np.float64).reshape(T, N) * 0.25
    X = B.copy()
    X[s:, 1] = X[:T - s, 0] + B[s:, 1] / 8.0
    return {"x": [[float(v) for v in row] for row in X], "tau_max": tm}


def oracle_lag_edge(case, rec):
    """tau_max >= 128: lags no longer fit the library's int8 lag matrix."""
    oracle_cc(case, rec)
    X = arr(case)
    N = X.shape[1]
    tm = int(case["tau_max"])
    ref, rho = mi_reference(X, tm, "gauss", 0)
    try:
        S, L = CA(X).mutual_information(tau_max=tm, estimator="gauss",
                                        lag_mode="max")
    except OverflowError as e:
        rec.fail("mi_max_lag_int8_overflow", "tau_max=%d raised "
                 "OverflowError: %s" % (tm, str(e)[:100]))
        return
    except ValueError:
        return                                  # constant window
    except Exception as e:  # pylint: disable=broad-except
        rec.fail("mi_gauss_max_call", "raised %s: %s" % (
            type(e).__name__, str(e)[:200]))
        return
    deg = (np.abs(rho) > 1 - 1e-9).any(axis=2) | np.isnan(rho).any(axis=2)
    check_max_summary(rec, np.asarray(S), np.asarray(L), ref,
                      "mi_gauss_max_lagged", offdiag(N), skip=deg)


# ======================================================== mutual information

def mi_reference(X, tm, estimator, bins):
    """(N, N, tm+1) reference lag functions and the matrix of reference
    correlations (gauss)."""
    T, N = X.shape
    out = np.full((N, N, tm + 1), R.NAN)
    rho = np.full((N, N, tm + 1), R.NAN)
    sym = {}
    for i in range(N):
        for j in range(N):
            for tau in range(tm + 1):
                x, y = R.lag_windows(X, i, j, tau, tm)
                if estimator == "binning":
                    kx, ky = (i, tau), (j, 0)
                    if kx not in sym:
                        sym[kx] = R.quantile_symbols(x, bins)[0]
                    if ky not in sym:
                        sym[ky] = R.quantile_symbols(y, bins)[0]
                    out[i, j, tau] = R.plugin_mi(sym[kx], sym[ky])
                else:
                    r = R.pearson(x, y)
                    rho[i, j, tau] = r
                    out[i, j, tau] = R.gauss_mi(r)
    return out, rho


def compare_gauss(rec, lib, ref, rho, clause, pairs_mask=None):
    """Gaussian MI / CMI values: relative single precision on regular
    entries; perfectly collinear entries only need to be huge/inf/nan."""
    lib = np.asarray(lib, dtype=np.float64)
    degenerate = np.abs(rho) > 1 - 1e-9
    regular = ~np.isnan(rho) & ~degenerate
    if pairs_mask is not None:
        regular &= pairs_mask
        degenerate &= pairs_mask
    close_masked(rec, lib, ref, clause, mask=regular)
    if degenerate.any():
        v = lib[degenerate]
        rec.check(np.all(np.isnan(v) | (v > HUGE_MI)),
                  clause + "_collinear_is_huge", "values %s" % v[:6])
    return regular, degenerate


def oracle_mi(case, rec):
    X = arr(case)
    T, N = X.shape
    tm = int(case["tau_max"])
    est = case["estimator"]
    bins = int(case.get("bins", 6))
    label_data(X, rec)
    rec.label(est)
    rec.label("tau_max=0" if tm == 0 else "tau_max>0")
    if nontrivial_data(X) and (tm > 0 or case.get("nt_tau0")):
        rec.nontrivial(True)
    ref, rho = mi_reference(X, tm, est, bins)
    ca = CA(X)
    allowed = ()
    if est == "gauss" and window_constant(X, range(tm + 1), tm):
        rec.label("gauss_constant_window")
        allowed = (ValueError,)
    sfx = "_tau0" if tm == 0 else "_lagged"
    kw = dict(tau_max=tm, estimator=est, bins=bins)
    ok, allv = rec.call("mi_%s_all_call" % est, ca.mutual_information,
                        lag_mode="all", allowed=allowed, **kw)
    ok2, res = rec.call("mi_%s_max_call" % est, ca.mutual_information,
                        lag_mode="max", allowed=allowed, **kw)
    if ok:
        allv = np.asarray(allv)
    if ok2:
        S, L = np.asarray(res[0]), np.asarray(res[1])
    full = np.ones((N, N, tm + 1), bool)
    if est == "binning":
        fac = T / float(T - tm)     # see KF: entropies normalised by T
        if ok:
            raw = pbt.allclose(allv, ref, rtol=TOL)
            if not raw:
                w = np.unravel_index(np.argmax(np.abs(allv - ref)),
                                     ref.shape)
                rec.fail("mi_binning_all_value" + sfx,
                         "T=%d tau_max=%d bins=%d entry %s: lib=%r ref=%r "
                         "ratio=%s (T-tau_max)/T=%r" % (
                             T, tm, bins, tuple(int(v) for v in w),
                             float(allv[w]), float(ref[w]),
                             float(allv[w]) / float(ref[w]) if ref[w]
                             else None, (T - tm) / float(T)))
                close_masked(rec, allv.astype(float) * fac, ref,
                             "mi_binning_all_value_rescaled" + sfx, mask=full)
            b_eff = max(R.quantile_symbols(X[tm:, 0], bins)[1], 1)
            rec.check(np.all(allv >= -1e-6) and
                      np.all(allv <= math.log(max(b_eff, 2)) + TOL),
                      "mi_binning_bounds", "min=%r max=%r log(bins)=%r" % (
                          float(allv.min()), float(allv.max()),
                          math.log(max(b_eff, 2))))
            rec.close(allv[:, :, 0], allv[:, :, 0].T,
                      "mi_binning_zero_lag_symmetric", rtol=1e-6)
        if ok2:
            # value: raw or (known) rescaled; lag: unaffected by the factor
            best = np.array([[first_strict_max(ref[i, j])[0]
                              for j in range(N)] for i in range(N)])
            if not pbt.allclose(S, best, rtol=TOL):
                rec.fail("mi_binning_max_value" + sfx, "lib=%s ref=%s" % (
                    S.ravel()[:6], best.ravel()[:6]))
                rec.close(S.astype(float) * fac, best,
                          "mi_binning_max_value_rescaled" + sfx, rtol=TOL)
            check_max_summary(rec, best, L, ref, "mi_binning_max" + sfx,
                              allpairs(N))
    else:
        if ok:
            compare_gauss(rec, allv, ref, rho, "mi_gauss_all_value" + sfx)
            fin = np.isfinite(allv)
            rec.check(np.all(allv[fin] >= 0), "mi_gauss_nonnegative")
            a0 = allv[:, :, 0].astype(float)
            m = np.isfinite(a0) & np.isfinite(a0.T)
            if m.any():
                rec.close(a0[m], a0.T[m], "mi_gauss_zero_lag_symmetric",
                          rtol=1e-6)
        if ok2:
            deg = (np.abs(rho) > 1 - 1e-9).any(axis=2) | \
                np.isnan(rho).any(axis=2)
            check_max_summary(rec, S, L, ref, "mi_gauss_max" + sfx,
                              allpairs(N), skip=deg)
    if ok and ok2:
        check_max_of_all(rec, S, L, allv,
                         "mi_%s_max_equals_max_of_all" % est, allpairs(N))


@st.composite
def mi_cases(draw):
    x = draw(data_arrays(t_max=60))
    T = len(x)
    est = draw(st.sampled_from(["binning", "binning", "gauss"]))
    tm = draw(tau_for_s(T, cap=5, keep=3))
    return {"x": x, "tau_max": tm, "estimator": est,
            "bins": draw(st.one_of(st.integers(2, 8), st.integers(2, 8),
                                   st.sampled_from([16, 17, 20]))),
            "nt_tau0": True}


# ================================================================= kNN

def knn_reference(X, what, tm, past, k, seed):
    """Lag functions of the kNN estimator; raises ValueError where the
    library documents one (NaNs after standardising a constant window)."""
    N = X.shape[1]
    out = np.zeros((N, N, tm + 1))
    pbt.seed_library_rngs(seed, seed)
    for i in range(N):
        for j in range(N):
            for tau in range(tm + 1):
                if what == "mi":
                    x, y = R.lag_windows(X, i, j, tau, tm)
                    rows = np.array([x, y])
                else:
                    rows = R.transfer_rows(X, i, j, tau, tm, past, what)
                with np.errstate(all="ignore"):
                    a = R.standardize_rows_f32(rows)
                if np.isnan(a).any():
                    raise ValueError("constant window")
                a += 1e-10 * np.random.rand(*a.shape)
                kxz, kyz, kz = R.knn_counts(a, 1, 1, k)
                out[i, j, tau] = R.fp_cmi(k, kxz, kyz, kz)
    return out


def oracle_knn(case, rec):
    X = arr(case)
    T, N = X.shape
    tm = int(case["tau_max"])
    k = int(case["knn"])
    what = case["what"]
    past = int(case.get("past", 1))
    seed = int(case["seed"])
    L = tm + (past if what != "mi" else 0)
    if not (1 <= k <= T / 2.0 and k < T - L - 1):
        raise pbt.HarnessError("generator broke the kNN precondition")
    label_data(X, rec)
    rec.label("knn_" + what)
    rec.label("tau_max=0" if tm == 0 else "tau_max>0")
    if nontrivial_data(X):
        rec.nontrivial(True)
    try:
        ref = knn_reference(X, what, tm, past, k, seed)
        allowed = ()
    except ValueError:
        ref = None
        allowed = (ValueError,)
        rec.label("knn_constant_window")
    ca = CA(X)
    if what == "mi":
        fn = ca.mutual_information
        kw = dict(tau_max=tm, estimator="knn", knn=k)
    else:
        fn = ca.information_transfer
        kw = dict(tau_max=tm, estimator="knn", knn=k, past=past,
                  cond_mode=what)
    pbt.seed_library_rngs(seed, seed)
    ok2, res = rec.call("knn_%s_max_call" % what, fn, lag_mode="max",
                        allowed=allowed, **kw)
    allv = None
    if what == "mi":
        pbt.seed_library_rngs(seed, seed)
        ok, allv = rec.call("knn_mi_all_call", fn, lag_mode="all",
                            allowed=allowed, **kw)
        if not ok:
            allv = None
    if ref is None:
        return
    if np.isnan(ref).any() or np.isinf(ref).any():
        rec.label("knn_zero_count")
    if allv is not None:
        rec.close(np.asarray(allv), ref, "knn_mi_all_value", rtol=TOL)
    if ok2:
        S, Lg = np.asarray(res[0]), np.asarray(res[1])
        pairs = allpairs(N) if what == "mi" else offdiag(N)
        check_max_summary(rec, S, Lg, ref, "knn_%s_max" % what, pairs,
                          tol=TOL)
        if what != "mi":
            rec.check(np.all(np.diag(S) == 0),
                      "knn_transfer_diagonal_zero_convention")


@st.composite
def knn_cases(draw):
    what = draw(st.sampled_from(["mi", "mi", "ity", "mit"]))
    x = draw(data_arrays(t_min=8, t_max=36, n_min=2, n_max=3,
                         kinds=("fine", "fine", "walk", "dyadic", "small")))
    T = len(x)
    past = draw(st.integers(1, 2)) if what != "mi" else 0
    tm = draw(st.integers(0, min(3, T - past - 5)))
    L = tm + past
    kmax = min(T // 2, T - L - 2)
    k = draw(st.integers(1, max(1, min(kmax, 8))))
    return {"x": x, "tau_max": tm, "knn": k, "what": what, "past": past,
            "seed": draw(st.integers(0, 2 ** 31 - 1))}


# ======================================================= information transfer

def it_reference(X, tm, past, mode):
    """Gaussian bivariate information transfer: -0.5 log(1 - r^2) with r the
    partial correlation of X^i_{t-tau} and X^j_t given the conditions."""
    T, N = X.shape
    val = np.full((N, N, tm + 1), R.NAN)
    rho = np.full((N, N, tm + 1), R.NAN)
    usable = np.zeros((N, N, tm + 1), bool)
    for i in range(N):
        for j in range(N):
            if i == j:
                continue
            for tau in range(tm + 1):
                rows = R.transfer_rows(X, i, j, tau, tm, past, mode)
                if any(R.is_constant(r) for r in rows):
                    continue
                # samples - conditions - intercept: with fewer than 3
                # residual degrees of freedom the partial correlation is
                # +-1 or 0/0 by construction, not an estimate
                if rows.shape[1] - (rows.shape[0] - 2) - 1 < 3:
                    continue
                Z = rows[2:].T
                if R.design_condition(Z) > 1e6:
                    continue
                r, kept = R.partial_correlation(rows[0], rows[1], Z)
                if math.isnan(r) or kept < 1e-8:
                    continue
                rho[i, j, tau] = r
                val[i, j, tau] = R.gauss_mi(r)
                usable[i, j, tau] = True
    return val, rho, usable


def oracle_it(case, rec):
    X = arr(case)
    T, N = X.shape
    tm = int(case["tau_max"])
    past = int(case["past"])
    mode = case["cond_mode"]
    label_data(X, rec)
    rec.label(mode)
    rec.label("past=%d" % past)
    rec.label("tau_max=0" if tm == 0 else "tau_max>0")
    if nontrivial_data(X) and tm > 0:
        rec.nontrivial(True)
    Lmax = tm + past
    lags = range(Lmax + 1) if mode == "mit" else range(max(tm, past) + 1)
    const = window_constant(X, lags, Lmax)
    allowed = (ValueError,) if const else ()
    if const:
        rec.label("constant_window")
    val, rho, usable = it_reference(X, tm, past, mode)
    offm = ~np.eye(N, dtype=bool)
    if not usable[offm].all():
        rec.label("some_pairs_ill_conditioned")
    if usable[offm].any():
        rec.label("some_pairs_compared")
    ca = CA(X)
    kw = dict(tau_max=tm, estimator="gauss", past=past, cond_mode=mode)
    sfx = "_tau0" if tm == 0 else "_lagged"
    ok2, res = rec.call("it_gauss_max_call", ca.information_transfer,
                        lag_mode="max", allowed=allowed, **kw)
    # lag_mode='all': the float index is a separate, narrow signature
    try:
        allv = np.asarray(ca.information_transfer(lag_mode="all", **kw))
    except allowed:
        allv = None
    except IndexError as e:
        allv = None
        if "only integers" in str(e):
            rec.fail("it_all_IndexError_float_index", "raised IndexError: %s"
                     % str(e)[:120])
        else:
            rec.fail("it_gauss_all_call", "raised IndexError: %s" % e)
    except Exception as e:  # pylint: disable=broad-except
        allv = None
        rec.fail("it_gauss_all_call", "raised %s: %s" % (
            type(e).__name__, str(e)[:200]))
    off = np.zeros((N, N), bool)
    for (i, j) in offdiag(N):
        off[i, j] = True
    if allv is not None:
        rec.check(allv.shape == (N, N, tm + 1), "it_all_shape")
        m3 = usable & off[:, :, None]
        compare_gauss(rec, allv, val, np.where(m3, rho, np.nan),
                      "it_gauss_%s_all_value%s" % (mode, sfx), pairs_mask=m3)
        rec.check(all(allv[k, k, 0] == 0 for k in range(N)),
                  "it_all_diagonal_zero_convention")
        fin = np.isfinite(allv) & off[:, :, None]
        rec.check(np.all(allv[fin] >= 0), "it_gauss_nonnegative")
    if ok2:
        S, L = np.asarray(res[0]), np.asarray(res[1])
        rec.check(np.all(np.diag(S) == 0),
                  "it_max_diagonal_zero_convention", "diag=%s" % np.diag(S))
        skip = ~usable.all(axis=2) | \
            (np.abs(np.nan_to_num(rho)) > 1 - 1e-9).any(axis=2)
        check_max_summary(rec, S, L, val, "it_gauss_%s_max%s" % (mode, sfx),
                          offdiag(N), skip=skip)
        if allv is not None:
            check_max_of_all(rec, S, L, allv, "it_max_equals_max_of_all",
                             offdiag(N))


@st.composite
def it_cases(draw):
    x = draw(data_arrays(t_min=12, t_max=60, n_max=5))
    T = len(x)
    past = draw(st.integers(1, 2))
    # leave >= 3 residual degrees of freedom: T - L >= 2*past + 4
    tm = draw(st.integers(0, max(0, min(4, T - 3 * past - 5))))
    return {"x": x, "tau_max": tm, "past": past,
            "cond_mode": draw(st.sampled_from(["ity", "mit"]))}


# ====================================================== symmetrize_by_absmax

def oracle_sym(case, rec):
    S = np.array(case["S"], dtype=np.float32)
    L = np.array(case["L"], dtype=np.int8)
    N = S.shape[0]
    S2, L2, tie = R.symmetrize_by_absmax(S, L)
    if N >= 2:
        rec.nontrivial(True)
    if tie[np.triu_indices(N, 1)].any():
        rec.label("has_absolute_tie")
    ca = CA(np.zeros((4, N)))
    ok, res = rec.call("symmetrize_call", ca.symmetrize_by_absmax,
                       S.copy(), L.copy())
    if not ok:
        return
    Sl, Ll = np.asarray(res[0], dtype=np.float64), np.asarray(res[1])
    clear = ~tie
    rec.equal(Sl[clear], S2[clear], "symmetrize_value")
    rec.equal(Ll[clear].astype(np.int64), L2[clear], "symmetrize_lag")
    rec.equal(Sl, Sl.T, "symmetrize_result_symmetric")
    offm = ~np.eye(N, dtype=bool)
    rec.equal(Ll.astype(np.int64)[offm], -Ll.astype(np.int64).T[offm],
              "symmetrize_lags_antisymmetric")
    # tie pairs: either entry, consistently
    bad = None
    for i in range(N):
        for j in range(i + 1, N):
            if tie[i, j]:
                opts = {(float(S[i, j]), int(L[i, j])),
                        (float(S[j, i]), -int(L[j, i]))}
                if (float(Sl[i, j]), int(Ll[i, j])) not in opts:
                    bad = bad or "(%d,%d) got %r" % (
                        i, j, (float(Sl[i, j]), int(Ll[i, j])))
    rec.check(bad is None, "symmetrize_tie_takes_one_entry", bad)
    rec.equal(np.diag(Sl), np.diag(S).astype(np.float64),
              "symmetrize_keeps_diagonal")


@st.composite
def sym_cases(draw):
    N = draw(st.integers(2, 6))
    vals = draw(st.lists(st.integers(-8, 8), min_size=N * N, max_size=N * N))
    lags = draw(st.lists(st.integers(0, 20), min_size=N * N, max_size=N * N))
    S = (np.array(vals, dtype=np.float64) / 8.0).reshape(N, N)
    L = np.array(lags).reshape(N, N)
    L[np.diag_indices(N)] = 0
    return {"S": S.tolist(), "L": L.tolist()}


def oracle_sym_cc(case, rec):
    """symmetrize_by_absmax applied to the library's own cross-correlation
    summary agrees with the reference lag functions in both directions."""
    X = arr(case)
    T, N = X.shape
    tm = int(case["tau_max"])
    if nontrivial_data(X) and tm > 0:
        rec.nontrivial(True)
    ref = np.nan_to_num(R.cross_correlation_all(X, tm), nan=0.0)
    ca = CA(X)
    ok, res = rec.call("cc_max_call", ca.cross_correlation, tau_max=tm,
                       lag_mode="max")
    if not ok:
        return
    ok, sym = rec.call("symmetrize_call", ca.symmetrize_by_absmax,
                       np.array(res[0]), np.array(res[1]))
    if not ok:
        return
    S, L = np.asarray(sym[0], dtype=np.float64), np.asarray(sym[1])
    bad = None
    for i in range(N):
        for j in range(i + 1, N):
            # two-sided lag function of the pair: lag > 0 means i leads j
            two = {}
            for tau in range(tm + 1):
                two.setdefault(tau, []).append(ref[i, j, tau])
                two.setdefault(-tau, []).append(ref[j, i, tau])
            m = max(abs(v) for vs in two.values() for v in vs)
            lag = int(L[i, j])
            good = abs(abs(S[i, j]) - m) <= 2 * TOL and lag in two and any(
                abs(S[i, j] - v) <= 2 * TOL for v in two[lag]) and \
                S[j, i] == S[i, j] and int(L[j, i]) == -lag
            if not good and bad is None:
                bad = "(%d,%d) S=%r L=%d absmax=%r" % (i, j, S[i, j], lag, m)
    rec.check(bad is None, "symmetrized_cc_is_two_sided_absmax", bad)


# ============================================================ climate classes

def climate_data(case):
    from pyunicorn.core import GeoGrid
    from pyunicorn.climate import ClimateData
    X = arr(case)
    T, N = X.shape
    grid = GeoGrid(time_seq=np.arange(T, dtype=float),
                   lat_seq=np.array(case["lat"], dtype=float),
                   lon_seq=np.array(case["lon"], dtype=float),
                   silence_level=3)
    return ClimateData(observable=X.copy(), grid=grid,
                       time_cycle=int(case["time_cycle"]),
                       anomalies=bool(case["anomalies"]), silence_level=3)


def ref_anomaly(case):
    X = arr(case)
    T = X.shape[0]
    if case["anomalies"]:
        A = X.copy()
    else:
        c = int(case["time_cycle"])
        A = np.zeros_like(X)
        for p in range(c):
            A[p::c] = X[p::c] - X[p::c].mean(axis=0)
    if case.get("winter_only"):
        c = int(case["time_cycle"])
        years = T // c
        idx = [t for t in range(years * c) if t % 12 in (0, 1, 11)]
        A = A[idx]
    return A


def ref_normalize(A):
    """zero mean / unit variance per column; zero-variance columns -> 0
    (documented in Data.normalize_time_series_array)."""
    A = np.asarray(A, dtype=np.float64)
    out = A - A.mean(axis=0)
    sd = np.sqrt((out * out).mean(axis=0))
    with np.errstate(all="ignore"):
        out = out / sd
    out[np.isnan(out)] = 0
    return out


def histogram_mi_matrix(P, Q, n_bins, margin_tol):
    """MI of row i of P with row j of Q, equal-width bins over the common
    range of both arrays.  Returns (matrix, margin_ok)."""
    lo = min(P.min(), Q.min())
    hi = max(P.max(), Q.max())
    N = P.shape[0]
    if hi == lo:
        return np.zeros((N, N)), True
    sp, sq, margin = [], [], 1.0
    for k in range(N):
        s, m = R.equal_width_symbols(P[k], lo, hi, n_bins)
        sp.append(s)
        margin = min(margin, m)
        s, m = R.equal_width_symbols(Q[k], lo, hi, n_bins)
        sq.append(s)
        margin = min(margin, m)
    M = np.zeros((N, N))
    for i in range(N):
        for j in range(N):
            M[i, j] = R.plugin_mi(sp[i], sq[j])
    return M, margin > margin_tol


def oracle_climate(case, rec):
    from pyunicorn import climate
    X = arr(case)
    N = X.shape[1]
    kind = case["kind"]
    label_data(X, rec)
    rec.label(kind)
    rec.label("anomalies_given" if case["anomalies"] else
              "cycle=%d" % case["time_cycle"])
    if case.get("winter_only"):
        rec.label("winter_only")
    A = ref_anomaly(case)
    Ta = A.shape[0]
    ties = R.has_ties(A)
    if nontrivial_data(A):
        rec.nontrivial(True)
    cls = {"tsonis": climate.TsonisClimateNetwork,
           "spearman": climate.SpearmanClimateNetwork,
           "partial": climate.PartialCorrelationClimateNetwork,
           "mi": climate.MutualInfoClimateNetwork}[kind]
    allowed = ()
    if kind == "partial" and any(R.is_constant(A[:, k]) for k in range(N)):
        # correlations with a constant series are NaN, the matrix inverse
        # (and with it every partial correlation) is undefined
        rec.label("partial_undefined_constant_series")
        allowed = (np.linalg.LinAlgError,)
    if kind == "mi" and all(R.is_constant(A[:, k]) for k in range(N)):
        # every normalised series is identically 0: the common histogram
        # range has zero width, equal-width binning is undefined
        rec.label("mi_zero_range")
        allowed = (ZeroDivisionError,)
    ok, data = rec.call("climate_data_construct", climate_data, case)
    if not ok:
        return
    ok, net = rec.call(kind + "_construct", cls, data, threshold=0.5,
                       winter_only=bool(case.get("winter_only")),
                       silence_level=3, allowed=allowed)
    if not ok:
        return
    ok, sim = rec.call(kind + "_similarity_measure", net.similarity_measure)
    if not ok:
        return
    sim = np.asarray(sim, dtype=np.float64)
    off = ~np.eye(N, dtype=bool)
    mask = None
    if kind == "tsonis":
        ref = R.pearson_matrix(A)
        clause = "tsonis_pearson"
    elif kind == "spearman":
        ref = R.spearman_matrix(A)
        clause = "spearman_tied" if ties else "spearman_untied"
        rec.label("spearman_ties" if ties else "spearman_no_ties")
    elif kind == "partial":
        C = R.pearson_matrix(A)
        usable = Ta >= N + 2 and not np.isnan(C).any() and \
            np.linalg.cond(C) < 1e6
        if not usable:
            rec.label("partial_singular_skipped")
            # no reference value exists for a singular correlation matrix,
            # but whatever comes back is a correlation: symmetric and bounded
            if not np.isnan(C).any() and np.isfinite(sim).all():
                rec.label("partial_singular_bounded_symmetric_checked")
                rec.close(sim, sim.T, "partial_singular_similarity_symmetric",
                          rtol=1e-6, atol=1e-6)
                rec.check(bool(np.all(sim[off] <= 1 + 1e-4)),
                          "partial_singular_similarity_bounded",
                          "largest off-diagonal value %r (T=%d, N=%d)" % (
                              float(sim[off].max()) if off.any() else None,
                              Ta, N))
            return
        rec.label("partial_compared")
        ref, kept = R.partial_correlation_matrix(A)
        mask = off & (kept > 1e-8) & ~np.isnan(ref)
        clause = "partial_correlation"
    else:
        Z = ref_normalize(A).astype(np.float32).astype(np.float64)
        ref, margin_ok = histogram_mi_matrix(Z.T.copy(), Z.T.copy(), 32, 1e-4)
        if not margin_ok:
            rec.label("mi_sample_on_bin_boundary_skipped")
            return
        rec.label("mi_compared")
        mask = off
        clause = "mi_equal_width_32"
    if mask is None:
        mask = ~np.isnan(ref)
        # undefined (constant series): NaN from corrcoef or 0 accepted
        und = np.isnan(ref)
        rec.check(np.all(np.isnan(sim[und]) | (sim[und] == 0)),
                  clause + "_undefined_entries", "values %s" % sim[und][:6])
    close_masked(rec, sim, np.abs(ref), clause + "_abs_similarity", mask=mask)
    rec.close(sim, sim.T, kind + "_similarity_symmetric", rtol=1e-6)
    if kind != "mi":
        rec.check(np.all((sim[~np.isnan(sim)] <= 1 + TOL)),
                  kind + "_similarity_bounded")
    else:
        rec.check(np.all(sim >= 0) and np.all(sim <= math.log(32) + TOL),
                  "mi_similarity_bounds")
    # signed statistic through the public calculate_similarity_measure
    ok, sg = rec.call(kind + "_calculate_similarity_measure",
                      net.calculate_similarity_measure, A.copy())
    if not ok:
        return
    sg = np.asarray(sg, dtype=np.float64)
    close_masked(rec, sg, ref, clause + "_signed", mask=mask)
    if case.get("nperm") is not None:
        # relations: node relabelling permutes the matrix; a non-zero affine
        # map of single series leaves |similarity| unchanged (MI: positive
        # power-of-two scalings only, they commute exactly with the
        # normalisation, so no sample can change its bin)
        p = np.array(case["nperm"])
        a = np.array(case["scale"], dtype=np.float64)
        b = np.array(case["shift"], dtype=np.float64)
        if kind == "mi":
            a, b = np.abs(a), b * 0
        if kind == "spearman":
            # a shift changes the rounding of the phase means and can make
            # or break ties between anomalies; scalings by 2^k are exact
            b = b * 0
        X2 = (X * a + b)[:, p]
        case2 = dict(case, x=X2.tolist(),
                     lat=[case["lat"][k] for k in p],
                     lon=[case["lon"][k] for k in p])
        ok1, data2 = rec.call("climate_data_construct", climate_data, case2)
        ok2, net2 = (False, None) if not ok1 else rec.call(
            kind + "_construct", cls, data2, threshold=0.5,
            winter_only=bool(case.get("winter_only")), silence_level=3,
            allowed=allowed)
        if ok2:
            sim2 = np.asarray(net2.similarity_measure(), dtype=np.float64)
            exp = sim[np.ix_(p, p)]
            m = mask[np.ix_(p, p)] & ~np.isnan(exp)
            close_masked(rec, sim2, exp,
                         clause + "_relabelling_and_affine_invariance",
                         mask=m, tol=1e-6 if kind == "mi" else TOL)
    if kind == "spearman" and case.get("tperm") is not None:
        # Spearman's rho is a function of the joint sample only: reordering
        # the time steps of all series alike cannot change it
        p = np.argsort(np.array(case["tperm"][:Ta]), kind="stable")
        ok, sg2 = rec.call("spearman_calculate_permuted",
                           net.calculate_similarity_measure, A[p].copy())
        if ok:
            close_masked(rec, np.asarray(sg2, dtype=np.float64), sg,
                         clause + "_time_order_invariance",
                         mask=~np.isnan(sg))


@st.composite
def climate_cases(draw):
    kind = draw(st.sampled_from(["tsonis", "spearman", "spearman", "partial",
                                 "partial", "mi", "mi"]))
    winter = draw(st.integers(0, 7)) == 0
    kinds = ("fine", "fine", "fine", "small", "dyadic", "walk")
    # partial correlation needs a regular correlation matrix: no exactly
    # collinear columns by construction (they still occur by chance)
    # (same switch gives Spearman a share of tie-free data sets)
    plain = (kind == "partial" and draw(st.integers(0, 3)) > 0) or \
        (kind == "spearman" and draw(st.booleans()))
    if plain and kind == "spearman":
        kinds = ("fine",)
    if winter:
        x = draw(data_arrays(t_min=24, t_max=48, n_max=5, kinds=kinds,
                             degenerate=not plain, affine=not plain))
        x = x[:(len(x) // 12) * 12]
        cyc = 12
    elif kind == "partial" and draw(st.integers(0, 3)) == 0:
        # more nodes than samples: the correlation matrix is singular
        x = draw(data_arrays(t_min=5, t_max=14, n_min=8, n_max=22,
                             kinds=("fine", "small"), structure=False))
        cyc = 1
    else:
        x = draw(data_arrays(t_min=4 if kind != "partial" else 8, t_max=60,
                             kinds=kinds, degenerate=not plain,
                             affine=not plain))
        cyc = draw(st.sampled_from([1, 1, 2, 3, 5]))
    T, N = len(x), len(x[0])
    anomalies = draw(st.booleans())
    lat = draw(st.lists(st.integers(-90, 90), min_size=N, max_size=N))
    lon = draw(st.lists(st.integers(-180, 180), min_size=N, max_size=N))
    case = {"x": x, "kind": kind, "time_cycle": cyc, "anomalies": anomalies,
            "winter_only": winter, "lat": lat, "lon": lon, "nperm": None}
    if draw(st.integers(0, 2)) == 0:
        case["nperm"] = list(draw(st.permutations(list(range(N)))))
        case["scale"] = [draw(st.sampled_from([-2.0, -0.5, 0.25, 1.0, 4.0]))
                         for _ in range(N)]
        case["shift"] = [float(draw(st.integers(-4, 4))) for _ in range(N)]
    if kind == "spearman":
        case["tperm"] = draw(st.lists(st.integers(0, T - 1), min_size=T,
                                      max_size=T))
    return case


# ============================================================ Surrogates.test_

def oracle_surr(case, rec):
    from pyunicorn.timeseries import Surrogates
    Og = np.array(case["orig"], dtype=np.float64)         # [index, time]
    N, T = Og.shape
    if case.get("perm") is not None:
        S = np.array([Og[k][np.array(case["perm"][k]) % T]
                      for k in range(N)])
        rec.label("surrogate=shuffle_with_repeats")
    else:
        S = np.array(case["surr"], dtype=np.float64)
        rec.label("surrogate=independent")
    nb = int(case["n_bins"])
    if nontrivial_data(Og.T):
        rec.nontrivial(True)
    # the docstrings assume normalised input
    On = ref_normalize(Og.T).T.copy()
    Sn = ref_normalize(S.T).T.copy()
    off = ~np.eye(N, dtype=bool)
    ok, P = rec.call("test_pearson_call", Surrogates.test_pearson_correlation,
                     On.copy(), Sn.copy())
    if ok:
        ref = np.full((N, N), R.NAN)
        for i in range(N):
            for j in range(N):
                ref[i, j] = R.pearson(On[i], Sn[j])
        # constant series are normalised to zeros -> product mean 0
        ref0 = np.nan_to_num(ref, nan=0.0)
        close_masked(rec, P, ref0, "test_pearson_offdiagonal", mask=off)
        rec.check(np.all(np.abs(np.asarray(P)) <= 1 + TOL),
                  "test_pearson_bounded")
    for tag, (A_, B_) in (("normalized", (On, Sn)), ("raw", (Og, S))):
        zero_range = min(A_.min(), B_.min()) == max(A_.max(), B_.max())
        if zero_range:
            # all samples equal: equal-width binning over the common range
            # is undefined, a ZeroDivisionError is a fair rejection
            rec.label("mi_zero_range")
        ok, M = rec.call("test_mi_call_" + tag,
                         Surrogates.test_mutual_information, A_.copy(),
                         B_.copy(), n_bins=nb,
                         allowed=(ZeroDivisionError,) if zero_range else ())
        if not ok:
            continue
        ref, margin_ok = histogram_mi_matrix(A_, B_, nb, 1e-9)
        if not margin_ok:
            rec.label("mi_sample_on_bin_boundary_skipped_" + tag)
            continue
        rec.label("mi_compared_" + tag)
        close_masked(rec, M, ref, "test_mi_offdiagonal_" + tag, mask=off)
        rec.check(np.all(np.asarray(M) >= -1e-6) and
                  np.all(np.asarray(M) <= math.log(nb) + TOL),
                  "test_mi_bounds")
    # original vs itself: symmetric matrices
    ok, P2 = rec.call("test_pearson_call", Surrogates.test_pearson_correlation,
                      On.copy(), On.copy())
    if ok:
        rec.close(P2, np.asarray(P2).T, "test_pearson_self_symmetric",
                  rtol=1e-6)


@st.composite
def surr_cases(draw):
    x = draw(data_arrays(t_min=4, t_max=60, kinds=("fine", "fine", "fine",
                                                   "walk", "small")))
    Og = np.array(x).T
    N, T = Og.shape
    case = {"orig": Og.tolist(), "n_bins": draw(st.sampled_from(
        [2, 3, 8, 32, 32]))}
    if draw(st.booleans()):
        case["perm"] = [draw(st.lists(st.integers(0, T - 1), min_size=T,
                                      max_size=T)) for _ in range(N)]
        case["surr"] = None
    else:
        flat = draw(st.lists(st.integers(-(1 << 12), 1 << 12),
                             min_size=N * T, max_size=N * T))
        case["surr"] = (np.array(flat, dtype=float).reshape(N, T)
                        / 64.0).tolist()
        case["perm"] = None
    return case


# ================================================ compiled vs pure Python

def PP(X, only_tri=False):
    from pyunicorn.funcnet.coupling_analysis_pure_python import \
        CouplingAnalysisPurePython
    return CouplingAnalysisPurePython(np.array(X, dtype=np.float64),
                                      only_tri=only_tri, silence_level=3)


def oracle_pure(case, rec):
    X = arr(case)
    T, N = X.shape
    tm = int(case["tau_max"])
    bins = int(case["bins"])
    cr = T - 2 * tm
    label_data(X, rec)
    rec.label("tau_max=0" if tm == 0 else "tau_max>0")
    if nontrivial_data(X):
        rec.nontrivial(True)
    pp = PP(X)
    sfx = "_tau0" if tm == 0 else "_lagged"
    # ---- cross correlation ------------------------------------------------
    ok, pa = rec.call("pure_cc_all_call", pp.cross_correlation, tau_max=tm,
                      lag_mode="all")
    if ok:
        pa = np.asarray(pa, dtype=np.float64)
        ref = np.zeros((2 * tm + 1, N, N))
        for t in range(2 * tm + 1):
            for i in range(N):
                for j in range(N):
                    r = R.pearson(X[tm:tm + cr, i], X[t:t + cr, j])
                    ref[t, i, j] = 0.0 if math.isnan(r) else r
        rec.close(pa, ref, "pure_cc_all_value" + sfx, rtol=TOL)
        # the same series at a level that dwarfs their fluctuations: this
        # implementation removes the window mean in double precision before
        # anything is stored in single precision, so the correlations stay
        # (the compiled one stores first and is not held to this)
        okL, pl = rec.call("pure_cc_all_call_high_level",
                           PP(X + 1e6).cross_correlation, tau_max=tm,
                           lag_mode="all")
        if okL:
            rec.close(np.asarray(pl, dtype=np.float64), ref,
                      "pure_cc_all_value_high_level" + sfx, rtol=0,
                      atol=1e-5)
        # differential: compiled kernel on the matching windows
        comp = np.zeros_like(ref)
        good = True
        for tau in range(-tm, tm + 1):
            lag = abs(tau)
            D = X[tm:T - tm + tau] if tau >= 0 else X[tm - lag:T - tm]
            okc, cv = rec.call("compiled_cc_all_call",
                               CA(D).cross_correlation, tau_max=lag,
                               lag_mode="all")
            if not okc:
                good = False
                break
            cv = np.asarray(cv, dtype=np.float64)
            comp[tm + tau] = cv[:, :, lag] if tau >= 0 else cv[:, :, lag].T
        if good:
            rec.close(pa, comp, "pure_vs_compiled_cc" + sfx, rtol=TOL)
        okm, pm = rec.call("pure_cc_max_call", pp.cross_correlation,
                           tau_max=tm, lag_mode="max")
        if okm:
            pm = np.asarray(pm, dtype=np.float64)
            mx = np.abs(pa).max(axis=0)
            rec.close(pm[0], mx, "pure_cc_max_value", rtol=1e-6)
            bad = None
            for i in range(N):
                for j in range(N):
                    t = int(round(pm[1, i, j])) + tm
                    if not (0 <= t <= 2 * tm and
                            abs(pa[t, i, j]) >= mx[i, j] - 1e-6):
                        bad = bad or "(%d,%d) lag %r" % (i, j, pm[1, i, j])
            rec.check(bad is None, "pure_cc_max_lag", bad)
        if tm == 0:
            okt, pt = rec.call("pure_cc_only_tri_call",
                               PP(X, only_tri=True).cross_correlation,
                               tau_max=0, lag_mode="all")
            if okt:
                off = ~np.eye(N, dtype=bool)
                rec.close(np.asarray(pt)[0][off], pa[0][off],
                          "pure_cc_only_tri_offdiagonal", rtol=1e-6)
    # ---- mutual information -----------------------------------------------
    if cr < 2:
        return
    ok, pmi = rec.call("pure_mi_all_call", pp.mutual_information, bins=bins,
                       tau_max=tm, lag_mode="all")
    if not ok:
        return
    pmi = np.asarray(pmi, dtype=np.float64)
    sym = {}
    b_eff = None
    for t in range(2 * tm + 1):
        for k in range(N):
            sym[t, k], b_eff = R.quantile_symbols(X[t:t + cr, k], bins)
    if b_eff < 2:
        return
    lb = math.log(b_eff)
    uniform = cr % bins == 0 and not R.has_ties(X)
    rec.label("mi_equal_occupancy" if uniform else "mi_unequal_occupancy")
    doc = np.zeros((2 * tm + 1, N, N))
    true = np.zeros((2 * tm + 1, N, N))
    for t in range(2 * tm + 1):
        for i in range(N):
            for j in range(N):
                a, b = sym[tm, i], sym[t, j]
                hxy = _joint_entropy(a, b)
                doc[t, i, j] = (2 * lb - hxy) / lb
                true[t, i, j] = R.plugin_mi(a, b) / lb
    # documented formula (marginal entropies taken as log(bins))
    rec.close(pmi, doc, "pure_mi_documented_formula" + sfx, rtol=TOL)
    if uniform:
        # equal occupancy: it *is* the normalised plug-in MI
        rec.close(pmi, true, "pure_mi_equals_normalised_mi" + sfx, rtol=TOL)
        # differential with the compiled binning estimator
        comp = np.zeros_like(true)
        comp_raw = np.zeros_like(true)
        good = True
        for tau in range(-tm, tm + 1):
            lag = abs(tau)
            D = X[tm:T - tm + tau] if tau >= 0 else X[tm - lag:T - tm]
            okc, cv = rec.call("compiled_mi_binning_call",
                               CA(D).mutual_information, tau_max=lag,
                               estimator="binning", bins=bins,
                               lag_mode="all")
            if not okc:
                good = False
                break
            cv = np.asarray(cv, dtype=np.float64)
            fac = len(D) / float(len(D) - lag)
            sl = cv[:, :, lag] if tau >= 0 else cv[:, :, lag].T
            comp_raw[tm + tau] = sl / lb
            comp[tm + tau] = sl * fac / lb
        if good and not pbt.allclose(pmi, comp_raw, rtol=TOL):
            # the compiled values carry the known (T-tau)/T factor
            # (KF-C10-1, reported by the mutual_information sub-check);
            # with that factor removed the two implementations must agree
            rec.close(pmi, comp, "pure_vs_compiled_mi_rescaled" + sfx,
                      rtol=TOL)


def _joint_entropy(a, b):
    return R.plugin_entropy([int(u) * 100003 + int(v)
                             for u, v in zip(a, b)])


@st.composite
def pure_cases(draw):
    uniform = draw(st.booleans())
    if uniform:
        # distinct values and a window length divisible by bins
        # few bins, and the default 16 and beyond (flat pair indices leave
        # uint8 at 17 bins)
        bins = draw(st.one_of(st.integers(2, 6), st.integers(2, 6),
                              st.sampled_from([16, 17, 20, 24, 32])))
        tm = draw(st.integers(0, 3))
        cr = bins * draw(st.integers(1, 8 if bins <= 6 else 3))
        T = cr + 2 * tm
        N = draw(st.integers(2, 4))
        cols = [draw(st.permutations(list(range(T)))) for _ in range(N)]
        X = np.array(cols, dtype=float).T
        for k in range(1, N):
            if draw(st.integers(0, 3)) == 0:
                s = draw(st.integers(0, min(3, T - 1)))
                X[s:, k] = X[:T - s, 0]
                # keep the column free of ties
                X[:s, k] = -1 - np.arange(s)
        x = [[float(v) / 4 for v in row] for row in X]
    else:
        x = draw(data_arrays(t_min=4, t_max=40, n_max=4))
        T = len(x)
        tm = draw(st.integers(0, max(0, min(3, (T - 2) // 2))))
        bins = draw(st.integers(2, 8))
    return {"x": x, "tau_max": tm, "bins": bins}


# ================================================== metamorphic relations

def _run(rec, clause, X, fam, tm, par, seed, allowed=()):
    """One library evaluation of the chosen estimator family; returns a list
    of arrays (all mode, and max mode where cheap)."""
    ca = CA(X)
    if fam == "cc":
        ok, a = rec.call(clause, ca.cross_correlation, tau_max=tm,
                         lag_mode="all")
        return (np.asarray(a, dtype=np.float64),) if ok else None
    if fam in ("mi_binning", "mi_gauss", "mi_knn"):
        if fam == "mi_knn":
            pbt.seed_library_rngs(seed, seed)
        ok, a = rec.call(clause, ca.mutual_information, tau_max=tm,
                         estimator=fam[3:], bins=par["bins"], knn=par["knn"],
                         lag_mode="all", allowed=allowed)
        return (np.asarray(a, dtype=np.float64),) if ok else None
    ok, a = rec.call(clause, ca.information_transfer, tau_max=tm,
                     estimator="gauss", past=par["past"],
                     cond_mode=par["cond_mode"], lag_mode="max",
                     allowed=allowed)
    return (np.asarray(a[0], dtype=np.float64),
            np.asarray(a[1], dtype=np.float64)) if ok else None


def oracle_relations(case, rec):
    X = arr(case)
    T, N = X.shape
    tm = int(case["tau_max"])
    fam = case["family"]
    par = case["par"]
    seed = int(case.get("seed", 0))
    rec.label(fam)
    label_data(X, rec)
    if nontrivial_data(X) and tm > 0:
        rec.nontrivial(True)
    allowed = (ValueError,) if fam in ("mi_gauss", "mi_knn", "it_gauss") \
        else ()
    base = _run(rec, fam + "_base_call", X, fam, tm, par, seed, allowed)
    if base is None:
        rec.label("rejected_constant_window")
        return
    b0 = base[0]
    regular = np.isfinite(b0) & (np.abs(b0) < HUGE_MI)
    if fam == "it_gauss":
        # partial correlations on a (nearly) collinear conditioning set are
        # rounding noise on both sides: compare well-conditioned pairs only
        usable = it_reference(X, tm, par["past"], par["cond_mode"])[2]
        regular &= usable.all(axis=2)
    # ---------------------------------------------------- affine invariance
    a = np.array(case["scale"], dtype=np.float64)
    b = np.array(case["shift"], dtype=np.float64)
    if fam == "mi_binning":
        a = np.abs(a)          # invariant under increasing maps only
    if fam == "mi_knn":
        # positive power-of-two scalings commute exactly with the float32
        # standardisation, so the neighbour counts must not change at all
        a = np.abs(a)
        b = b * 0
    X2 = X * a + b             # exact in float64 (dyadic data, dyadic maps)
    t2 = _run(rec, fam + "_affine_call", X2, fam, tm, par, seed, allowed)
    if t2 is not None:
        sgn = np.sign(a)
        exp = b0 * (sgn[:, None] * sgn[None, :])[:, :, None] \
            if fam == "cc" else b0
        tol = {"mi_binning": 1e-6, "mi_knn": 1e-6}.get(fam, TOL)
        close_masked(rec, t2[0], exp, fam + "_affine_invariance",
                     mask=regular & np.isfinite(t2[0]), tol=tol)
    # ---------------------------------------------- permutation equivariance
    p = np.array(case["perm"])
    if fam == "mi_knn" and R.has_ties(X):
        # the tie-breaking noise is drawn per (i, j, tau) in loop order, so
        # on tied samples a reordering legitimately changes the counts
        rec.label("knn_ties_no_permutation_check")
        return
    if fam == "mi_knn":
        # X = Y on the diagonal: every distance comparison is a tie that
        # only the (per call) noise decides - not a function of the data
        regular = regular & ~np.eye(N, dtype=bool)[:, :, None]
    t3 = _run(rec, fam + "_permuted_call", X[:, p], fam, tm, par, seed,
              allowed)
    if t3 is not None:
        exp = b0[np.ix_(p, p)]
        m = regular[np.ix_(p, p)]
        close_masked(rec, t3[0], exp, fam + "_permutation_equivariance",
                     mask=m & np.isfinite(t3[0]),
                     tol=1e-6 if fam != "it_gauss" else TOL)
    # ------------------------------------------------------ zero-lag symmetry
    if fam in ("mi_binning", "mi_gauss", "mi_knn", "cc") and not (
            fam == "mi_knn" and R.has_ties(X)):
        z = b0[:, :, 0]
        m = regular[:, :, 0] & regular[:, :, 0].T
        close_masked(rec, z, z.T, fam + "_zero_lag_symmetry", mask=m,
                     tol=1e-6)


@st.composite
def relation_cases(draw):
    fam = draw(st.sampled_from(["cc", "cc", "mi_binning", "mi_gauss",
                                "it_gauss", "mi_knn"]))
    if fam == "mi_knn":
        # no exactly collinear columns: there the neighbour counts are
        # decided by the tie-breaking noise alone
        x = draw(data_arrays(t_min=10, t_max=30, n_max=3,
                             kinds=("fine", "walk"), degenerate=False,
                             affine=False))
    else:
        x = draw(data_arrays(t_min=12, t_max=50, n_max=5))
    T, N = len(x), len(x[0])
    past = draw(st.integers(1, 2))
    tm = draw(st.integers(0, max(0, min(4, T - 3 * past - 5))))
    kmax = min(T // 2, T - tm - 2)
    par = {"bins": draw(st.integers(2, 6)),
           "knn": draw(st.integers(1, max(1, min(5, kmax)))),
           "past": past, "cond_mode": draw(st.sampled_from(["ity", "mit"]))}
    scale = [draw(st.sampled_from([-4.0, -1.0, -0.5, 0.25, 0.5, 1.0, 2.0,
                                   8.0])) for _ in range(N)]
    shift = [float(draw(st.integers(-6, 6))) for _ in range(N)]
    perm = list(draw(st.permutations(list(range(N)))))
    return {"x": x, "tau_max": tm, "family": fam, "par": par, "scale": scale,
            "shift": shift, "perm": perm,
            "seed": draw(st.integers(0, 2 ** 31 - 1))}


# ================================================================ sub-checks

SUBCHECKS = [
    SubCheck("cross_correlation", oracle_cc, gen=cc_cases,
             quick=(4, 300), thorough=(16, 900)),
    SubCheck("lag_int8_edge", oracle_lag_edge, gen=lag_edge_cases,
             quick=(1, 6), thorough=(2, 40)),
    SubCheck("mutual_information", oracle_mi, gen=mi_cases,
             quick=(4, 250), thorough=(16, 750)),
    SubCheck("knn", oracle_knn, gen=knn_cases,
             quick=(4, 120), thorough=(16, 360)),
    SubCheck("information_transfer", oracle_it, gen=it_cases,
             quick=(4, 150), thorough=(16, 450)),
    SubCheck("symmetrize", oracle_sym, gen=sym_cases,
             quick=(1, 300), thorough=(4, 1000)),
    SubCheck("symmetrize_cc", oracle_sym_cc, gen=cc_cases,
             quick=(2, 100), thorough=(8, 300)),
    SubCheck("climate_similarity", oracle_climate, gen=climate_cases,
             quick=(4, 250), thorough=(16, 750)),
    SubCheck("surrogates_tests", oracle_surr, gen=surr_cases,
             quick=(3, 200), thorough=(12, 600)),
    SubCheck("pure_python", oracle_pure, gen=pure_cases,
             quick=(4, 120), thorough=(16, 360)),
    SubCheck("relations", oracle_relations, gen=relation_cases,
             quick=(4, 200), thorough=(16, 600)),
]
