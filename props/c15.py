"""C15 - surrogates preserve exactly what each method promises, also when the
methods are called repeatedly on one object.

Every library call that consumes randomness (numpy.random in
timeseries/surrogates.py, Python's ``random`` in the Cython twin kernels) is
preceded by pbt.seed_library_rngs(a, b) with integers stored in the case.
The call history on ONE Surrogates object is data (a list of 1..6 ops).
"""
import numpy as np
from hypothesis import strategies as st

from vp import pbt
from vp.pbt import SubCheck, represent
from vp.ref import surrogates as ref

PROPERTY = "C15"
RULE = ("cases = (data array N 1..4 x n_time 1..64 of several kinds: "
        "clustered series with pairwise distinct values (twin-friendly), "
        "small integers with ties, rows with exactly zero sum, constant rows, "
        "arbitrary floats in [-100,100]; a history of 1..6 surrogate calls in "
        "random order on one Surrogates object - white noise, correlated "
        "noise, AAFT, refined AAFT (each output mode, 1..4 iterations), twin "
        "surrogates with dimension 1..3, delay 0..3, dyadic threshold, "
        "min_dist 0..8 - each with its own two RNG seed integers). "
        "Non-trivial = at least 2 calls on the same object, and for cases "
        "whose history contains twin calls at least one twin pair exists in "
        "one of them. twin_histories / rp_twins: non-trivial = a twin pair "
        "exists. row_independence: rows differ. Distinct = hash of the case.")
ASSUMPTIONS = [
    "a quarter of the twin histories carries its fluctuations on a large "
    "level (data 2**17 + v * 2**-9, thresholds scaled alike: exact in "
    "float64, not resolvable in single precision): Surrogates documents "
    "and keeps double-precision data",
    "twin thresholds are float32-exact (the kernel takes a C float) and are "
    "offset by 1/128 from the dyadic data grid, so no distance equals the "
    "threshold",
    "twin-surrogate transitions are decoded from values, hence asserted only "
    "for rows with pairwise distinct values; a restart at a random state is "
    "accepted only where the own / a twin's successor lies beyond the series",
    "amplitude spectra are compared with tolerance 1e-9 * max(1, largest "
    "amplitude of the row) (float64 FFT round trips)",
    "refined AAFT 'true spectrum' needs n_iterations >= 1",
    "row_independence: the random numbers a method draws depend on the "
    "array shape only, so under equal seeds a row's surrogate cannot depend "
    "on the values of other rows",
]

OPS = ["white", "corr", "aaft", "raaft_amp", "raaft_spec", "raaft_both",
       "twin"]


# ------------------------------------------------------------------ helpers

def _data(case):
    return np.array(case["data"], dtype=np.float64)


def _new(data):
    from pyunicorn.timeseries import Surrogates
    return Surrogates(original_data=represent(data.copy(), dtypes=False),
                      silence_level=3)


def _thr(op):
    return float(np.float32(op["thr"]))


def _call(s, op):
    """One surrogate call on object ``s`` described by ``op``."""
    pbt.seed_library_rngs(op["a"], op["b"])
    name = op["op"]
    if name == "white":
        return s.white_noise_surrogates()
    if name == "corr":
        return s.correlated_noise_surrogates()
    if name == "aaft":
        return s.AAFT_surrogates()
    if name == "raaft_amp":
        return s.refined_AAFT_surrogates(op["iters"], "true_amplitudes")
    if name == "raaft_spec":
        return s.refined_AAFT_surrogates(op["iters"], "true_spectrum")
    if name == "raaft_both":
        return s.refined_AAFT_surrogates(op["iters"], "both")
    if name == "twin":
        with np.errstate(all="ignore"):
            return s.twin_surrogates(op["dim"], op["delay"], _thr(op),
                                     min_dist=op["min_dist"])
    raise pbt.HarnessError("unknown op %r" % name)


def _is_rowwise_permutation(out, data):
    out = np.asarray(out)
    if out.shape != data.shape:
        return False, "shape %s vs %s" % (out.shape, data.shape)
    for i in range(data.shape[0]):
        a = np.sort(out[i])
        b = np.sort(data[i])
        # bit-identical multiset (sorting keeps the bit patterns; -0.0 == 0.0
        # is irrelevant for a permutation check of values)
        if not np.array_equal(a, b):
            return False, "row %d sorted out=%s data=%s" % (
                i, a[:8].tolist(), b[:8].tolist())
    return True, ""


def _check_perm(rec, out, data, clause):
    ok, why = _is_rowwise_permutation(out, data)
    rec.check(ok, clause, why)


def _check_spectrum(rec, out, data, clause, which):
    """|rfft| of every row equal to the original's at the frequencies
    ``which`` = 'interior' (non-zero, non-Nyquist) or 'all'."""
    out = np.asarray(out)
    if out.shape != data.shape:
        rec.fail(clause + "_shape", "shape %s vs %s" % (out.shape,
                                                        data.shape))
        return
    if np.isnan(out).any():
        rows = np.flatnonzero(np.isnan(out).any(axis=1)).tolist()
        zero_mean = all(np.fft.rfft(data[i])[0] == 0 for i in rows)
        rec.fail(clause + ("_is_nan_zero_mean_row" if zero_mean
                           else "_is_nan"), "rows with NaN: %s" % (rows,))
        return
    n = data.shape[1]
    inner = ref.interior_frequencies(n)
    for i in range(data.shape[0]):
        a0 = ref.amplitude_spectrum(data[i])
        a1 = ref.amplitude_spectrum(out[i])
        tol = 1e-9 * max(1.0, float(a0.max()))
        if inner:
            d = np.abs(a1[inner] - a0[inner])
            if not np.all(d <= tol):
                k = inner[int(np.argmax(d))]
                rec.fail(clause + "_interior_frequencies",
                         "row %d n=%d freq %d: surrogate %.12g original "
                         "%.12g" % (i, n, k, a1[k], a0[k]))
                return
        if which == "all":
            edge = [k for k in range(len(a0)) if k not in inner]
            d = np.abs(a1[edge] - a0[edge])
            if not np.all(d <= tol):
                k = edge[int(np.argmax(d))]
                rec.fail(clause + "_zero_or_nyquist_frequency",
                         "row %d n=%d freq %d: surrogate %.12g original "
                         "%.12g" % (i, n, k, a1[k], a0[k]))
                return


def _twin_reference(data, op):
    """Per row: (states, twins) from the harness's own recurrence matrix."""
    out = []
    for i in range(data.shape[0]):
        states = ref.embed(data[i], op["dim"], op["delay"])
        R = ref.recurrence_matrix(states, _thr(op))
        out.append((states, ref.twins_of(R, op["min_dist"])))
    return out


def _check_twin_lists(rec, lib_twins, want, clause):
    """lib_twins: [[[k...] per state] per row]."""
    try:
        got = [[sorted(int(k) for k in tw) for tw in row]
               for row in lib_twins]
    except Exception as e:  # pylint: disable=broad-except
        rec.fail(clause, "unreadable twin list: %r" % (e,))
        return
    if len(got) != len(want):
        rec.fail(clause, "%d twin lists for %d series" % (len(got),
                                                         len(want)))
        return
    for i, (row, (_, tw)) in enumerate(zip(got, want)):
        if len(row) != len(tw):
            rec.fail(clause, "row %d: %d states listed, %d embedded states"
                     % (i, len(row), len(tw)))
            return
        for j, (a, b) in enumerate(zip(row, tw)):
            if a != b:
                rec.fail(clause, "row %d state %d: lib %s expected %s" % (
                    i, j, a[:10], b[:10]))
                return


def _check_twin_surrogate(rec, out, data, op, want, suffix):
    out = np.asarray(out)
    N = data.shape[0]
    n_emb = data.shape[1] - (op["dim"] - 1) * op["delay"]
    if out.shape != (N, n_emb):
        rec.fail("twin_surrogate_shape" + suffix, "shape %s, expected %s" % (
            out.shape, (N, n_emb)))
        return
    for i in range(N):
        first = [float(v) for v in data[i, :n_emb]]
        states, tw = want[i]
        index = {}
        for k, v in enumerate(first):
            index.setdefault(v, []).append(k)
        miss = [j for j in range(n_emb) if float(out[i, j]) not in index]
        if miss:
            rec.fail("twin_surrogate_only_original_states" + suffix,
                     "row %d position %d value %r is no original state" % (
                         i, miss[0], float(out[i, miss[0]])))
            continue
        if len(index) != n_emb:
            rec.label("twin_row_with_ties_transitions_not_decoded")
            continue
        path = [index[float(v)][0] for v in out[i]]
        bad = ref.bad_transitions(path, tw, n_emb)
        if bad:
            j = bad[0]
            rec.fail("twin_surrogate_transitions" + suffix,
                     "row %d step %d: state %d -> %d, twins(%d)=%s, "
                     "n_states=%d" % (i, j, path[j], path[j + 1], path[j],
                                      tw[path[j]][:8], n_emb))
        if any(path[j + 1] != path[j] + 1 for j in range(n_emb - 1)):
            rec.label("twin_surrogate_jumps")


# ---------------------------------------------------------------- histories

def oracle_history(case, rec):
    data = _data(case)
    ops = case["ops"]
    N, n = data.shape
    rec.label("n_time_" + ("odd" if n % 2 else "even"))
    rec.label("kind_" + case.get("kind", "?"))
    rec.label("calls=%d" % len(ops))
    ok, s = rec.call("construct", _new, data)
    if not ok:
        return
    seen = set()
    twin_pair = False
    has_twin_op = False
    for idx, op in enumerate(ops):
        name = op["op"]
        # first call on a fresh object vs. call after other calls: separate
        # signatures, so a history-induced failure is never hidden behind a
        # first-call one
        suffix = "" if idx == 0 else "_after_other_calls"
        rec.label("op_" + name)
        if name == "normalize":
            # the object's own in-place normalisation: every later promise
            # is about the data as it is now (the object reads the array it
            # holds: take the values from there)
            ok, _ = rec.call("normalize_original_data_raises",
                             s.normalize_original_data)
            if not ok:
                return
            mean = data.mean(axis=1, keepdims=True)
            std = data.std(axis=1, keepdims=True)
            want = (data - mean) / np.where(std != 0, std, 1.0)
            rec.close(np.asarray(s.original_data), want,
                      "normalize_original_data_values", rtol=1e-12,
                      atol=1e-12)
            data = np.array(s.original_data, dtype=np.float64)
            continue
        if name in seen:
            rec.label("same_method_called_again")
        seen.add(name)
        if name == "twin":
            n_emb = n - (op["dim"] - 1) * op["delay"]
            if n_emb < 1:
                continue
            has_twin_op = True
        ok, out = rec.call(name + "_raises" + suffix, _call, s, op)
        if not ok:
            continue
        if name == "white":
            _check_perm(rec, out, data, "shuffle_is_row_permutation" + suffix)
        elif name == "corr":
            _check_spectrum(rec, out, data, "fourier_amplitudes" + suffix,
                            "interior")
        elif name == "aaft":
            _check_perm(rec, out, data, "aaft_is_row_permutation" + suffix)
        elif name == "raaft_amp":
            _check_perm(rec, out, data,
                        "refined_aaft_true_amplitudes_is_row_permutation"
                        + suffix)
        elif name == "raaft_spec":
            _check_spectrum(rec, out, data,
                            "refined_aaft_true_spectrum" + suffix, "all")
        elif name == "raaft_both":
            if not (isinstance(out, tuple) and len(out) == 2):
                rec.fail("refined_aaft_both_returns_pair" + suffix,
                         repr(type(out)))
                continue
            _check_perm(rec, out[0], data,
                        "refined_aaft_true_amplitudes_is_row_permutation"
                        + suffix)
            _check_spectrum(rec, out[1], data,
                            "refined_aaft_true_spectrum" + suffix, "all")
        elif name == "twin":
            want = _twin_reference(data, op)
            if any(any(tw) for _, tw in want):
                twin_pair = True
                rec.label("twin_pair_exists")
            # the twins the surrogate was built from (cache hit: the
            # embedding was set by twin_surrogates just now)
            ok, tl = rec.call("twins_raises" + suffix, s.twins, _thr(op),
                              op["min_dist"])
            if ok:
                _check_twin_lists(rec, tl, want, "twins_exact" + suffix)
            _check_twin_surrogate(rec, out, data, op, want, suffix)
    if len(ops) >= 2 and (twin_pair or not has_twin_op):
        rec.nontrivial(True)


# ------------------------------------------------------ twin-only histories

def oracle_twin_history(case, rec):
    """Twins via the public route embedding -> twins(), then twin
    surrogates, several parameter sets on one object."""
    from pyunicorn.timeseries import Surrogates
    data = _data(case)
    N, n = data.shape
    ok, s = rec.call("construct", _new, data)
    if not ok:
        return
    nt = False
    rec.label("fine_fluctuations_on_large_level" if case.get("fine")
              else "order_one_data")
    for idx, op in enumerate(case["ops"]):
        suffix = "" if idx == 0 else "_after_other_calls"
        n_emb = n - (op["dim"] - 1) * op["delay"]
        if n_emb < 1:
            continue
        want = _twin_reference(data, op)
        pairs = sum(len(t) for _, tw in want for t in tw) // 2
        if pairs:
            nt = True
            rec.label("twin_pair_exists")
        else:
            rec.label("no_twin_pair")
        rec.label("dim=%d" % op["dim"])
        rec.label("min_dist_zero" if op["min_dist"] == 0 else
                  "min_dist_positive")
        if op.get("direct"):
            # user route: embed, assign, ask for twins
            def direct():
                s.embedding = Surrogates.embed_time_series_array(
                    data, op["dim"], op["delay"], silence_level=3)
                return s.twins(_thr(op), op["min_dist"])
            ok, tl = rec.call("twins_raises" + suffix, direct)
            if ok:
                _check_twin_lists(rec, tl, want, "twins_exact" + suffix)
            continue
        o = dict(op)
        o["op"] = "twin"
        ok, out = rec.call("twin_raises" + suffix, _call, s, o)
        if not ok:
            continue
        ok, tl = rec.call("twins_raises" + suffix, s.twins, _thr(op),
                          op["min_dist"])
        if ok:
            _check_twin_lists(rec, tl, want, "twins_exact" + suffix)
        _check_twin_surrogate(rec, out, data, o, want, suffix)
    if nt:
        rec.nontrivial(True)


# --------------------------------------------------- RecurrencePlot variants

def oracle_rp_twins(case, rec):
    from pyunicorn.timeseries import RecurrencePlot
    x = np.array(case["x"], dtype=np.float64)
    dim, tau = case["dim"], case["tau"]
    thr = float(np.float32(case["thr"]))
    n_emb = len(x) - (dim - 1) * tau
    if n_emb < 2:
        return
    states = ref.embed(x, dim, tau)
    mode = case.get("mode", "threshold")
    rec.label("rp_mode=" + mode)
    exact = mode == "threshold"
    if exact:
        R = ref.recurrence_matrix(states, thr, strict=True)
        kw = {"threshold": thr}
    elif mode == "local_recurrence_rate":
        kw = {"local_recurrence_rate": 0.15 + 0.1 * (case["calls"][0]["a"]
                                                     % 4)}
    else:
        kw = {"adaptive_neighborhood_size": 1 + case["calls"][0]["a"] % max(
            1, (n_emb - 1) // 3)}
    ok, rp = rec.call("construct", RecurrencePlot, x, dim=dim, tau=tau,
                      metric="supremum", silence_level=3, **kw)
    if not ok:
        return
    if not exact:
        # recurrence matrices that need not be symmetric (C07 holds them to
        # their construction rules): the twins are defined on the matrix the
        # plot holds - states more than min_dist apart with identical rows.
        # The library's pre-filter (equal column sums) may skip true twins
        # there, so its lists are held to soundness, not completeness.
        R = [[int(v) for v in row] for row in np.asarray(
            rp.recurrence_matrix())]
    nt = False
    for idx, c in enumerate(case["calls"]):
        suffix = "" if idx == 0 else "_after_other_calls"
        md = c["min_dist"]
        tw = ref.twins_of(R, md)
        if any(tw):
            nt = True
            rec.label("twin_pair_exists")
        if c["what"] == "twins":
            ok, tl = rec.call("recurrence_plot_twins_raises" + suffix,
                              rp.twins, min_dist=md)
            if ok and exact:
                _check_twin_lists(rec, [tl], [(states, tw)],
                                  "recurrence_plot_twins_exact" + suffix)
            elif ok:
                try:
                    got = [sorted(int(k) for k in t_) for t_ in tl]
                except Exception as e:  # pylint: disable=broad-except
                    got = None
                    rec.fail("recurrence_plot_twins_sound" + suffix,
                             "unreadable twin list %r" % (e,))
                if got is not None and len(got) == len(tw):
                    bad = [(j, k) for j, ks in enumerate(got) for k in ks
                           if k not in tw[j]]
                    rec.check(not bad, "recurrence_plot_twins_sound" + suffix,
                              "reported pairs without identical rows / "
                              "separation: %s" % bad[:5])
            continue
        pbt.seed_library_rngs(c["a"], c["b"])
        ok, out = rec.call("recurrence_plot_twin_surrogates_raises" + suffix,
                           rp.twin_surrogates, n_surrogates=c["n_surr"],
                           min_dist=md)
        if not ok:
            continue
        out = np.asarray(out)
        if out.shape != (c["n_surr"], n_emb, dim):
            rec.fail("recurrence_plot_twin_surrogates_shape" + suffix,
                     "shape %s expected %s" % (out.shape,
                                               (c["n_surr"], n_emb, dim)))
            continue
        index = {tuple(st_): k for k, st_ in enumerate(states)}
        for r in range(c["n_surr"]):
            keys = [tuple(float(v) for v in row) for row in out[r]]
            miss = [j for j, k in enumerate(keys) if k not in index]
            if miss:
                rec.fail("recurrence_plot_twin_surrogates_only_original_"
                         "states" + suffix, "surrogate %d position %d" % (
                             r, miss[0]))
                continue
            if len(index) != n_emb:
                continue
            path = [index[k] for k in keys]
            bad = ref.bad_transitions(path, tw, n_emb)
            if bad:
                j = bad[0]
                rec.fail("recurrence_plot_twin_surrogates_transitions"
                         + suffix, "surrogate %d step %d: %d -> %d twins=%s"
                         % (r, j, path[j], path[j + 1], tw[path[j]][:8]))
    if nt:
        rec.nontrivial(True)


# ---------------------------------------------------------- row independence

def oracle_row_independence(case, rec):
    """Each series is surrogated individually: under equal seeds the output
    rows of the untouched series are identical when one other row of the
    input is replaced."""
    data = _data(case)
    N, n = data.shape
    r0 = case["row"] % N
    other = data.copy()
    other[r0] = np.array(case["replacement"], dtype=np.float64)
    op = case["call"]
    rec.label("op_" + op["op"])
    rec.label("replaced_row_first" if r0 == 0 else "replaced_row_later")
    ok1, s1 = rec.call("construct", _new, data)
    ok2, s2 = rec.call("construct", _new, other)
    if not (ok1 and ok2):
        return
    ok1, o1 = rec.call(op["op"] + "_raises", _call, s1, op)
    ok2, o2 = rec.call(op["op"] + "_raises", _call, s2, op)
    if not (ok1 and ok2):
        return
    if not np.array_equal(data[r0], other[r0]):
        rec.nontrivial(True)
    keep = [i for i in range(N) if i != r0]
    outs1 = o1 if isinstance(o1, tuple) else (o1,)
    outs2 = o2 if isinstance(o2, tuple) else (o2,)
    for a, b in zip(outs1, outs2):
        a = np.asarray(a)[keep]
        b = np.asarray(b)[keep]
        if op["op"] in ("corr", "raaft_spec", "raaft_both"):
            good = pbt.allclose(a, b, rtol=1e-12)
        else:
            good = bool(np.array_equal(a, b))
        rec.check(good, "%s_row_depends_on_other_rows" % op["op"],
                  lambda: "replaced row %d; maxdiff %s" % (
                      r0, pbt.maxdiff(a, b)))


# --------------------------------------------------------------- generators

@st.composite
def clustered_row(draw, n):
    """Pairwise distinct dyadic values: cluster centre 8*c + offset k/64,
    offsets a permutation of 0..n-1 (n <= 64)."""
    ncl = draw(st.integers(1, 4))
    period = draw(st.integers(1, 6))
    motif = draw(st.lists(st.integers(0, ncl - 1), min_size=period,
                          max_size=period))
    noise = draw(st.lists(st.integers(0, 9), min_size=n, max_size=n))
    repl = draw(st.lists(st.integers(0, ncl - 1), min_size=n, max_size=n))
    labels = [motif[t % period] if noise[t] < 8 else repl[t]
              for t in range(n)]
    offs = list(draw(st.permutations(list(range(n)))))
    return [8.0 * labels[t] + offs[t] / 64.0 for t in range(n)]


@st.composite
def data_rows(draw, N, n, kind):
    rows = []
    for _ in range(N):
        if kind == "clustered":
            rows.append(draw(clustered_row(n)))
        elif kind == "ints":
            rows.append([float(v) for v in draw(st.lists(
                st.integers(-5, 5), min_size=n, max_size=n))])
        elif kind == "lattice":
            # few integer levels with plateaus: distances equal to an integer
            # threshold (and distance 0 between distinct times) are common
            rows.append([float(v) for v in draw(st.lists(
                st.integers(0, 3), min_size=n, max_size=n))])
        elif kind == "zero_sum":
            r = draw(st.lists(st.integers(-9, 9), min_size=n, max_size=n))
            r[-1] -= sum(r)
            rows.append([float(v) for v in r])
        elif kind == "const":
            rows.append([float(draw(st.integers(-3, 3)))] * n)
        else:
            rows.append(draw(st.lists(
                st.floats(-100, 100, allow_nan=False, allow_infinity=False,
                          allow_subnormal=False, width=64),
                min_size=n, max_size=n)))
    return rows


THRESHOLDS = [1 / 128.0 + j / 8.0 for j in range(0, 10)] + \
    [1 + 1 / 128.0, 8 + 1 / 128.0, 9 + 1 / 128.0, 100.0, 1 + 1 / 128.0,
     1 + 1 / 128.0]


FINE_BASE, FINE_SCALE = 2.0 ** 17, 2.0 ** -9


@st.composite
def twin_params(draw, n):
    dim = draw(st.sampled_from([1, 1, 2, 3]))
    delay = draw(st.integers(0, 3))
    if (dim - 1) * delay >= n:
        dim, delay = 1, 0
    return {"dim": dim, "delay": delay,
            "thr": draw(st.sampled_from(THRESHOLDS)),
            "min_dist": draw(st.sampled_from([0, 1, 1, 2, 3, 5, 7, 8, 11, 16]))}


@st.composite
def one_op(draw, n, names=None):
    name = draw(st.sampled_from(names or (OPS + OPS + ["normalize"])))
    op = {"op": name, "a": draw(st.integers(0, 2 ** 32 - 1)),
          "b": draw(st.integers(0, 2 ** 32 - 1)),
          "iters": draw(st.integers(1, 4))}
    if name == "raaft_amp" and draw(st.integers(0, 5)) == 0:
        op["iters"] = 0
    op.update(draw(twin_params(n)))
    return op


@st.composite
def history_cases(draw):
    kind = draw(st.sampled_from(["clustered", "clustered", "ints", "floats",
                                 "floats", "zero_sum", "const"]))
    N = draw(st.integers(1, 4))
    n = draw(st.one_of(st.integers(1, 64), st.integers(4, 24)))
    data = draw(data_rows(N, n, kind))
    k = draw(st.sampled_from([1, 2, 2, 3, 3, 4, 5, 6]))
    ops = draw(st.lists(one_op(n), min_size=k, max_size=k))
    return {"kind": kind, "data": data, "ops": ops}


@st.composite
def twin_history_cases(draw):
    N = draw(st.integers(1, 3))
    n = draw(st.integers(4, 48))
    lattice = draw(st.integers(0, 3)) == 0
    data = draw(data_rows(N, n, "lattice" if lattice else "clustered"))
    ops = []
    for _ in range(draw(st.integers(1, 4))):
        op = draw(twin_params(n))
        if lattice:
            # thresholds that coincide with occurring distances
            op["thr"] = draw(st.sampled_from([0.0, 1.0, 2.0, 1.0]))
        op["a"] = draw(st.integers(0, 2 ** 32 - 1))
        op["b"] = draw(st.integers(0, 2 ** 32 - 1))
        op["direct"] = draw(st.integers(0, 2)) == 0
        ops.append(op)
    if draw(st.integers(0, 3)) == 0:
        # small fluctuations on a large level (pressure in Pa): an exact
        # power-of-two rescaling of data and thresholds around 2**17, which
        # float64 represents exactly and single precision cannot resolve
        data = [[FINE_BASE + v * FINE_SCALE for v in row] for row in data]
        for op in ops:
            op["thr"] = op["thr"] * FINE_SCALE
        return {"data": data, "ops": ops, "fine": True}
    return {"data": data, "ops": ops}


@st.composite
def rp_twin_cases(draw):
    n = draw(st.one_of(st.integers(4, 40), st.integers(16, 56)))
    x = draw(clustered_row(n))
    dim = draw(st.sampled_from([1, 1, 2, 3]))
    tau = draw(st.integers(1, 3))
    if (dim - 1) * tau >= n - 1:
        dim = 1
    calls = []
    for _ in range(draw(st.integers(1, 3))):
        calls.append({"what": draw(st.sampled_from(["twins", "surrogates"])),
                      # below, at and above the default (7)
                      "min_dist": draw(st.sampled_from([0, 1, 2, 3, 7, 9, 12,
                                                        20])),
                      "n_surr": draw(st.integers(1, 3)),
                      "a": draw(st.integers(0, 2 ** 32 - 1)),
                      "b": draw(st.integers(0, 2 ** 32 - 1))})
    return {"x": x, "dim": dim, "tau": tau,
            "thr": draw(st.sampled_from(THRESHOLDS)), "calls": calls,
            "mode": draw(st.sampled_from(
                ["threshold", "threshold", "local_recurrence_rate",
                 "adaptive_neighborhood_size"]))}


@st.composite
def row_independence_cases(draw):
    kind = draw(st.sampled_from(["ints", "floats", "clustered"]))
    N = draw(st.integers(2, 4))
    n = draw(st.integers(3, 32))
    data = draw(data_rows(N, n, kind))
    repl = draw(data_rows(1, n, draw(st.sampled_from(["ints", "floats"]))))[0]
    call = draw(one_op(n, names=["white", "corr", "aaft", "aaft",
                                 "raaft_amp", "raaft_spec", "raaft_both"]))
    if call["iters"] == 0:
        call["iters"] = 1
    return {"data": data, "row": draw(st.sampled_from([0, 0, 1, 2, 3])),
            "replacement": repl, "call": call}


SUBCHECKS = [
    SubCheck("histories", oracle_history, gen=history_cases,
             quick=(6, 350), thorough=(8, 4000)),
    SubCheck("twin_histories", oracle_twin_history, gen=twin_history_cases,
             quick=(4, 250), thorough=(8, 2500)),
    SubCheck("rp_twins", oracle_rp_twins, gen=rp_twin_cases,
             quick=(4, 250), thorough=(8, 1500)),
    SubCheck("row_independence", oracle_row_independence,
             gen=row_independence_cases, quick=(4, 250), thorough=(8, 2500)),
]
