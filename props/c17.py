"""C17 - random models and rewirings keep their documented invariants.

Oracle = validity predicates (many outputs are correct): every clause is a
property every admissible output must have, computed by plain numpy from the
adjacency matrices before / after the call.  Nothing of the library's
kernels is reused; the only library values the oracle reads are the objects'
public state (adjacency, n_links, link_density, graph, node_weights, grid).

All library randomness is seeded from two integers per call stored in the
case (``pbt.seed_library_rngs``: numpy.random and Python's random, which is
igraph's generator).  Each case carries 1..3 seed pairs; every pair is run on
a fresh copy of the same input.

HANG RISKS (DESIGN 2.7).  ``_randomly_rewire_geomodel`` and
``_randomlyRewireCrossLinks`` draw proposals until one is accepted.  Both
moves are reversible (the reverse of an accepted swap fulfils the same
conditions: C1 / C2 / equal degrees are symmetric under the exchange, and the
two links just removed are absent), hence "an eligible proposal exists in
the initial state" implies one exists in every later state and the loop ends
with probability one after at most E^2 expected proposals per swap.  The
generators establish that precondition by construction (tolerance widened,
else iteration count set to 0) with the library's own float32 arithmetic; the
oracles re-check it on the real edge list before calling (a violated
precondition is a harness error, never a hang).  ``_randomlySetCrossLinks``
terminates iff the requested number is <= N1*N2 (the library clamps it).
In addition every such call runs under a DETERMINISTIC proposal budget
(``call_bounded``: the random draws of the kernel are counted; the budget is
25 x the worst-case expected number of proposals, swaps * E^2, which the
generators bound by 600 in the quick and 4000 in the thorough tier), so
that a tree in which a loop really does not end fails the clause
``*_call_terminates`` instead of running into the work-unit timeout.
"""
import contextlib
import io

import numpy as np
from hypothesis import strategies as st

from vp import pbt
from vp.pbt import SubCheck, HarnessError
from vp.gen import graphs as gg

PROPERTY = "C17"
RULE = ("cases = (operation, input network, parameters, 1..3 pairs of seed "
        "integers); operations: ErdosRenyi(n_links | link_probability), "
        "BarabasiAlbert, BarabasiAlbert_igraph, Configuration, WattsStrogatz, "
        "GrowWeights; Network.randomly_rewire (undirected and directed "
        "graphs, 0..40 iterations); randomly_rewire_geomodel_I/II/III "
        "(integer line / Manhattan / ring distances, dyadic random metrics, "
        "float32 euclidean grid distances; tolerances 2^-10 .. 1e30; 0..40 "
        "iterations with iterations * links^2 bounded); "
        "RandomlyRewireCrossLinks, RandomlySetCrossLinks and "
        "_sparse (two disjoint unsorted node lists plus untouched nodes; "
        "number / density / null model); set_random_links_by_distance "
        "(SpatialNetwork and GeoNetwork). Non-trivial = the output network "
        "differs from the input network for at least one seed (a swap "
        "happened / links were reassigned), for the generators: the graph "
        "has at least one link and one non-link; distinct = hash of the "
        "whole case (input, parameters and seeds).")
ASSUMPTIONS = [
    "geographical models and RandomlyRewireCrossLinks are exercised on "
    "undirected networks only (the kernels write both triangles of the "
    "adjacency matrix; no directed semantics is documented)",
    "distance matrices are symmetric with zero diagonal and float32-exact "
    "entries; the tolerance bound is checked as <= (the docstrings do not "
    "say whether it is attained), on float32 euclidean distances with a "
    "relative slack of 1e-6 for the float32 subtraction",
    "'p(l) conserved with inaccuracy eps' is formalised as: the sorted "
    "vector of link lengths moves by at most iterations*eps in the sup "
    "norm (each accepted swap replaces two lengths by two lengths within "
    "eps of them); models II/III: the same per node (this implies the "
    "documented conservation of the mean link length per node within "
    "iterations*eps); model III: the multiset of end-degree pairs of links "
    "is unchanged",
    "termination preconditions are established by the generator (see module "
    "docstring); cases where no swap is eligible run with 0 iterations",
    "Configuration: degree sequences with even sum (igraph rejects odd "
    "sums); WattsStrogatz link count N*k is required for N >= 2k+1 only; "
    "BarabasiAlbert for n_nodes > n_links_each",
    "cross-link density request d: the number of cross links c must satisfy "
    "c <= d*N1*N2 < c+1 up to 1e-9; when d was formed as k/(N1*N2) exactly "
    "k links are required",
]

U32 = 2 ** 32 - 1


# ===================================================================== utils

def _quiet(fn, *a, **k):
    """tqdm (GrowWeights) writes to stderr."""
    with contextlib.redirect_stderr(io.StringIO()):
        return fn(*a, **k)


def _dense(A):
    return A.toarray() if hasattr(A, "toarray") else np.asarray(A)


def _adj(g):
    return gg.adj(g).astype(np.int8)


def check_raw(rec, A, tag, n):
    """Adjacency matrix returned by a model generator is a simple graph."""
    A = _dense(A)
    if not rec.check(A.shape == (n, n), tag + "_shape",
                     "shape %s, expected (%d,%d)" % (A.shape, n, n)):
        return None
    rec.check(bool(np.isin(A, (0, 1)).all()), tag + "_adjacency_binary",
              "values %s" % np.unique(A)[:6])
    rec.check(not np.diagonal(A).any(), tag + "_no_self_loops")
    rec.check(bool((A == A.T).all()), tag + "_adjacency_symmetric")
    return (A != 0).astype(np.int8)


def check_object(rec, net, tag, n, directed, symmetric=None):
    """Network object is a simple graph whose redundant state agrees."""
    A = np.asarray(net.adjacency)
    ok = rec.check(A.shape == (n, n) and int(net.N) == n,
                   tag + "_node_count_kept",
                   "adjacency %s N=%s, expected %d nodes" % (A.shape, net.N,
                                                             n))
    if not ok:
        return None
    rec.check(bool(np.isin(A, (0, 1)).all()), tag + "_adjacency_binary",
              "values %s" % np.unique(A)[:6])
    rec.check(not np.diagonal(A).any(), tag + "_no_self_loops")
    if symmetric is None:
        symmetric = not directed
    if symmetric:
        rec.check(bool((A == A.T).all()), tag + "_adjacency_symmetric")
    rec.check(bool(net.directed) == bool(directed),
              tag + "_directed_flag_kept")
    B = A != 0
    nnz = int(B.sum())
    nl = nnz if directed else int(np.triu(B | B.T, 1).sum())
    rec.check(int(net.n_links) == nl, tag + "_n_links_consistent",
              "n_links=%s, adjacency has %d" % (net.n_links, nl))
    if n > 1:
        rec.close(float(net.link_density), nnz / float(n * (n - 1)),
                  tag + "_link_density_consistent", rtol=1e-12)
    g = net.graph
    el = [tuple(e) for e in g.get_edgelist()]
    if directed:
        want = sorted((int(i), int(j)) for i, j in zip(*np.nonzero(B)))
        got = sorted(el)
    else:
        want = sorted((int(i), int(j)) for i, j in zip(*np.nonzero(B | B.T))
                      if i < j)
        got = sorted(tuple(sorted(e)) for e in el)
    rec.check(g.vcount() == n and bool(g.is_directed()) == bool(directed)
              and got == want, tag + "_igraph_graph_consistent",
              "vcount=%d directed=%s edges=%s adjacency=%s" % (
                  g.vcount(), g.is_directed(), got[:8], want[:8]))
    # cached degree must be that of the current adjacency
    if directed:
        ok1, di = rec.call(tag + "_indegree", net.indegree)
        ok2, do = rec.call(tag + "_outdegree", net.outdegree)
        if ok1 and ok2:
            rec.check(np.array_equal(di, B.sum(axis=0)) and
                      np.array_equal(do, B.sum(axis=1)),
                      tag + "_degree_method_current")
    else:
        ok1, d = rec.call(tag + "_degree", net.degree)
        if ok1:
            rec.check(np.array_equal(d, B.sum(axis=1)),
                      tag + "_degree_method_current",
                      "degree()=%s adjacency=%s" % (d, B.sum(axis=1)))
    return B.astype(np.int8)


class NoTermination(Exception):
    pass


def call_bounded(rec, clause, budget, fn, *a, **k):
    """rec.call with a DETERMINISTIC watchdog for the kernels that draw
    random proposals until one is accepted: the draws of numpy.random.random
    (geomodel kernel, sparse cross-link loop) and of the numerics module's
    randint (cross-link kernels) are counted during the call; more than
    ``budget`` draws fail ``clause + "_terminates"``.  The generators bound
    swaps * E^2 and the budget is 50 x that (2 draws per proposal, 25 x the
    worst-case expectation of a geometric waiting time with success
    probability >= 1/E^2): a false alarm has probability < 1e-10.  The
    random stream itself is untouched (the wrappers forward every call)."""
    import numpy.random as rd
    from pyunicorn.core._ext import numerics
    count = [0]

    def wrap(orig):
        def f(*aa, **kk):
            count[0] += 1
            if count[0] > budget:
                raise NoTermination(
                    "more than %d random proposals drawn although the "
                    "termination precondition holds" % budget)
            return orig(*aa, **kk)
        return f
    o1, o2 = rd.random, numerics.randint
    rd.random, numerics.randint = wrap(o1), wrap(o2)
    try:
        ok, v = rec.call(clause, fn, *a, allowed=(NoTermination,), **k)
    finally:
        rd.random, numerics.randint = o1, o2
    if not ok and isinstance(v, NoTermination):
        rec.fail(clause + "_terminates", str(v))
    return ok, v


def seeds_st(max_size=3):
    pair = st.tuples(st.integers(0, U32), st.integers(0, U32)).map(list)
    return st.lists(pair, min_size=1, max_size=max_size)


# ============================================================ model generators

def oracle_models(case, rec):
    from pyunicorn.core.network import Network
    op = case["op"]
    rec.label("op:" + op)
    nt = False
    for sa, sb in case["seeds"]:
        if op == "grow_weights":
            _grow_weights(case, rec, Network, sa, sb)
            nt = True
            continue
        n = case["n"]
        pbt.seed_library_rngs(sa, sb)
        if op == "er_links":
            mname, mkw = "ErdosRenyi", dict(n_nodes=n, n_links=case["m"],
                                            silence_level=3)
        elif op == "er_prob":
            mname, mkw = "ErdosRenyi", dict(
                n_nodes=n, link_probability=case["p"], silence_level=3)
        elif op == "ba":
            mname, mkw = "BarabasiAlbert", dict(n_nodes=n,
                                                n_links_each=case["m"])
        elif op == "ba_igraph":
            mname, mkw = "BarabasiAlbert_igraph", dict(
                n_nodes=n, n_links_each=case["m"])
        elif op == "config":
            deg = list(case["degree"])
            arg = np.array(deg) if case.get("as_array") else list(deg)
            keep = np.array(arg).copy()
            mname, mkw = "Configuration", dict(degree=arg)
        elif op == "ws":
            mname, mkw = "WattsStrogatz", dict(N=n, k=case["k"], p=case["p"])
        else:
            raise HarnessError("unknown op %r" % op)
        ok, A = rec.call(op + "_call", getattr(Network, mname), **mkw)
        if op == "config":
            rec.check(np.array_equal(np.array(arg), keep),
                      "config_caller_degree_sequence_untouched")
        if not ok:
            continue
        B = check_raw(rec, A, op, n)
        if B is None:
            continue
        links = int(np.triu(B, 1).sum())
        deg_out = B.sum(axis=1)
        if 0 < links < n * (n - 1) // 2:
            nt = True
        if op == "er_links":
            rec.check(links == case["m"], "er_links_exact_link_count",
                      "requested %d, got %d" % (case["m"], links))
        elif op == "er_prob":
            if case["p"] == 0:
                rec.check(links == 0, "er_prob_zero_gives_no_links")
            if case["p"] == 1:
                rec.check(links == n * (n - 1) // 2,
                          "er_prob_one_gives_complete_graph")
        elif op == "ba":
            m = case["m"]
            rec.check(links == m * (n - m), "ba_exact_link_count",
                      "n=%d m=%d: %d links, documented %d" % (
                          n, m, links, m * (n - m)))
            new = [int(B[j, :j].sum()) for j in range(m + 1, n)]
            rec.check(all(v == m for v in new),
                      "ba_each_new_node_links_to_m_existing_nodes",
                      "links to earlier nodes: %s" % new)
        elif op == "ba_igraph":
            rec.check(links <= case["m"] * (n - 1),
                      "ba_igraph_at_most_m_links_per_new_node",
                      "links=%d" % links)
        elif op == "config":
            rec.check(bool((deg_out <= np.array(case["degree"])).all()),
                      "config_never_exceeds_requested_degrees",
                      "requested %s got %s" % (case["degree"],
                                               deg_out.tolist()))
        elif op == "ws":
            k = case["k"]
            if n >= 2 * k + 1:
                rec.check(links == n * k, "ws_link_count_N_times_k",
                          "links=%d, N*k=%d" % (links, n * k))
                if case["p"] == 0:
                    ring = np.zeros((n, n), dtype=np.int8)
                    for i in range(n):
                        for d in range(1, k + 1):
                            ring[i, (i + d) % n] = ring[(i + d) % n, i] = 1
                    rec.equal(B, ring, "ws_p0_is_ring_lattice")
        # Network.Model(name, **kwargs) wraps the same adjacency matrix (same
        # seeds -> same draw) into a consistent Network object
        pbt.seed_library_rngs(sa, sb)
        ok, net = rec.call(op + "_Network_Model", Network.Model, mname, **mkw)
        if ok:
            B2 = check_object(rec, net, op + "_net", n, False)
            if B2 is not None:
                rec.equal(B2, B, op + "_net_adjacency_is_model_adjacency")
    rec.nontrivial(nt)


def _grow_weights(case, rec, Network, sa, sb):
    n = case["n"]
    kw = dict(n_nodes=n, n_initials=case["n_initials"],
              exponent=case["exponent"], mode=case["mode"],
              split_prob=case["split_prob"],
              split_weight=case["split_weight"], beta=case["beta"])
    if case.get("n_increases") is not None:
        kw["n_increases"] = case["n_increases"]
    pbt.seed_library_rngs(sa, sb)
    ok, w = rec.call("grow_weights_call", _quiet, Network.GrowWeights, **kw)
    if not ok:
        return
    w = np.asarray(w, dtype=float)
    if not rec.check(w.shape == (n,), "grow_weights_one_weight_per_node",
                     "shape %s" % (w.shape,)):
        return
    rec.check(bool(np.isfinite(w).all() and (w >= 0).all()),
              "grow_weights_finite_nonnegative", "w=%s" % w)
    # every increase adds one unit, a split conserves the weight
    s = float(w.sum())
    rec.check(abs(s - round(s)) <= 1e-9 * max(1.0, s)
              and round(s) >= case["n_initials"],
              "grow_weights_total_is_initial_plus_increases", "sum=%r" % s)
    if case.get("n_increases") is not None:
        rec.check(round(s) <= case["n_initials"] + case["n_increases"],
                  "grow_weights_respects_n_increases", "sum=%r" % s)
        if (w == 0).any():
            rec.check(round(s) == case["n_initials"] + case["n_increases"],
                      "grow_weights_respects_n_increases", "sum=%r" % s)


@st.composite
def model_cases(draw):
    op = draw(st.sampled_from(["er_links", "er_links", "er_prob", "ba", "ba",
                               "ba_igraph", "config", "config", "ws", "ws",
                               "grow_weights"]))
    case = {"op": op, "seeds": draw(seeds_st(3))}
    if op == "grow_weights":
        n = draw(st.integers(2, 10))
        case.update(n=n, n_initials=draw(st.integers(1, n)),
                    exponent=draw(st.sampled_from([0, 0.5, 1, 2])),
                    mode=draw(st.sampled_from(["exp", "rec"])),
                    split_prob=draw(st.sampled_from([0.25, 0.5, 0.75])),
                    split_weight=draw(st.sampled_from([1, 2, 4])),
                    beta=draw(st.sampled_from([0.5, 1.0, 2.0])),
                    n_increases=draw(st.one_of(st.none(),
                                               st.integers(0, 12))))
        return case
    n = draw(st.integers(2, 16))
    case["n"] = n
    if op == "er_links":
        full = n * (n - 1) // 2
        case["m"] = draw(st.one_of(st.integers(0, full),
                                   st.sampled_from([0, full, full - 1 if full
                                                    else 0])))
    elif op == "er_prob":
        case["p"] = draw(st.sampled_from([0, 1, 0.125, 0.25, 0.5, 0.75,
                                          0.9375]))
    elif op == "ba":
        case["m"] = draw(st.integers(1, min(n - 1, 5)))
    elif op == "ba_igraph":
        case["m"] = draw(st.integers(1, 5))
    elif op == "config":
        deg = draw(st.lists(st.integers(0, n + 1), min_size=n, max_size=n))
        if sum(deg) % 2:
            i = draw(st.integers(0, n - 1))
            deg[i] += 1 if deg[i] == 0 else -1
        case["degree"] = deg
        case["as_array"] = draw(st.booleans())
    elif op == "ws":
        case["k"] = draw(st.integers(1, 4))
        case["p"] = draw(st.sampled_from([0, 0, 0.125, 0.5, 0.875, 1]))
    return case


# ============================================================ randomly_rewire

def oracle_rewire(case, rec):
    from pyunicorn.core.network import Network
    g = case["graph"]
    n, directed = g["n"], g["directed"]
    A0 = _adj(g)
    w = case.get("weights")
    it = case["iterations"]
    rec.label("directed" if directed else "undirected")
    rec.label("iterations=0" if it == 0 else
              ("iterations<=3" if it <= 3 else "iterations>3"))
    # (repaired in /repo abcd2ff: a last node without links used to be
    # dropped because the node count was re-derived from the edge list)
    tot = A0.sum(axis=0) + A0.sum(axis=1)
    rec.label("last_node_isolated" if tot[n - 1] == 0 else "last_node_linked")
    suf = ""
    changed = False
    for sa, sb in case["seeds"]:
        Ain = A0.copy()
        ok, net = rec.call("rewire_construct", Network, adjacency=Ain,
                           directed=directed, node_weights=w, silence_level=3)
        if not ok:
            return
        net.degree()                      # populate the cache
        w0 = np.array(net.node_weights, dtype=float)
        pbt.seed_library_rngs(sa, sb)
        ok, _ = rec.call("rewire_call" + suf, net.randomly_rewire, it)
        if not ok:
            continue
        B = check_object(rec, net, "rewire", n, directed)
        if B is None:
            continue
        rec.check(np.array_equal(B.sum(axis=1), A0.sum(axis=1)) and
                  np.array_equal(B.sum(axis=0), A0.sum(axis=0)),
                  "rewire_degree_sequence_preserved" + suf,
                  "before out=%s in=%s after out=%s in=%s" % (
                      A0.sum(axis=1), A0.sum(axis=0), B.sum(axis=1),
                      B.sum(axis=0)))
        rec.check(np.array_equal(np.asarray(net.node_weights, dtype=float),
                                 w0), "rewire_node_weights_untouched" + suf)
        rec.check(np.array_equal(Ain, A0),
                  "rewire_caller_adjacency_untouched" + suf)
        if it == 0:
            rec.equal(B, A0, "rewire_zero_iterations_identity" + suf)
        if not np.array_equal(B, A0):
            changed = True
    rec.label("changed" if changed else "unchanged")
    rec.nontrivial(changed)


@st.composite
def rewire_cases(draw):
    g = draw(st.one_of(moderate_graph(5, 12), moderate_graph(5, 10, True),
                       gg.any_graphs(2, 12)))
    n = g["n"]
    w = draw(st.one_of(st.none(), gg.node_weights(n)))
    it = draw(st.sampled_from([5, 1, 13, 2, 3, 0, 8, 21, 40]))
    return {"graph": g, "weights": w, "iterations": it,
            "seeds": draw(seeds_st(3))}


# ======================================================= geographical models

def swap_needs(A, D, model, edges):
    """For every ordered pair of links ((s,t),(k,l)) that is structurally
    admissible (four distinct nodes, s-l and t-k not linked, model III:
    deg s == deg k and deg t == deg l) the smallest tolerance bound the
    library's length condition C1 (model I) / C2 (II, III) needs, evaluated
    in the library's own float32 arithmetic: the pair is accepted iff
    need < float32(eps).  Used ONLY to establish / guard the termination
    precondition, never as an oracle."""
    D = np.asarray(D, dtype=np.float32)
    deg = A.sum(axis=1)
    S, T, K, L = [], [], [], []
    for (s, t) in edges:
        for (k, l) in edges:
            if s in (k, l) or t in (k, l) or A[s, l] or A[t, k]:
                continue
            if model == "III" and not (deg[s] == deg[k] and deg[t] == deg[l]):
                continue
            S.append(s), T.append(t), K.append(k), L.append(l)
    if not S:
        return np.zeros(0, dtype=np.float32)
    S, T, K, L = map(np.array, (S, T, K, L))

    def gap(a, b, c, d):                 # |D[a,b] - D[c,d]| in float32
        return np.abs(D[a, b] - D[c, d])
    if model == "I":
        return np.minimum(np.maximum(gap(S, T, K, T), gap(K, L, S, L)),
                          np.maximum(gap(S, T, S, L), gap(K, L, K, T)))
    return np.maximum(np.maximum(gap(S, T, S, L), gap(T, S, T, K)),
                      np.maximum(gap(K, L, K, T), gap(L, K, L, S)))


def eligible_count(needs, eps):
    return int((needs < np.float32(eps)).sum())


def _geo_D(case):
    """Explicit distance matrix of a case (None = use grid.distance())."""
    kind = case["dist"]
    pos = np.array(case["pos"], dtype=float)      # 2 x n
    n = pos.shape[1]
    if kind == "line":
        return np.abs(pos[0][:, None] - pos[0][None, :])
    if kind == "manhattan":
        return np.abs(pos[0][:, None] - pos[0][None, :]) + \
            np.abs(pos[1][:, None] - pos[1][None, :])
    if kind == "ring":
        d = np.abs(pos[0][:, None] - pos[0][None, :])
        return np.minimum(d, n - d)
    if kind == "matrix":
        return np.array(case["D"], dtype=float)
    return None                                    # "euclid"


def _link_lengths(B, D):
    iu = np.triu_indices(len(B), 1)
    sel = B[iu] != 0
    return np.sort(D[iu][sel].astype(float))


def oracle_geomodel(case, rec):
    from pyunicorn.core.spatial_network import SpatialNetwork
    from pyunicorn.core.grid import Grid
    g = case["graph"]
    n = g["n"]
    A0 = _adj(g)
    model, eps, it = case["model"], case["eps"], case["iterations"]
    exact = case["dist"] != "euclid"
    pos = np.array(case["pos"], dtype=float)
    rec.label("model_" + model)
    rec.label("dist:" + case["dist"])
    rec.label("iterations=0" if it == 0 else
              ("iterations<=3" if it <= 3 else "iterations>3"))
    rec.label("eps:" + ("tiny" if eps < 0.1 else
                        ("huge" if eps > 100 else "moderate")))
    tag = "geo" + model
    changed = False
    for sa, sb in case["seeds"]:
        grid = Grid(np.arange(2.0), pos.copy(), silence_level=3)
        Ain = A0.copy()
        ok, net = rec.call(tag + "_construct", SpatialNetwork, grid=grid,
                           adjacency=Ain, directed=False, silence_level=3)
        if not ok:
            return
        net.degree()
        D = _geo_D(case)
        if D is None:
            ok, D = rec.call(tag + "_grid_distance", net.grid.distance)
            if not ok:
                return
            D = np.array(D)
        D32 = np.asarray(D, dtype=np.float32)
        Dd = D32.astype(float)
        Darg = D32.copy() if case.get("d_float32") else Dd.copy()
        Dkeep = Darg.copy()
        space0 = np.array(net.grid.sequence(0)), np.array(net.grid.sequence(1))
        w0 = np.array(net.node_weights, dtype=float)
        if it > 0:
            edges = [tuple(e) for e in net.graph.get_edgelist()]
            if eligible_count(swap_needs(A0, D32, model, edges), eps) == 0:
                raise HarnessError("geomodel case without eligible swap: the "
                                   "call would not terminate")
        pbt.seed_library_rngs(sa, sb)
        # known-finding region KF-C17-3: network without links
        E = int(np.triu(A0, 1).sum())
        ok, _ = call_bounded(
            rec, tag + "_call" + ("" if A0.any() else "__edgeless_network"),
            50 * it * E * E + 1000,
            getattr(net, "randomly_rewire_geomodel_" + model),
            distance_matrix=Darg, iterations=it, inaccuracy=eps)
        if not ok:
            continue
        B = check_object(rec, net, tag, n, False)
        if B is None:
            continue
        rec.check(np.array_equal(B.sum(axis=1), A0.sum(axis=1)),
                  tag + "_degree_sequence_preserved",
                  "before %s after %s" % (A0.sum(axis=1), B.sum(axis=1)))
        rec.check(np.array_equal(Darg, Dkeep),
                  tag + "_caller_distance_matrix_untouched")
        rec.check(np.array_equal(Ain, A0),
                  tag + "_caller_adjacency_untouched")
        rec.check(np.array_equal(np.asarray(net.node_weights, float), w0) and
                  np.array_equal(net.grid.sequence(0), space0[0]) and
                  np.array_equal(net.grid.sequence(1), space0[1]),
                  tag + "_node_weights_and_grid_untouched")
        if it == 0:
            rec.equal(B, A0, tag + "_zero_iterations_identity")
        if not np.array_equal(B, A0):
            changed = True
        # ---- link length distribution within the stated inaccuracy
        bound = it * float(np.float32(eps))
        if not exact:
            bound = bound * (1 + 1e-6)

        def within(l0, l1):
            # "<=": the docstrings do not say whether the inaccuracy bound
            # is attained (the kernel uses "<")
            if len(l0) != len(l1):
                return False
            if len(l0) == 0 or it == 0:
                return bool(np.array_equal(l0, l1))
            return bool(np.abs(l0 - l1).max() <= bound)
        L0, L1 = _link_lengths(A0, Dd), _link_lengths(B, Dd)
        rec.check(within(L0, L1),
                  tag + "_sorted_link_lengths_within_iterations_times_eps",
                  lambda: "iterations=%d eps=%r before=%s after=%s" % (
                      it, eps, L0[:10], L1[:10]))
        if model in ("II", "III") and np.array_equal(B.sum(1), A0.sum(1)):
            bad = [v for v in range(n)
                   if not within(np.sort(Dd[v][A0[v] != 0]),
                                 np.sort(Dd[v][B[v] != 0]))]
            rec.check(not bad,
                      tag + "_per_node_link_lengths_within_iterations_times_"
                      "eps", lambda: "nodes %s: before %s after %s" % (
                          bad, np.sort(Dd[bad[0]][A0[bad[0]] != 0]),
                          np.sort(Dd[bad[0]][B[bad[0]] != 0])))
        if model == "III":
            deg = A0.sum(axis=1)

            def pairs(M):
                return sorted(tuple(sorted((int(deg[i]), int(deg[j]))))
                              for i, j in zip(*np.nonzero(np.triu(M, 1))))
            rec.check(pairs(A0) == pairs(B),
                      "geoIII_degree_pairs_of_links_preserved",
                      lambda: "before %s after %s" % (pairs(A0)[:12],
                                                      pairs(B)[:12]))
        # ---- the same object rewired again after its links were replaced
        # through the public setter by another graph with as many links
        # (here: the current graph with its node numbers reversed)
        if it > 0 and (sa, sb) == tuple(case["seeds"][0]):
            C = B[::-1, ::-1].copy()
            ok, _ = rec.call(tag + "_assign_adjacency", setattr, net,
                             "adjacency", C.copy())
            if ok:
                edges2 = [tuple(e) for e in net.graph.get_edgelist()]
                if eligible_count(swap_needs(C, D32, model, edges2), eps):
                    pbt.seed_library_rngs(sb, sa)
                    E2 = int(np.triu(C, 1).sum())
                    ok, _ = call_bounded(
                        rec, tag + "_call_after_new_adjacency",
                        50 * it * E2 * E2 + 1000,
                        getattr(net, "randomly_rewire_geomodel_" + model),
                        distance_matrix=Dd.copy(), iterations=it,
                        inaccuracy=eps)
                    if ok:
                        rec.label("rewired_again_after_new_adjacency")
                        B2 = check_object(rec, net, tag + "_second", n, False)
                        if B2 is not None:
                            rec.check(np.array_equal(B2.sum(axis=1),
                                                     C.sum(axis=1)),
                                      tag + "_degree_sequence_preserved_after"
                                      "_new_adjacency",
                                      "before %s after %s" % (
                                          C.sum(axis=1), B2.sum(axis=1)))
    rec.label("changed" if changed else "unchanged")
    rec.nontrivial(changed)


@st.composite
def regularish_graph(draw, n_min=4, n_max=10):
    """Circulant graphs (all degrees equal), optionally with one link
    toggled, randomly relabelled: many pairs of links with equal end
    degrees (model III needs them)."""
    n = draw(st.integers(n_min, n_max))
    steps = draw(st.lists(st.integers(1, n // 2), min_size=1, max_size=2,
                          unique=True))
    E = set()
    for i in range(n):
        for s in steps:
            a, b = i, (i + s) % n
            if a != b:
                E.add((min(a, b), max(a, b)))
    if draw(st.integers(0, 2)) == 0:
        a = draw(st.integers(0, n - 2))
        b = draw(st.integers(a + 1, n - 1))
        E ^= {(a, b)}
    perm = draw(st.permutations(list(range(n))))
    E = sorted({tuple(sorted((perm[a], perm[b]))) for a, b in E})
    return {"n": n, "directed": False, "edges": [list(e) for e in E]}


@st.composite
def moderate_graph(draw, n_min=5, n_max=10, directed=False):
    """Random graph of moderate density: pairs of disjoint links whose
    crossing pairs are unlinked (rewiring candidates) are plentiful."""
    n = draw(st.integers(n_min, n_max))
    pairs = [(i, j) for i in range(n) for j in range(n)
             if (i != j if directed else i < j)]
    thr = draw(st.integers(15, 60))
    bits = draw(st.lists(st.integers(0, 99), min_size=len(pairs),
                         max_size=len(pairs)))
    return {"n": n, "directed": directed,
            "edges": [[i, j] for (i, j), b in zip(pairs, bits) if b < thr]}


EPS_CHOICES = [2.0 ** -10, 0.125, 0.25, 0.5, 1.0, 1.0 + 2.0 ** -10, 1.5, 2.0,
               3.0, 1e3, 1e30]


@st.composite
def geo_cases(draw, n_max=10, work=600):
    model = draw(st.sampled_from(["I", "II", "III"]))
    pick = draw(st.integers(0, 9))
    if pick < (4 if model == "III" else 2):
        g = draw(regularish_graph(6, n_max))
    elif pick < 9:
        g = draw(moderate_graph(6, n_max))
    else:
        g = draw(gg.graphs(4, n_max))
    n = g["n"]
    dist = draw(st.sampled_from(["line", "line", "manhattan", "ring",
                                 "matrix", "euclid"]))
    case = {"graph": g, "model": model, "dist": dist,
            "d_float32": draw(st.booleans())}
    if dist == "ring":
        pos = [draw(st.permutations(list(range(n)))), [0] * n]
    elif dist == "line":
        hi = draw(st.sampled_from([3, n, 2 * n]))
        pos = [draw(st.lists(st.integers(0, hi), min_size=n, max_size=n)),
               [0] * n]
    else:
        hi = draw(st.sampled_from([2, 3, 5]))
        pos = [draw(st.lists(st.integers(0, hi), min_size=n, max_size=n)),
               draw(st.lists(st.integers(0, hi), min_size=n, max_size=n))]
    case["pos"] = [list(map(int, pos[0])), list(map(int, pos[1]))]
    if dist == "matrix":
        # random metric: entries in [1, 2] step 1/8 always obey the
        # triangle inequality
        m = n * (n - 1) // 2
        vals = draw(st.lists(st.integers(8, 16), min_size=m, max_size=m))
        D = np.zeros((n, n))
        D[np.triu_indices(n, 1)] = np.array(vals) / 8.0
        case["D"] = (D + D.T).tolist()
    it = draw(st.sampled_from([1, 2, 1, 3, 1, 0, 2, 5, 8, 13, 21, 40]))
    # ---- termination precondition: an eligible swap exists
    A = _adj(g)
    D = _geo_D(case)
    margin = 1.0
    if D is None:
        p = np.array(case["pos"], dtype=np.float32)
        D = np.sqrt(((p[:, :, None] - p[:, None, :]) ** 2).sum(axis=0)
                    ).astype(np.float32)
        # the library's own distance kernel may round differently: demand
        # eligibility with a safety margin on eps
        margin = 1 - 1e-3
    edges = [tuple(e) for e in g["edges"]]
    # eligibility is monotone in eps: the admissible tolerances are a tail
    # of the list; draw mostly among the smallest admissible ones
    needs = swap_needs(A, D, model, edges)
    ok_eps = [e for e in EPS_CHOICES if eligible_count(needs, e * margin)]
    if not ok_eps:
        eps = draw(st.sampled_from(EPS_CHOICES))
        it = 0
    elif it == 0:
        eps = draw(st.sampled_from(EPS_CHOICES))
    else:
        # (a tight tolerance and few swaps make the length clauses sharp)
        eps = draw(st.one_of(st.just(ok_eps[0]), st.sampled_from(ok_eps[:3]),
                             st.sampled_from(ok_eps)))
        # bound the expected number of proposals (E^2 / eligible per swap)
        el = eligible_count(needs, eps * margin)
        per = len(edges) ** 2 / float(max(1, el))
        it = int(max(1, min(it, 40000 // max(1.0, per),
                            work // max(1, len(edges) ** 2))))
    case["eps"] = float(eps)
    case["iterations"] = int(it)
    case["seeds"] = draw(seeds_st(3))
    return case


# ========================================================== cross-link models

@st.composite
def partitioned_graph(draw, n_min=3, n_max=12, directed=False, sizes=None,
                      thr_x=st.integers(0, 100)):
    """Graph with two disjoint node lists in arbitrary order (plus nodes in
    neither list); internal / cross / other link densities drawn
    separately."""
    if sizes is None:
        n = draw(st.integers(n_min, n_max))
        n1 = draw(st.integers(1, n - 1))
        n2 = draw(st.integers(1, n - n1))
    else:
        n1, n2 = sizes
        n = n1 + n2 + draw(st.integers(0, 2))
    perm = draw(st.permutations(list(range(n))))
    l1, l2 = list(perm[:n1]), list(perm[n1:n1 + n2])
    grp = {}
    for v in l1:
        grp[v] = 1
    for v in l2:
        grp[v] = 2
    thr_int = draw(st.integers(0, 100))
    thr_x = draw(thr_x)
    pairs = [(i, j) for i in range(n) for j in range(n)
             if (i != j if directed else i < j)]
    bits = draw(st.lists(st.integers(0, 99), min_size=len(pairs),
                         max_size=len(pairs)))
    edges = []
    for (i, j), b in zip(pairs, bits):
        cross = {grp.get(i), grp.get(j)} == {1, 2}
        if b < (thr_x if cross else thr_int):
            edges.append([i, j])
    return {"n": n, "directed": directed, "edges": edges}, \
        [int(v) for v in l1], [int(v) for v in l2]


def _outside_mask(n, l1, l2):
    M = np.ones((n, n), dtype=bool)
    M[np.ix_(l1, l2)] = False
    M[np.ix_(l2, l1)] = False
    return M


def _input_untouched(rec, net, A0, w0, el0, tag):
    rec.check(np.array_equal(np.asarray(net.adjacency), A0) and
              np.array_equal(np.asarray(net.node_weights, float), w0) and
              [tuple(e) for e in net.graph.get_edgelist()] == el0 and
              int(net.N) == len(A0),
              tag + "_input_network_untouched")


def xrewire_eligible(C):
    """Number of ordered pairs of cross links (a,b),(c,d) with (a,d) and
    (c,b) both absent."""
    links = list(zip(*np.nonzero(C)))
    return sum(1 for (a, b) in links for (c, d) in links
               if not C[a, d] and not C[c, b])


def oracle_cross_rewire(case, rec):
    from pyunicorn.core.interacting_networks import InteractingNetworks
    g, l1, l2 = case["graph"], case["list1"], case["list2"]
    n = g["n"]
    A0 = _adj(g)
    C0 = A0[np.ix_(l1, l2)]
    ncl = int(C0.sum())
    swaps = case["swaps"]
    nswaps = int(np.int32(swaps * ncl))
    rec.label("swaps=0" if nswaps == 0 else
              ("swaps<=3" if nswaps <= 3 else "swaps>3"))
    rec.label("outside_nodes" if len(l1) + len(l2) < n else "bipartition")
    if nswaps > 0 and xrewire_eligible(C0) == 0:
        raise HarnessError("cross rewiring case without eligible pair: the "
                           "call would not terminate")
    out_mask = _outside_mask(n, l1, l2)
    changed = False
    for sa, sb in case["seeds"]:
        ok, net = rec.call("xrewire_construct", InteractingNetworks,
                           adjacency=A0.copy(), directed=False,
                           node_weights=case.get("weights"), silence_level=3)
        if not ok:
            return
        net.degree()
        w0 = np.array(net.node_weights, dtype=float)
        el0 = [tuple(e) for e in net.graph.get_edgelist()]
        if case.get("as_array"):
            a1, a2 = np.array(l1), np.array(l2)
        else:
            a1, a2 = list(l1), list(l2)
        cd1 = np.array(net.cross_degree(a1, a2))
        cd2 = np.array(net.cross_degree(a2, a1))
        pbt.seed_library_rngs(sa, sb)
        ok, out = call_bounded(
            rec, "xrewire_call", 50 * nswaps * ncl * ncl + 1000,
            InteractingNetworks.RandomlyRewireCrossLinks,
            network=net, node_list1=a1, node_list2=a2, swaps=swaps)
        if not ok:
            continue
        rec.check(list(a1) == list(l1) and list(a2) == list(l2),
                  "xrewire_caller_node_lists_untouched")
        _input_untouched(rec, net, A0, w0, el0, "xrewire")
        B = check_object(rec, out, "xrewire", n, False)
        if B is None:
            continue
        C1 = B[np.ix_(l1, l2)]
        rec.check(np.array_equal(C1.sum(axis=1), C0.sum(axis=1)),
                  "xrewire_cross_degree_of_list1_preserved",
                  "before %s after %s" % (C0.sum(axis=1), C1.sum(axis=1)))
        rec.check(np.array_equal(C1.sum(axis=0), C0.sum(axis=0)),
                  "xrewire_cross_degree_of_list2_preserved",
                  "before %s after %s" % (C0.sum(axis=0), C1.sum(axis=0)))
        ok1, c1 = rec.call("xrewire_cross_degree_method", out.cross_degree,
                           a1, a2)
        ok2, c2 = rec.call("xrewire_cross_degree_method", out.cross_degree,
                           a2, a1)
        if ok1 and ok2:
            rec.check(np.array_equal(c1, cd1) and np.array_equal(c2, cd2),
                      "xrewire_cross_degree_method_unchanged")
        rec.check(np.array_equal(B.sum(axis=1), A0.sum(axis=1)),
                  "xrewire_degree_sequence_preserved",
                  "before %s after %s" % (A0.sum(axis=1), B.sum(axis=1)))
        rec.check(np.array_equal(B[out_mask], A0[out_mask]),
                  "xrewire_links_outside_cross_block_untouched")
        for nm, lst in (("1", l1), ("2", l2)):
            ok1, ia = rec.call("xrewire_internal_adjacency",
                               out.internal_adjacency, lst)
            if ok1:
                rec.equal(ia, A0[np.ix_(lst, lst)],
                          "xrewire_internal_adjacency_of_list%s_preserved"
                          % nm)
        rec.check(np.array_equal(np.asarray(out.node_weights, float), w0),
                  "xrewire_node_weights_carried_over")
        if nswaps == 0:
            rec.equal(B, A0, "xrewire_zero_swaps_identity")
        if not np.array_equal(B, A0):
            changed = True
    rec.label("changed" if changed else "unchanged")
    rec.nontrivial(changed)


SWAPS = [1.0, 0.5, 2.0, 0.0, 0.25, 1.0, 2.0, 5.0, 10.0]


@st.composite
def cross_rewire_cases(draw, work=600):
    if draw(st.integers(0, 4)) == 0:
        g, l1, l2 = draw(partitioned_graph(4, 12, False))
    else:
        # groups of >= 2 nodes and a cross block that is neither empty nor
        # full: eligible pairs of cross links exist almost always
        sizes = (draw(st.integers(3, 6)), draw(st.integers(3, 6)))
        g, l1, l2 = draw(partitioned_graph(directed=False, sizes=sizes,
                                           thr_x=st.integers(20, 65)))
    A = _adj(g)
    C = A[np.ix_(l1, l2)]
    ncl = int(C.sum())
    swaps = draw(st.sampled_from(SWAPS))
    if draw(st.integers(0, 3)) == 0 and ncl:
        swaps = 1.0 / ncl * draw(st.integers(1, 3))   # 1..3 swaps exactly
        if int(np.int32(swaps * ncl)) < 1:
            swaps = 1.0
    if ncl and swaps * ncl > 80:
        swaps = 80.0 / ncl
    if ncl and swaps * ncl * ncl * ncl > work and swaps * ncl >= 2:
        # bound swaps * ncl^2 (worst-case expected number of proposals)
        swaps = max(1, work // (ncl * ncl)) / float(ncl)
    el = xrewire_eligible(C) if ncl else 0
    if el == 0:
        swaps = 0.0
    elif ncl:
        # bound the expected number of proposals
        per = ncl * ncl / float(el)
        if swaps * ncl * per > 40000:
            swaps = max(1.0, 40000 / per) / ncl
    n = g["n"]
    return {"graph": g, "list1": l1, "list2": l2, "swaps": float(swaps),
            "weights": draw(st.one_of(st.none(), gg.node_weights(n))),
            "as_array": draw(st.booleans()), "seeds": draw(seeds_st(3))}


def oracle_cross_set(case, rec):
    from pyunicorn.core.interacting_networks import InteractingNetworks
    g, l1, l2 = case["graph"], case["list1"], case["list2"]
    n, directed = g["n"], g["directed"]
    A0 = _adj(g)
    C0 = A0[np.ix_(l1, l2)]
    M = len(l1) * len(l2)
    mode, sparse = case["mode"], case["sparse"]
    fn = InteractingNetworks.RandomlySetCrossLinks_sparse if sparse else \
        InteractingNetworks.RandomlySetCrossLinks
    tag = "xset_sparse" if sparse else "xset"
    rec.label(("sparse:" if sparse else "dense:") + mode)
    rec.label("directed" if directed else "undirected")
    kw = {}
    if mode in ("number", "overflow"):
        kw["number_cross_links"] = case["k"]
    elif mode == "density_exact":
        kw["cross_link_density"] = case["k"] / float(M)
    elif mode == "density_free":
        kw["cross_link_density"] = case["density"]
    # known-finding region KF-C17-2: the sparse variant needs the initial
    # number of cross links (null model, overflow fallback)
    suf = "__initial_number_needed" if (
        sparse and mode in ("null", "overflow")) else ""
    out_mask = _outside_mask(n, l1, l2)
    changed = False
    for sa, sb in case["seeds"]:
        ok, net = rec.call(tag + "_construct", InteractingNetworks,
                           adjacency=A0.copy(), directed=directed,
                           node_weights=case.get("weights"), silence_level=3)
        if not ok:
            return
        w0 = np.array(net.node_weights, dtype=float)
        el0 = [tuple(e) for e in net.graph.get_edgelist()]
        if case.get("as_array"):
            a1, a2 = np.array(l1), np.array(l2)
        else:
            a1, a2 = list(l1), list(l2)
        pbt.seed_library_rngs(sa, sb)
        # filling k of M cells by rejection: at most M(1 + ln M) expected
        # proposals
        ok, out = call_bounded(rec, tag + "_call" + suf,
                               50 * M * (2 + int(np.log(M))) + 1000,
                               fn, net, a1, a2, **kw)
        if not ok:
            continue
        rec.check(list(a1) == list(l1) and list(a2) == list(l2),
                  tag + "_caller_node_lists_untouched")
        _input_untouched(rec, net, A0, w0, el0, tag)
        B = check_object(rec, out, tag, n, directed)
        if B is None:
            continue
        C1 = B[np.ix_(l1, l2)]
        c = int(C1.sum())
        # cross-link models return an undirected cross block
        rec.check(np.array_equal(B[np.ix_(l2, l1)], C1.T),
                  tag + "_cross_block_symmetric")
        rec.check(np.array_equal(B[out_mask], A0[out_mask]),
                  tag + "_links_outside_cross_block_untouched")
        for nm, lst in (("1", l1), ("2", l2)):
            ok1, ia = rec.call(tag + "_internal_adjacency",
                               out.internal_adjacency, lst)
            if ok1:
                rec.equal(ia, A0[np.ix_(lst, lst)],
                          tag + "_internal_adjacency_of_list%s_untouched" % nm)
        rec.check(np.array_equal(np.asarray(out.node_weights, float), w0),
                  tag + "_node_weights_carried_over")
        if mode == "number":
            rec.check(c == case["k"], tag + "_exact_number_of_cross_links",
                      "requested %d, got %d" % (case["k"], c))
        elif mode == "density_exact":
            # known-finding region KF-C17-3: the float product (k/M)*M
            # falls just below k, e.g. (1/49)*49 = 0.9999999999999999
            hard = (case["k"] / float(M)) * M < case["k"]
            rec.label("density_product_rounds_below_k" if hard else
                      "density_product_exact")
            rec.check(c == case["k"],
                      tag + "_density_k_over_N1N2_gives_k_cross_links" +
                      ("__product_rounds_below_k" if hard else ""),
                      "density %r * %d pairs: got %d links, expected %d" % (
                          kw["cross_link_density"], M, c, case["k"]))
        elif mode == "density_free":
            want = case["density"] * M
            rec.check(c <= want + 1e-9 and want < c + 1 + 1e-9,
                      tag + "_density_reached_without_exceeding",
                      "density %r * %d pairs = %r, got %d links" % (
                          case["density"], M, want, c))
        elif mode == "null":
            rec.check(c == int(C0.sum()),
                      tag + "_null_model_keeps_number_of_cross_links",
                      "initial %d, got %d" % (C0.sum(), c))
        elif mode == "overflow":
            # "The number of cross links exceeds maximum. Setting link
            # density of initial interacting network."
            rec.check(c == int(C0.sum()),
                      tag + "_overflow_falls_back_to_initial_number",
                      "initial %d, got %d" % (C0.sum(), c))
        if mode in ("null", "overflow"):
            # a chain of null models: the generator applied to its own
            # output (whatever internal representation that has) keeps the
            # number of cross links as well
            pbt.seed_library_rngs(sb, sa)
            ok2, out2 = call_bounded(
                rec, tag + "_call_second_generation" + suf,
                50 * M * (2 + int(np.log(M))) + 1000, fn, out, a1, a2, **kw)
            if ok2:
                B2 = check_object(rec, out2, tag + "_second_generation", n,
                                  directed)
                if B2 is not None:
                    c2 = int(B2[np.ix_(l1, l2)].sum())
                    rec.check(c2 == int(C0.sum()), tag + "_second_generation"
                              "_keeps_number_of_cross_links",
                              "initial %d, first %d, second %d" % (
                                  C0.sum(), c, c2))
        if not np.array_equal(B, A0):
            changed = True
    rec.label("changed" if changed else "unchanged")
    rec.nontrivial(changed)


# group sizes and k for which the float product (k/M)*M is not k (rounding
# boundary of the density -> number conversion)
HARD_DENSITIES = [(n1, n2, k) for n1 in range(1, 12) for n2 in range(n1, 12)
                  if n1 + n2 <= 15 for k in range(n1 * n2 + 1)
                  if (k / float(n1 * n2)) * (n1 * n2) != k]


@st.composite
def cross_set_cases(draw):
    directed = draw(st.integers(0, 4)) == 0
    mode = draw(st.sampled_from(["number", "number", "density_exact",
                                 "density_exact", "density_free", "null",
                                 "overflow"]))
    hard = None
    if mode == "density_exact" and draw(st.integers(0, 2)) == 0:
        hard = draw(st.sampled_from(HARD_DENSITIES))
        sizes = (hard[0], hard[1]) if draw(st.booleans()) else \
            (hard[1], hard[0])
        g, l1, l2 = draw(partitioned_graph(directed=directed, sizes=sizes))
    else:
        g, l1, l2 = draw(partitioned_graph(3, 11, directed))
    M = len(l1) * len(l2)
    case = {"graph": g, "list1": l1, "list2": l2, "mode": mode,
            "sparse": draw(st.booleans()),
            "weights": draw(st.one_of(st.none(), gg.node_weights(g["n"]))),
            "as_array": draw(st.booleans()), "seeds": draw(seeds_st(3))}
    if hard is not None:
        case["k"] = hard[2]
    elif mode in ("number", "density_exact"):
        case["k"] = draw(st.integers(0, M))
    elif mode == "overflow":
        case["k"] = M + draw(st.integers(1, 5))
    elif mode == "density_free":
        case["density"] = draw(st.one_of(
            st.integers(0, 64).map(lambda v: v / 64.0),
            st.integers(0, 100).map(lambda v: v / 100.0)))
    return case


# ================================================ set_random_links_by_distance

def oracle_by_distance(case, rec):
    from pyunicorn.core.spatial_network import SpatialNetwork
    from pyunicorn.core.geo_network import GeoNetwork
    from pyunicorn.core.grid import Grid
    from pyunicorn.core.geo_grid import GeoGrid
    g = case["graph"]
    n, directed = g["n"], g["directed"]
    A0 = _adj(g)
    a, b = case["a"], case["b"]
    pos = np.array(case["pos"], dtype=float)
    geo = bool(case["geo"])
    rec.label("geo" if geo else "spatial")
    rec.label("directed" if directed else "undirected")
    tag = "bydist"
    changed = False
    for sa, sb in case["seeds"]:
        Ain = A0.copy()
        if geo:
            grid = GeoGrid(np.arange(2.0), pos[0].copy(), pos[1].copy(),
                           silence_level=3)
            ok, net = rec.call(tag + "_construct", GeoNetwork, grid=grid,
                               adjacency=Ain, directed=directed,
                               node_weight_type=case.get("nwt", "surface"),
                               silence_level=3)
        else:
            grid = Grid(np.arange(2.0), pos.copy(), silence_level=3)
            ok, net = rec.call(tag + "_construct", SpatialNetwork, grid=grid,
                               adjacency=Ain, directed=directed,
                               silence_level=3)
        if not ok:
            return
        net.degree()
        ok, D = rec.call(tag + "_grid_distance", net.grid.distance)
        if not ok:
            return
        D = np.array(D, dtype=float)
        w0 = np.array(net.node_weights, dtype=float)
        s0 = np.array(net.grid.sequence(0)), np.array(net.grid.sequence(1))
        pbt.seed_library_rngs(sa, sb)
        ok, _ = rec.call(tag + "_call", net.set_random_links_by_distance,
                         a=a, b=b)
        if not ok:
            continue
        # documented: "creates an undirected network" -> symmetric always
        B = check_object(rec, net, tag, n, directed, symmetric=True)
        if B is None:
            continue
        rec.check(np.array_equal(np.asarray(net.node_weights, float), w0) and
                  np.array_equal(net.grid.sequence(0), s0[0]) and
                  np.array_equal(net.grid.sequence(1), s0[1]) and
                  np.array_equal(np.array(net.grid.distance(), float), D),
                  tag + "_node_weights_and_grid_untouched")
        rec.check(np.array_equal(Ain, A0), tag + "_caller_adjacency_untouched")
        # link probability exp(a + b*d): >= 1 is a sure link, 0 sure absence
        off = ~np.eye(n, dtype=bool)
        z = a + b * D
        # (the library evaluates a + b*D in float32: keep clear of rounding)
        sure = off & (z > 1e-5 * (1 + abs(a) + abs(b) * D))
        never = off & (z < -800)
        rec.check(bool(B[sure].all()),
                  tag + "_probability_one_pairs_are_linked")
        rec.check(not B[never].any(),
                  tag + "_probability_zero_pairs_are_unlinked")
        if not np.array_equal(B, A0):
            changed = True
    rec.label("changed" if changed else "unchanged")
    rec.nontrivial(changed)


@st.composite
def by_distance_cases(draw):
    g = draw(gg.any_graphs(2, 10))
    n = g["n"]
    geo = draw(st.booleans())
    if geo:
        lat = draw(st.lists(st.integers(-8, 8).map(lambda v: 10 * v),
                            min_size=n, max_size=n))
        lon = draw(st.lists(st.integers(0, 35).map(lambda v: 10 * v),
                            min_size=n, max_size=n))
        pos = [lat, lon]
        b = draw(st.sampled_from([-4.0, -1.0, -0.25, 0.0, 0.5, -1000.0]))
    else:
        pos = [draw(st.lists(st.integers(0, 6), min_size=n, max_size=n)),
               draw(st.lists(st.integers(0, 6), min_size=n, max_size=n))]
        b = draw(st.sampled_from([-4.0, -1.0, -0.25, -0.04, 0.0, 0.5,
                                  -1000.0]))
    a = draw(st.sampled_from([-1000.0, -5.0, -1.0, 0.0, 0.0, 0.5, 1.0, 5.0,
                              1000.0]))
    return {"graph": g, "pos": pos, "geo": geo, "a": a, "b": b,
            "nwt": draw(st.sampled_from(["surface", None])),
            "seeds": draw(seeds_st(3))}


# ====================================================================== table

def _run(gen, oracle):
    """run_cases with a smaller shrink budget: on a tree where a proposal
    loop does not terminate every failing evaluation costs the whole
    proposal budget, and the work unit must still finish in time."""
    def run(ctx):
        # bound on swaps * E^2 (worst-case expected number of proposals)
        work = 600 if ctx.tier == "quick" else 4000
        return pbt.run_cases(ctx, gen(work), oracle, ctx.n,
                             shrink_budget=80 if ctx.tier == "quick" else 400)
    return run


SUBCHECKS = [
    SubCheck("models", oracle_models, gen=model_cases,
             quick=(4, 450), thorough=(8, 3500)),
    SubCheck("rewire", oracle_rewire, gen=rewire_cases,
             quick=(4, 400), thorough=(8, 3000)),
    SubCheck("geomodel", oracle_geomodel,
             run=_run(lambda w: geo_cases(work=w), oracle_geomodel),
             quick=(4, 600), thorough=(8, 5000)),
    SubCheck("cross_rewire", oracle_cross_rewire,
             run=_run(lambda w: cross_rewire_cases(work=w),
                      oracle_cross_rewire),
             quick=(4, 400), thorough=(8, 3000)),
    SubCheck("cross_set", oracle_cross_set,
             run=_run(lambda w: cross_set_cases(), oracle_cross_set),
             quick=(4, 400), thorough=(8, 3000)),
    SubCheck("by_distance", oracle_by_distance, gen=by_distance_cases,
             quick=(2, 300), thorough=(8, 1500)),
]
