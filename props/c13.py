"""C13 - data windows select exactly the requested samples; anomalies sum.

The window history is data: a list of ``set_window`` / ``set_global_window``
operations (with literal bounds) interpreted against the real object and a
plain numpy model.  After the construction and after every operation every
observable is compared: observable(), grid (time / lat / lon sequences and
sizes), window(), and for ClimateData phase_indices(), phase_mean(),
anomaly(), anomaly_selected_months().

Model of a window (documented in Data.set_window): closed intervals on the
stored coordinates; time: the full range when time_min == time_max; space:
the full spatial extension when lat_min == lat_max OR lon_min == lon_max
(DESIGN 3/C13 'Sound': the property's parenthesis is read as this documented
convention).  Windows that select nothing are outside the domain: the
interpreter skips such an operation (counted by a label) instead of sending
it to the library.
"""
import itertools

import numpy as np
from hypothesis import strategies as st

from vp import pbt
from vp.pbt import SubCheck, represent

PROPERTY = "C13"
RULE = ("cases = (class Data|ClimateData, observable T 1..36 x N 1..8 of "
        "dyadic values, increasing quarter-unit time axis, irregular "
        "quarter-degree lat/lon with duplicates, cycle length, anomalies "
        "flag, optional constructor window, history of 1..8 set_window / "
        "set_global_window operations). Window bounds are placed on samples, "
        "half-way between neighbouring samples, outside the record, or made "
        "to coincide (per axis). Non-trivial = some window of the history "
        "removes at least one time sample or node and keeps at least one of "
        "each (for ClimateData additionally: distinct by the whole case, so "
        "cycle / flag variants count separately); distinct = hash of the "
        "whole case.")
ASSUMPTIONS = [
    "window bounds and coordinates are either float32-exact (quarter / "
    "eighth units) or decimal (twelfths of a year, tenths of a degree) with "
    "distinct, equally ordered float32 images; bounds are handed over as "
    "Python floats. The grid keeps single-precision coordinates, so the "
    "model compares the float32 images of coordinates and bounds: for these "
    "values that is the closed-window reading of the caller's numbers (a "
    "bound equal to a supplied coordinate includes that sample)",
    "a window whose model selection is empty (in time or space) is outside "
    "the domain and is not sent to the library",
    "spatial convention as documented: if lat_min == lat_max or "
    "lon_min == lon_max the full spatial extension is selected",
    "window() is documented by example as the boundaries of the selected "
    "grid (min / max of the selected coordinates), not the requested bounds",
    "phases are counted from the first sample of the current window "
    "('only the currently selected spatio-temporal window is considered'); "
    "phase_mean rows of phases without any sample in the window are "
    "unspecified (not compared); phase_indices covers complete cycles only "
    "(documented)",
    "with anomalies=True the data are declared to be anomalies already: "
    "anomaly() must be the windowed observable; the zero-mean / add-back "
    "clauses apply to anomalies=False only",
    "anomaly_selected_months supports cycle lengths 12 and 360 only "
    "(documented NotImplementedError otherwise)",
]

KEYS = ("time_min", "time_max", "lat_min", "lat_max", "lon_min", "lon_max")
GLOBAL = {k: 0.0 for k in KEYS}


# -------------------------------------------------------------------- model

def _f32(v):
    return np.asarray(v, dtype=np.float32).astype(np.float64)


class Model:
    def __init__(self, obs, time, lat, lon):
        self.obs = np.asarray(obs, dtype=np.float64)
        # the grid keeps single-precision coordinates: the model works on
        # the float32 images of coordinates AND bounds (identity for the
        # dyadic values; for decimal values the images stay distinct and
        # ordered, so this is the closed-window reading of the caller's
        # values: a bound equal to a supplied coordinate includes the sample)
        self.time = _f32(time)
        self.lat = _f32(lat)
        self.lon = _f32(lon)
        self.ti = np.ones(len(self.time), dtype=bool)
        self.si = np.ones(len(self.lat), dtype=bool)

    def selection(self, w):
        eq_t = w["time_min"] == w["time_max"]
        eq_s = w["lat_min"] == w["lat_max"] or w["lon_min"] == w["lon_max"]
        w = {k: float(np.float32(w[k])) for k in KEYS}
        if eq_t:
            ti = np.ones(len(self.time), dtype=bool)
        else:
            ti = np.array([w["time_min"] <= t <= w["time_max"]
                           for t in self.time], dtype=bool)
        if eq_s:
            si = np.ones(len(self.lat), dtype=bool)
        else:
            si = np.array([(w["lat_min"] <= a <= w["lat_max"])
                           and (w["lon_min"] <= b <= w["lon_max"])
                           for a, b in zip(self.lat, self.lon)], dtype=bool)
        return ti, si

    def apply(self, w):
        self.ti, self.si = self.selection(w)

    # views
    def observable(self):
        return self.obs[self.ti][:, self.si]

    def boundaries(self):
        t, a, b = self.time[self.ti], self.lat[self.si], self.lon[self.si]
        return {"time_min": t.min(), "time_max": t.max(),
                "lat_min": a.min(), "lat_max": a.max(),
                "lon_min": b.min(), "lon_max": b.max()}


def model_phase_indices(n_t, cycle):
    years = n_t // cycle
    return np.array([[p + y * cycle for y in range(years)]
                     for p in range(cycle)], dtype=int).reshape(cycle, years)


def model_phase_mean(x, cycle):
    """rows of phases that own no sample are NaN (unspecified)."""
    n_t, n_s = x.shape
    out = np.full((cycle, n_s), np.nan)
    for p in range(min(cycle, n_t)):
        rows = [t for t in range(n_t) if t % cycle == p]
        out[p] = np.sum(x[rows], axis=0) / len(rows)
    return out


def model_anomaly(x, cycle):
    pm = model_phase_mean(x, cycle)
    return np.array([x[t] - pm[t % cycle] for t in range(x.shape[0])]
                    ).reshape(x.shape)


# ------------------------------------------------------------------- oracle

def _window(w):
    return {k: float(w[k]) for k in KEYS}


def oracle_history(case, rec):
    from pyunicorn.core.geo_grid import GeoGrid
    from pyunicorn.core.data import Data
    from pyunicorn.climate.climate_data import ClimateData
    climate = case["cls"] == "ClimateData"
    obs = np.array(case["obs"], dtype=np.float64)
    time = np.array(case["time"], dtype=np.float64)
    lat = np.array(case["lat"], dtype=np.float64)
    lon = np.array(case["lon"], dtype=np.float64)
    n_t, n_s = obs.shape
    cycle = int(case.get("cycle") or 1)
    flag = bool(case.get("anomalies"))
    months = [int(m) for m in case.get("months", [])]
    model = Model(obs, time, lat, lon)
    rec.label(case["cls"])
    if climate:
        rec.label("anomalies_flag" if flag else "raw_data")
        rec.label("cycle_divides_T" if n_t % cycle == 0 else
                  "cycle_does_not_divide_T")
        if cycle in (12, 360):
            rec.label("cycle_%d" % cycle)

    ok, grid = rec.call("construct_geogrid", GeoGrid, time.copy(), lat.copy(),
                        lon.copy(), silence_level=3)
    if not ok:
        return
    init = case.get("init_window")
    nontrivial = False
    if init is not None:
        init = _window(init)
        ti, si = model.selection(init)
        if not ti.any() or not si.any():
            rec.label("empty_window_skipped")
            init = None
        else:
            model.apply(init)
            rec.label("constructor_window")
            nontrivial |= _removes(ti, si)
    if climate:
        ok, data = rec.call("construct", ClimateData,
                            observable=represent(obs.copy(), f32=False),
                            grid=grid, time_cycle=cycle, anomalies=flag,
                            window=None if init is None else dict(init),
                            silence_level=3)
    else:
        ok, data = rec.call("construct", Data,
                            observable=represent(obs.copy(), f32=False),
                            grid=grid,
                            window=None if init is None else dict(init),
                            silence_level=3)
    if not ok:
        return
    observe(rec, data, model, climate, cycle, flag, months, "init")
    held = {} if int(pbt.case_hash(case)[:4], 16) % 2 else None
    rec.label("one_window_dict_reused" if held is not None
              else "fresh_window_dicts")

    for k, op in enumerate(case["ops"]):
        if op["op"] == "global":
            ok, _ = rec.call("set_global_window", data.set_global_window)
            if not ok:
                return
            model.apply(GLOBAL)
            stage = "global"
            rec.label("op_global")
        else:
            w = _window(op["w"])
            ti, si = model.selection(w)
            if not ti.any() or not si.any():
                rec.label("empty_window_skipped")
                continue
            _label_window(rec, w, model)
            # callers keep ONE window dict and update it in place between
            # calls in half of the histories (decided by the case itself)
            if held is not None:
                held.clear()
                held.update(w)
                arg = held
            else:
                arg = dict(w)
            ok, _ = rec.call("set_window", data.set_window, arg)
            if not ok:
                return
            model.apply(w)
            nontrivial |= _removes(ti, si)
            stage = "window"
        observe(rec, data, model, climate, cycle, flag, months, stage)
    rec.label("ops=%d" % len(case["ops"]) if len(case["ops"]) < 3
              else "ops>=3")
    if nontrivial:
        rec.nontrivial(True)


def _removes(ti, si):
    return bool(((~ti).any() or (~si).any()) and ti.any() and si.any())


def _label_window(rec, w, model):
    if w["time_min"] == w["time_max"]:
        rec.label("time_bounds_coincide")
    eq_lat = w["lat_min"] == w["lat_max"]
    eq_lon = w["lon_min"] == w["lon_max"]
    if eq_lat != eq_lon:
        rec.label("one_spatial_axis_coincides")
    elif eq_lat:
        rec.label("both_spatial_axes_coincide")
    w32 = {k: float(np.float32(w[k])) for k in KEYS}
    on = (w32["time_min"] in model.time or w32["time_max"] in model.time
          or w32["lat_min"] in model.lat or w32["lat_max"] in model.lat
          or w32["lon_min"] in model.lon or w32["lon_max"] in model.lon)
    if on:
        rec.label("bound_on_sample")
        if any(w32[k] != w[k] for k in KEYS):
            rec.label("bound_on_decimal_sample")
    ti, si = model.selection(w)
    if (~ti).any():
        rec.label("removes_time_samples")
    if (~si).any():
        rec.label("removes_nodes")


def observe(rec, data, model, climate, cycle, flag, months, stage):
    """Compare every observable with the model.  ``stage`` in init / window /
    global becomes part of the clause name (restoring the global window is a
    clause of its own)."""
    x = model.observable()
    n_t, n_s = x.shape
    sfx = "_after_" + stage
    ok, o = rec.call("observable", data.observable)
    if ok:
        o = np.asarray(o)
        if rec.check(o.shape == x.shape, "observable_shape" + sfx,
                     "%s vs %s" % (o.shape, x.shape)):
            rec.equal(o, x, "observable_samples" + sfx)
    g = data.grid
    ok, gd = rec.call("grid.grid", g.grid)
    if ok:
        for key, ref in (("time", model.time[model.ti]),
                         ("lat", model.lat[model.si]),
                         ("lon", model.lon[model.si])):
            rec.equal(np.asarray(gd[key], dtype=np.float64), ref,
                      "grid_%s_sequence" % key + sfx)
    ok, gs = rec.call("grid.grid_size", g.grid_size)
    if ok:
        rec.check(int(gs["time"]) == n_t and int(gs["space"]) == n_s
                  and int(g.N) == n_s, "grid_size_matches_observable" + sfx,
                  "grid_size=%r N=%r observable %s" % (gs, g.N, x.shape))
    ok, w = rec.call("window", data.window)
    if ok:
        ref = model.boundaries()
        good = isinstance(w, dict) and all(
            k in w and float(w[k]) == float(ref[k]) for k in KEYS)
        rec.check(good, "window_boundaries" + sfx,
                  lambda: "lib=%r ref=%r" % (
                      {k: float(v) for k, v in w.items()}
                      if isinstance(w, dict) else w,
                      {k: float(v) for k, v in ref.items()}))
    if not climate:
        return
    scale = max(1.0, float(np.abs(x).max()))
    ok, pi = rec.call("phase_indices", data.phase_indices)
    if ok:
        ref = model_phase_indices(n_t, cycle)
        pi = np.asarray(pi)
        if rec.check(pi.shape == ref.shape, "phase_indices_shape" + sfx,
                     "%s vs %s" % (pi.shape, ref.shape)):
            rec.equal(pi, ref, "phase_indices_values" + sfx)
    pm_ref = model_phase_mean(x, cycle)
    live = min(cycle, n_t)
    ok_pm, pm = rec.call("phase_mean", data.phase_mean)
    if ok_pm:
        pm = np.asarray(pm)
        ok_pm = rec.check(pm.shape == (cycle, n_s), "phase_mean_shape" + sfx,
                          "%s vs %s" % (pm.shape, (cycle, n_s)))
        if ok_pm:
            rec.close(pm[:live], pm_ref[:live], "phase_mean_values" + sfx,
                      rtol=1e-9 * scale)
    kind = "_preanomalised" if flag else ""
    ok_an, an = rec.call("anomaly", data.anomaly)
    if ok_an:
        an = np.asarray(an)
        ok_an = rec.check(an.shape == x.shape,
                          "anomaly_shape" + kind + sfx,
                          "%s vs observable %s" % (an.shape, x.shape))
    if ok_an:
        if flag:
            rec.equal(an, x, "flagged_anomaly_is_windowed_observable" + sfx)
        else:
            # zero mean in every phase
            worst = 0.0
            for p in range(live):
                worst = max(worst, float(np.abs(an[p::cycle].mean(
                    axis=0)).max()))
            rec.check(worst <= 1e-9 * scale, "anomaly_zero_phase_mean" + sfx,
                      "largest |phase mean of anomaly| = %g" % worst)
            # anomalies + phase means = windowed observable
            if ok_pm:
                back = np.array([an[t] + pm[t % cycle] for t in range(n_t)]
                                ).reshape(x.shape)
                rec.close(back, x, "anomaly_plus_phase_mean_is_observable"
                          + sfx, rtol=1e-9 * scale)
            rec.close(an, model_anomaly(x, cycle), "anomaly_values" + sfx,
                      rtol=1e-9 * scale)
    if months:
        ok, sel = rec.call("anomaly_selected_months",
                           data.anomaly_selected_months, list(months),
                           allowed=(NotImplementedError,))
        if cycle in (12, 360):
            if ok:
                # negative numbers count from the end of the year, as
                # everywhere in Python
                mm = sorted({m % 12 for m in months})
                per = mm if cycle == 12 else \
                    [m * 30 + d for m in mm for d in range(30)]
                pidx = model_phase_indices(n_t, cycle)
                idx = np.sort(pidx[per, :].flatten())
                base = x if flag else model_anomaly(x, cycle)
                ref = base[idx, :]
                sel = np.asarray(sel)
                if rec.check(sel.shape == ref.shape,
                             "anomaly_selected_months_shape" + kind + sfx,
                             "%s vs %s" % (sel.shape, ref.shape)):
                    rec.close(sel, ref, "anomaly_selected_months_values"
                              + kind + sfx, rtol=1e-9 * scale)
            elif isinstance(sel, NotImplementedError):
                rec.fail("anomaly_selected_months_supported_cycle" + sfx,
                         "NotImplementedError for cycle %d" % cycle)
        else:
            rec.check(not ok, "anomaly_selected_months_rejects_cycle" + sfx,
                      "cycle %d accepted" % cycle)
    # shuffled_anomaly(): every node's anomaly series in another temporal
    # order - and the window keeps exposing what it exposed before
    if climate and ok_an:
        pbt.seed_library_rngs(n_t, n_s)
        ok, sh = rec.call("shuffled_anomaly", data.shuffled_anomaly)
        if ok:
            sh = np.asarray(sh, dtype=float)
            if rec.check(sh.shape == x.shape, "shuffled_anomaly_shape" + sfx,
                         "%s vs %s" % (sh.shape, x.shape)):
                base = x if flag else model_anomaly(x, cycle)
                rec.close(np.sort(sh, axis=0), np.sort(
                    np.asarray(base, dtype=float), axis=0),
                    "shuffled_anomaly_is_columnwise_permutation" + sfx,
                    rtol=1e-9 * scale)
            ok, o2 = rec.call("observable", data.observable)
            if ok:
                rec.equal(np.asarray(o2, dtype=float).reshape(x.shape), x,
                          "observable_after_shuffled_anomaly" + sfx)


# --------------------------------------------------------------- generators

def _q(k):
    return k / 4.0


@st.composite
def coords(draw, t_max=36, n_max=8):
    n_t = draw(st.integers(1, t_max))
    n_s = draw(st.integers(1, n_max))
    t0 = draw(st.integers(-12, 12))
    # a share of time axes has a large offset ("hours since 1800"): windows
    # are then narrow RELATIVE to the size of their bounds (float32-exact:
    # 1e6 + k/4 needs 22 bits)
    if draw(st.integers(0, 3)) == 0:
        t0 += draw(st.sampled_from([4000000, 2000000, -1000000]))
    regular = draw(st.booleans())
    if regular:
        step = draw(st.sampled_from([1, 2, 4]))
        tq = [t0 + step * k for k in range(n_t)]
    else:
        gaps = draw(st.lists(st.sampled_from([1, 2, 4, 6]), min_size=n_t,
                             max_size=n_t))
        tq = list(t0 + np.cumsum(gaps))
    time = [_q(int(v)) for v in tq]
    if draw(st.integers(0, 3)) == 0 and abs(t0) < 1000:
        # decimal coordinates (monthly time axis in years, tenths of a
        # degree): not float32-exact, bounds placed ON such samples must
        # still select them
        time = [1950 + int(v) / 12.0 for v in tq]
        latq = draw(st.lists(st.integers(-900, 900), min_size=n_s,
                             max_size=n_s))
        lonq = draw(st.lists(st.integers(-1800, 3600), min_size=n_s,
                             max_size=n_s))
        return time, [v / 10.0 for v in latq], [v / 10.0 for v in lonq]
    lattice = draw(st.booleans())
    if lattice:      # few distinct values: duplicates, bounds on many nodes
        latq = draw(st.lists(st.sampled_from([-40, -20, 0, 20, 40, 60]),
                             min_size=n_s, max_size=n_s))
        lonq = draw(st.lists(st.sampled_from([-40, 0, 10, 20, 30, 720]),
                             min_size=n_s, max_size=n_s))
    else:
        latq = draw(st.lists(st.integers(-360, 360), min_size=n_s,
                             max_size=n_s))
        lonq = draw(st.lists(st.integers(-720, 1440), min_size=n_s,
                             max_size=n_s))
    return time, [_q(v) for v in latq], [_q(v) for v in lonq]


def _bound(draw, u):
    """A bound relative to the sorted distinct coordinate values u."""
    kind = draw(st.sampled_from(["on", "on", "between", "between", "below",
                                 "above"]))
    i = draw(st.integers(0, len(u) - 1))
    if kind == "on":
        return u[i]
    if kind == "between":
        return (u[i] + u[i + 1]) / 2.0 if i + 1 < len(u) else u[i] + 0.125
    if kind == "below":
        return u[0] - draw(st.sampled_from([0.125, 1.0, 50.0]))
    return u[-1] + draw(st.sampled_from([0.125, 1.0, 50.0]))


def _axis_bounds(draw, vals, p_equal):
    u = sorted(set(vals))
    if draw(st.integers(0, 99)) < p_equal:
        b = 0.0 if draw(st.integers(0, 2)) == 0 else _bound(draw, u)
        return b, b
    a = _bound(draw, u)
    b = _bound(draw, u)
    if a > b and draw(st.integers(0, 9)) < 9:
        a, b = b, a
    return a, b


@st.composite
def window(draw, time, lat, lon):
    tmin, tmax = _axis_bounds(draw, time, 20)
    amin, amax = _axis_bounds(draw, lat, 15)
    omin, omax = _axis_bounds(draw, lon, 15)
    return {"time_min": tmin, "time_max": tmax, "lat_min": amin,
            "lat_max": amax, "lon_min": omin, "lon_max": omax}


@st.composite
def cases(draw, min_ops=1, max_ops=1, t_max=36):
    time, lat, lon = draw(coords(t_max=t_max))
    n_t, n_s = len(time), len(lat)
    kind = draw(st.sampled_from(["int", "dyadic"]))
    flat = draw(st.lists(st.integers(-64, 64), min_size=n_t * n_s,
                         max_size=n_t * n_s))
    div = 1.0 if kind == "int" else 8.0
    obs = [[flat[t * n_s + s] / div for s in range(n_s)] for t in range(n_t)]
    cls = draw(st.sampled_from(["ClimateData", "ClimateData", "Data"]))
    ck = draw(st.sampled_from(["any", "any", "any", "divisor", "twelve",
                               "big"]))
    if ck == "any":
        cycle = draw(st.integers(1, n_t))
    elif ck == "divisor":
        cycle = draw(st.sampled_from([d for d in range(1, n_t + 1)
                                      if n_t % d == 0]))
    elif ck == "twelve":
        cycle = 12
    else:
        cycle = draw(st.sampled_from([n_t + 1, 12, 360]))
    init = draw(window(time, lat, lon)) if draw(st.integers(0, 3)) == 0 \
        else None
    ops = []
    for _ in range(draw(st.integers(min_ops, max_ops))):
        if draw(st.integers(0, 4)) == 0:
            ops.append({"op": "global"})
        else:
            ops.append({"op": "set_window", "w": draw(window(time, lat, lon))})
    months = draw(st.lists(st.integers(-12, 11), min_size=0, max_size=3,
                           unique_by=lambda m: m % 12))
    return {"cls": cls, "obs": obs, "time": time, "lat": lat, "lon": lon,
            "cycle": cycle, "anomalies": draw(st.booleans()),
            "init_window": init, "ops": ops, "months": sorted(months)}


def single_cases():
    return cases(min_ops=1, max_ops=2)


def history_cases():
    return cases(min_ops=3, max_ops=8, t_max=24)


def enum_lattice(tier):
    """Every time window over a bound lattice (on / between / outside the 5
    samples) x every cycle length x both flags, and every spatial window over
    a bound lattice on a fixed 2x3 node layout: the closed-interval and
    coinciding-bounds conventions, exhaustively."""
    time = [0.0, 1.0, 2.0, 3.0, 4.0]
    lat = [0.0, 0.0, 10.0, 10.0, 20.0, 20.0]
    lon = [5.0, 15.0, 5.0, 15.0, 5.0, 15.0]
    obs = [[float((3 * t * t + 5 * s * (t + 1)) % 11 - 5) for s in range(6)]
           for t in range(5)]
    tb = [-1.0, 0.0, 0.5, 2.0, 3.5, 4.0, 5.0]
    base = {"cls": "ClimateData", "obs": obs, "time": time, "lat": lat,
            "lon": lon, "init_window": None, "months": []}
    for a, b in itertools.product(tb, tb):
        if a > b:
            continue
        for cycle in (1, 2, 3, 5):
            for flag in (False, True):
                c = dict(base)
                c.update(cycle=cycle, anomalies=flag, ops=[
                    {"op": "set_window", "w": {
                        "time_min": a, "time_max": b, "lat_min": 0.0,
                        "lat_max": 0.0, "lon_min": 0.0, "lon_max": 0.0}},
                    {"op": "global"}])
                yield c
    lb = [-5.0, 0.0, 5.0, 10.0, 20.0, 25.0]
    ob = [0.0, 5.0, 10.0, 15.0, 20.0]
    for a, b in itertools.product(lb, lb):
        if a > b:
            continue
        for c_, d in itertools.product(ob, ob):
            if c_ > d:
                continue
            c = dict(base)
            c.update(cls="Data", cycle=1, anomalies=False, ops=[
                {"op": "set_window", "w": {
                    "time_min": 1.0, "time_max": 3.0, "lat_min": a,
                    "lat_max": b, "lon_min": c_, "lon_max": d}},
                {"op": "global"}])
            yield c


SUBCHECKS = [
    SubCheck("lattice", oracle_history, enum=enum_lattice,
             quick=(4, None), thorough=(4, None)),
    SubCheck("single_window", oracle_history, gen=single_cases,
             quick=(8, 800), thorough=(16, 3200)),
    SubCheck("history", oracle_history, gen=history_cases,
             quick=(4, 200), thorough=(8, 400)),
]
