"""C14 - visibility graphs realise the geometric visibility criterion.

Oracle: exact rational evaluation (fractions.Fraction) of the criterion on
small-integer / dyadic data on which float32 slope arithmetic is exact enough
to preserve every strict inequality and every tie (|values| <= 255, time spans
<= 128: two distinct slopes differ by >= 1/128^2 while float32 spacing at the
largest slope 255 is 2^-16).
"""
import itertools
from fractions import Fraction

import numpy as np
from hypothesis import strategies as st

from vp.pbt import SubCheck, represent

PROPERTY = "C14"
RULE = ("cases = (series, timings, missing mask, graph type); exhaustive part "
        "= every series over {0,1,2,3} of length 2..7 for both graph types; "
        "random part = integer/dyadic series up to length 40 with plateaus, "
        "monotone runs and collinear triples, increasing integer timings, "
        "missing masks. Non-trivial = the series holds a collinear triple, a "
        "plateau (equal neighbours) or a missing value, or has >= 4 samples "
        "and a visible non-adjacent pair; distinct = hash of the whole case.")
ASSUMPTIONS = [
    "values are float32-exact small integers/dyadics so that the library's "
    "float32 slope comparison and the rational reference decide the same "
    "strict inequalities (stated bound: |x| <= 255, time span <= 128)",
    "series have >= 2 samples (the statement is about pairs of samples)",
]


# ---------------------------------------------------------------- reference

def ref_visibility(x, t, horizontal):
    """x: list of Fraction or None (missing); t: list of Fraction."""
    n = len(x)
    A = np.zeros((n, n), dtype=np.int8)
    for i in range(n):
        if x[i] is None:
            continue
        for j in range(i + 1, n):
            if x[j] is None:
                continue
            ok = True
            for k in range(i + 1, j):
                if x[k] is None:
                    ok = False
                    break
                if horizontal:
                    if not (x[k] < x[i] and x[k] < x[j]):
                        ok = False
                        break
                else:
                    # strictly below the chord from i to j
                    lhs = (x[k] - x[i]) * (t[j] - t[i])
                    rhs = (x[j] - x[i]) * (t[k] - t[i])
                    if not lhs < rhs:
                        ok = False
                        break
            if ok:
                A[i, j] = A[j, i] = 1
    return A


def ref_visibility_int(x, t, horizontal):
    """The same criterion for integer values and times (None = missing),
    evaluated pair by pair on int64 vectors: for series of several hundred
    samples, where the Fraction loops above would take minutes."""
    n = len(x)
    miss = np.array([v is None for v in x])
    xv = np.array([0 if v is None else int(v) for v in x], dtype=np.int64)
    tv = np.array([int(v) for v in t], dtype=np.int64)
    A = np.zeros((n, n), dtype=np.int8)
    for i in range(n):
        if miss[i]:
            continue
        for j in range(i + 1, n):
            if miss[j]:
                continue
            if miss[i + 1:j].any():
                break          # a missing sample blocks every longer link
            xk, tk = xv[i + 1:j], tv[i + 1:j]
            if horizontal:
                ok = bool(np.all((xk < xv[i]) & (xk < xv[j])))
            else:
                ok = bool(np.all((xk - xv[i]) * (tv[j] - tv[i])
                                 < (xv[j] - xv[i]) * (tk - tv[i])))
            if ok:
                A[i, j] = A[j, i] = 1
    return A


def _frac(v):
    return None if v is None else Fraction(v).limit_denominator(1 << 20)


def _has_collinear_or_plateau(x, t):
    n = len(x)
    for i in range(n - 1):
        if x[i] is not None and x[i] == x[i + 1]:
            return True
    for i, j, k in itertools.combinations(range(n), 3):
        if None in (x[i], x[j], x[k]):
            continue
        if (x[j] - x[i]) * (t[k] - t[i]) == (x[k] - x[i]) * (t[j] - t[i]):
            return True
        if n > 12:  # keep the classification cheap on long series
            break
    return False


def build(case, x=None, t=None):
    from pyunicorn.timeseries import VisibilityGraph
    xs = case["x"] if x is None else x
    ts = case.get("t") if t is None else t
    arr = np.array([np.nan if v is None else float(v) for v in xs],
                   dtype=np.float64)
    tarr = None if ts is None else np.array(ts, dtype=np.float64)
    arr = represent(arr)
    if tarr is not None:
        tarr = represent(tarr, dtypes=False)
    mv = bool(case.get("mv")) or any(v is None for v in xs)
    return VisibilityGraph(arr, timings=tarr, missing_values=mv,
                           horizontal=bool(case["horizontal"]),
                           silence_level=3)


# ------------------------------------------------------------------ oracles

def oracle_criterion(case, rec):
    xs = case["x"]
    n = len(xs)
    ts = case.get("t")
    fx = [_frac(v) for v in xs]
    ft = [Fraction(i) for i in range(n)] if ts is None else \
        [_frac(v) for v in ts]
    hor = bool(case["horizontal"])
    has_mv = any(v is None for v in xs)
    rec.label("horizontal" if hor else "natural")
    rec.label("missing" if has_mv else "complete")
    rec.label("timings" if ts is not None else "default_timings")
    if n > 60 and all(v is None or float(v) == int(v) for v in xs) and \
            all(float(v) == int(v) for v in ft):
        rec.label("long_series")
        ref = ref_visibility_int(xs, ft, hor)
    else:
        ref = ref_visibility(fx, ft, hor)
    ok, vg = rec.call("construct", build, case)
    if not ok:
        return
    A = np.asarray(vg.adjacency)
    tag = ("horizontal" if hor else "natural") + \
        ("_missing" if has_mv else "")
    rec.equal(A, ref, "criterion_" + tag)
    nonadj = any(ref[i, j] for i in range(n) for j in range(i + 2, n))
    if has_mv or _has_collinear_or_plateau(fx, ft) or (n >= 4 and nonadj):
        rec.nontrivial(True)
    if has_mv:
        miss = [i for i, v in enumerate(xs) if v is None]
        rec.check(not A[miss, :].any() and not A[:, miss].any(),
                  "missing_isolated_" + ("horizontal" if hor else "natural"),
                  "missing=%s row sums=%s" % (miss, A[miss].sum(axis=1)))
    # both relations can be asked of any object, in any order, and neither
    # call disturbs the other (nor the series the object holds)
    if n <= 60 or not hor:
        fast = n > 60
        other = (ref_visibility_int(xs, ft, not hor) if fast
                 else ref_visibility(fx, ft, not hor))
        order = ("visibility_relations_horizontal", "visibility_relations")
        if (n + len(case["x"])) % 2:
            order = order[::-1]
        for name in order + order[:1]:
            okr, Rl = rec.call(name, getattr(vg, name))
            if okr:
                want = ref if (name.endswith("horizontal") == hor) else other
                rec.equal(np.asarray(Rl).astype(int), want.astype(int),
                          name + "_on_%s_object" % ("horizontal" if hor
                                                    else "natural") +
                          ("_missing" if has_mv else ""))
    # visibility() accessors agree with adjacency
    if n >= 2:
        rec.check(int(vg.visibility(0, 1)) == int(A[0, 1]), "visibility()")
        rec.equal(np.asarray(vg.visibility_single(n - 1)), A[n - 1],
                  "visibility_single()")
    # time-directed degrees: definition and sum rule
    ok1, rd = rec.call("retarded_degree", vg.retarded_degree)
    ok2, ad = rec.call("advanced_degree", vg.advanced_degree)
    if ok1 and ok2:
        deg = A.sum(axis=1)
        rec.equal(rd + ad, deg, "retarded_plus_advanced_degree")
        rec.equal(rd, np.array([A[i, :i].sum() for i in range(n)]),
                  "retarded_degree_def")
        rec.equal(ad, np.array([A[i, i + 1:].sum() for i in range(n)]),
                  "advanced_degree_def")
    # clustering: share of linked pairs among past / future neighbours
    ok1, rc = rec.call("retarded_local_clustering",
                       vg.retarded_local_clustering)
    ok2, ac = rec.call("advanced_local_clustering",
                       vg.advanced_local_clustering)
    if ok1:
        rec.close(rc, _dir_clustering(A, past=True), "retarded_clustering_def",
                  rtol=1e-12)
    if ok2:
        rec.close(ac, _dir_clustering(A, past=False),
                  "advanced_clustering_def", rtol=1e-12)
    # the same queries again on the same object, in the opposite order: a
    # measure must not disturb the others (nor itself)
    ok2, ac2 = rec.call("advanced_local_clustering_again",
                        vg.advanced_local_clustering)
    ok1, rc2 = rec.call("retarded_local_clustering_again",
                        vg.retarded_local_clustering)
    if ok1:
        rec.close(rc2, _dir_clustering(A, past=True),
                  "retarded_clustering_def_when_repeated", rtol=1e-12)
    if ok2:
        rec.close(ac2, _dir_clustering(A, past=False),
                  "advanced_clustering_def_when_repeated", rtol=1e-12)
    ok1, rd2 = rec.call("retarded_degree_again", vg.retarded_degree)
    ok2, ad2 = rec.call("advanced_degree_again", vg.advanced_degree)
    if ok1 and ok2:
        rec.equal(rd2 + ad2, A.sum(axis=1),
                  "retarded_plus_advanced_degree_after_clustering")
        rec.equal(rd2, np.array([A[i, :i].sum() for i in range(n)]),
                  "retarded_degree_def_after_clustering")
        rec.equal(ad2, np.array([A[i, i + 1:].sum() for i in range(n)]),
                  "advanced_degree_def_after_clustering")


def _dir_clustering(A, past):
    n = len(A)
    out = np.zeros(n)
    for i in range(n):
        nb = [j for j in (range(i) if past else range(i + 1, n)) if A[i, j]]
        k = len(nb)
        if k < 2:
            continue
        tri = int(np.asarray(A)[np.ix_(nb, nb)].sum()) // 2
        out[i] = tri / (k * (k - 1) / 2.0)
    return out


def oracle_relations(case, rec):
    """Metamorphic relations: affine maps and time reversal."""
    xs = case["x"]
    n = len(xs)
    ts = case.get("t")
    hor = bool(case["horizontal"])
    a, b, c, d = case["a"], case["b"], case["c"], case["d"]
    ok, vg = rec.call("construct", build, case)
    if not ok:
        return
    A = np.asarray(vg.adjacency).copy()
    rec.label("horizontal" if hor else "natural")
    if n >= 4 and any(A[i, j] for i in range(n) for j in range(i + 2, n)) \
            and not A[np.triu_indices(n, 1)].all():
        rec.nontrivial(True)
    # positive affine map of the values
    x2 = [None if v is None else a * v + b for v in xs]
    ok, vg2 = rec.call("construct_affine_x", build, case, x2)
    if ok:
        rec.equal(np.asarray(vg2.adjacency), A, "affine_values_invariance",
                  "a=%s b=%s" % (a, b))
    # positive affine map of the times
    t0 = list(range(n)) if ts is None else ts
    t2 = [c * v + d for v in t0]
    ok, vg3 = rec.call("construct_affine_t", build, case, None, t2)
    if ok:
        rec.equal(np.asarray(vg3.adjacency), A, "affine_time_invariance",
                  "c=%s d=%s" % (c, d))
    # time reversal
    xr = xs[::-1]
    tr = [-v for v in t0[::-1]]
    ok, vgr = rec.call("construct_reversed", build, case, xr, tr)
    if not ok:
        return
    Ar = np.asarray(vgr.adjacency)
    rec.equal(Ar, A[::-1, ::-1], "time_reversal_mirror")
    pairs = [("degree", "retarded_degree", "advanced_degree"),
             ("clustering", "retarded_local_clustering",
              "advanced_local_clustering")]
    if case.get("deep"):
        pairs.append(("closeness", "retarded_closeness", "advanced_closeness"))
        if n <= 10:
            pairs.append(("betweenness", "retarded_betweenness",
                          "advanced_betweenness"))
    for name, ret, adv in pairs:
        ok1, r0 = rec.call(ret, getattr(vg, ret))
        ok2, a0 = rec.call(adv, getattr(vg, adv))
        ok3, r1 = rec.call(ret + "_rev", getattr(vgr, ret))
        ok4, a1 = rec.call(adv + "_rev", getattr(vgr, adv))
        if ok1 and ok2 and ok3 and ok4:
            if name == "closeness":
                # an empty past/future has no mean: undefined at both ends
                r0, a0, r1, a1 = [np.nan_to_num(np.asarray(v, dtype=float),
                                                nan=-1.0, posinf=-2.0)
                                  for v in (r0, a0, r1, a1)]
            rec.close(r1[::-1], a0, "reversal_exchanges_" + name + "_ret_adv",
                      rtol=1e-9)
            rec.close(a1[::-1], r0, "reversal_exchanges_" + name + "_adv_ret",
                      rtol=1e-9)
    if case.get("deep"):
        # definitions: inverse mean path length to the past / future nodes,
        # and the boundary-corrected combinations of the time-directed
        # measures (weights = number of past / future samples)
        from vp.ref import graph as RG
        D = RG.path_lengths(A)
        idx = np.arange(n)
        with np.errstate(all="ignore"):
            rc_ref = np.array([1.0 / D[i, :i].mean() if i else np.nan
                               for i in range(n)])
            ac_ref = np.array([1.0 / D[i, i + 1:].mean() if i < n - 1
                               else np.nan for i in range(n)])

        def nn(v):
            return np.nan_to_num(np.asarray(v, dtype=float), nan=-1.0,
                                 posinf=-2.0, neginf=-3.0)
        with np.errstate(all="ignore"):
            okr, rcl = rec.call("retarded_closeness", vg.retarded_closeness)
            oka, acl = rec.call("advanced_closeness", vg.advanced_closeness)
            if okr:
                rec.close(nn(rcl), nn(rc_ref), "retarded_closeness_def",
                          rtol=1e-9)
            if oka:
                rec.close(nn(acl), nn(ac_ref), "advanced_closeness_def",
                          rtol=1e-9)
            okb, bcc = rec.call("boundary_corrected_closeness",
                                vg.boundary_corrected_closeness)
            if okb and n >= 2:
                want = (n - 1) * (rc_ref / idx + ac_ref / idx[::-1])
                rec.close(nn(bcc), nn(want),
                          "boundary_corrected_closeness_def", rtol=1e-9)
        okb, bcd = rec.call("boundary_corrected_degree",
                            vg.boundary_corrected_degree)
        if okb and n >= 2:
            rd_ref = np.array([A[i, :i].sum() for i in range(n)])
            ad_ref = np.array([A[i, i + 1:].sum() for i in range(n)])
            rec.close(bcd, (rd_ref * idx + ad_ref * idx[::-1]) / float(n - 1),
                      "boundary_corrected_degree_def", rtol=1e-12)
    if case.get("deep") and n <= 10:
        ok1, tb0 = rec.call("trans_betweenness", vg.trans_betweenness)
        ok2, tb1 = rec.call("trans_betweenness_rev", vgr.trans_betweenness)
        if ok1 and ok2:
            rec.close(tb1[::-1], tb0, "reversal_keeps_trans_betweenness",
                      rtol=1e-9)


# --------------------------------------------------------------- generators

def enum_small(tier):
    for n in range(2, 8):
        for xs in itertools.product(range(4), repeat=n):
            for hor in (False, True):
                yield {"x": list(xs), "t": None, "horizontal": hor}


@st.composite
def series(draw, max_len=40, allow_missing=True):
    kind = draw(st.sampled_from(["small", "walk", "dyadic", "wide"]))
    n = draw(st.integers(2, max_len))
    if kind == "small":
        xs = draw(st.lists(st.integers(0, 4), min_size=n, max_size=n))
    elif kind == "walk":
        # piecewise-linear runs: collinear triples by construction
        xs = [draw(st.integers(-20, 20))]
        while len(xs) < n:
            slope = draw(st.integers(-3, 3))
            run = draw(st.integers(1, 5))
            for _ in range(run):
                if len(xs) < n:
                    xs.append(max(-255, min(255, xs[-1] + slope)))
    elif kind == "dyadic":
        xs = [v / 4.0 for v in draw(st.lists(st.integers(-40, 40),
                                             min_size=n, max_size=n))]
    else:
        xs = draw(st.lists(st.integers(-255, 255), min_size=n, max_size=n))
    if draw(st.booleans()):
        ts = None
    else:
        gaps = draw(st.lists(st.integers(1, 3), min_size=n, max_size=n))
        t0 = draw(st.integers(-5, 5))
        ts = list(np.cumsum(gaps) + t0)
        ts = [int(v) for v in ts]
    if allow_missing and draw(st.integers(0, 3)) == 0:
        mask = draw(st.lists(st.integers(0, 4), min_size=n, max_size=n))
        xs = [None if m == 0 else v for v, m in zip(xs, mask)]
    return xs, ts


@st.composite
def long_cases(draw):
    """130..320 samples with links spanning more than 127 steps: a high
    sample in front of a concave arc, a deep valley, or plain noise."""
    n = draw(st.integers(130, 320))
    kind = draw(st.sampled_from(["arc", "arc", "valley", "noise"]))
    h = draw(st.integers(1, 3))
    mid = n // 2
    if kind == "arc":
        xs = [4 * n * n] + [h * (n * n - (k - mid) ** 2) // 4
                            for k in range(1, n)]
    elif kind == "valley":
        xs = [h * (k - mid) ** 2 for k in range(n)]
    else:
        xs = draw(st.lists(st.integers(0, 255), min_size=n, max_size=n))
    bumps = draw(st.lists(st.tuples(st.integers(0, n - 1),
                                    st.integers(-3, 3)), max_size=12))
    for k, d in bumps:
        xs[k] += d
    if draw(st.integers(0, 2)) == 0:
        for k in draw(st.lists(st.integers(1, n - 2), max_size=3)):
            xs[k] = None
    return {"x": xs, "t": None, "horizontal": draw(st.integers(0, 3)) == 0}


@st.composite
def criterion_cases(draw):
    xs, ts = draw(series())
    return {"x": xs, "t": ts, "horizontal": draw(st.booleans())}


@st.composite
def relation_cases(draw):
    xs, ts = draw(series(max_len=24, allow_missing=True))
    # keep transformed magnitudes inside the exactness bound
    a = draw(st.sampled_from([0.5, 1, 2, 4]))
    if any(v is not None and abs(v) > 60 for v in xs):
        a = draw(st.sampled_from([0.5, 1]))
    return {"x": xs, "t": ts, "horizontal": draw(st.booleans()),
            "a": a, "b": draw(st.integers(-8, 8)),
            "c": draw(st.sampled_from([0.5, 1, 2, 3])),
            "d": draw(st.integers(-5, 5)),
            "deep": draw(st.integers(0, 3)) == 0}


SUBCHECKS = [
    SubCheck("exhaustive_small", oracle_criterion, enum=enum_small,
             quick=(8, None), thorough=(8, None)),
    SubCheck("criterion_random", oracle_criterion, gen=criterion_cases,
             quick=(4, 400), thorough=(8, 12000)),
    SubCheck("long_series", oracle_criterion, gen=long_cases,
             quick=(4, 8), thorough=(8, 60)),
    SubCheck("relations", oracle_relations, gen=relation_cases,
             quick=(4, 250), thorough=(8, 6000)),
]
