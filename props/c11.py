"""C11 - cross / internal measures of interacting networks match sub-blocks.

Every cross_* / internal_* / nsi_cross_* / nsi_internal_* method of
InteractingNetworks is compared with its definition evaluated on the induced
sub-blocks of the adjacency, path-length and link-attribute matrices computed
by the harness; compiled vs '_sparse' variants; both argument orders for
group-symmetric measures; the whole-network limit.
"""
import itertools

import numpy as np
from hypothesis import strategies as st

from vp.pbt import SubCheck
from vp.gen import graphs as G
from vp.ref import graph as R

PROPERTY = "C11"
RULE = ("cases = (graph, node weights, link-attribute matrix, ordered pair "
        "of disjoint non-empty node lists in arbitrary order); exhaustive "
        "part = every undirected graph on 2..4 nodes (every 8th on 5 nodes) "
        "x every assignment of nodes to {group 1, group 2, neither} with "
        "both groups non-empty x two list orders; random part = graphs up "
        "to 14 nodes (directed for the methods with directed support), "
        "random groups in random order, incl. pairs without connecting "
        "path. Non-trivial = both groups have >= 2 nodes, at least one "
        "cross link, and at least one list is not sorted; distinct = hash "
        "of the whole case.")
ASSUMPTIONS = [
    "definitions are evaluated on sub-blocks A[ix_(g1,g2)], D[ix_(g1,g2)], "
    "W[ix_(g1,g2)] of matrices computed by the harness (vp/ref/graph.py)",
    "closeness with unreachable pairs uses the convention stated in the "
    "source ('maximum possible path length': N-1 of the whole network for "
    "cross closeness, of the subnetwork for internal closeness); n.s.i. "
    "closeness is compared where every relevant distance is finite",
    "on directed networks only the methods with explicit directed support "
    "(degrees, link counts / densities, sub-block extraction) are held to "
    "their definitions; the class docstring restricts the rest to "
    "undirected networks",
    "InteractingNetworks.global_efficiency (1 / mean local efficiency) is "
    "only checked for consistency with local_efficiency",
]


def build(case):
    from pyunicorn.core import InteractingNetworks
    g = case["g"]
    A = G.adj(g).astype(int)
    net = InteractingNetworks(adjacency=G.represent_adj(A),
                              directed=g["directed"],
                              node_weights=G.represent_weights(case["w"]),
                              silence_level=3)
    W = None
    if case.get("W") is not None and g["edges"]:
        W = np.array(case["W"], dtype=float) * (A != 0)
        net.set_link_attribute("la", W)
    return net, A, W


def groups(case):
    n = case["g"]["n"]
    side = case["side"][:n]
    order = [i for i in case["order"] if i < n]
    g1 = [i for i in order if side[i] == 1]
    g2 = [i for i in order if side[i] == 2]
    return g1, g2


def _call(rec, net, name, *args, allowed=()):
    return rec.call(name + "_raises", getattr(net, name), *args,
                    allowed=allowed)


def _cmp(rec, net, name, ref, *args, clause=None, rtol=1e-9, allowed=()):
    ok, v = _call(rec, net, name, *args, allowed=allowed)
    if ok:
        rec.close(v, ref, clause or name, rtol=rtol, atol=1e-12)
    return ok, v


def cross_clustering_ref(A, g1, g2):
    out = np.zeros(len(g1))
    tri_tot = trip_tot = 0
    for a, v in enumerate(g1):
        nb = [u for u in g2 if A[v, u]]
        k = len(nb)
        trip = k * (k - 1) // 2
        tri = sum(1 for x, y in itertools.combinations(nb, 2) if A[x, y])
        tri_tot += tri
        trip_tot += trip
        if trip:
            out[a] = tri / trip
    return out, (tri_tot / trip_tot if trip_tot else 0.0)


def nsi_cross_clustering_ref(A, w, g1, g2):
    Ap = A + np.eye(len(A), dtype=int)
    out = np.zeros(len(g1))
    t1 = t2 = 0.0
    for a, v in enumerate(g1):
        nb = [u for u in g2 if Ap[v, u]]
        k = sum(w[u] for u in nb)
        s = sum(w[p] * w[q] * Ap[p, q] for p in nb for q in nb)
        if k:
            out[a] = s / k ** 2
        t1 += w[v] * s
        t2 += w[v] * k ** 2
    return out, (t1 / t2 if t2 else np.nan)


def oracle(case, rec):
    g = case["g"]
    n = g["n"]
    directed = g["directed"]
    g1, g2 = groups(case)
    if not g1 or not g2:
        rec.label("degenerate_groups")
        return
    ok, res = rec.call("construct", build, case)
    if not ok:
        return
    net, A, W = res
    w = np.array(case["w"], dtype=float)
    ix = np.ix_(g1, g2)
    xi = np.ix_(g2, g1)
    i1 = np.ix_(g1, g1)
    rec.label("directed" if directed else "undirected")
    unsorted_ = g1 != sorted(g1) or g2 != sorted(g2)
    if unsorted_:
        rec.label("unsorted_list")
    if len(g1) >= 2 and len(g2) >= 2 and A[ix].sum() and unsorted_:
        rec.nontrivial(True)
    D = R.path_lengths(A)
    if not np.isfinite(D[ix]).all():
        rec.label("unreachable_cross_pair")
    sfx = "_dir" if directed else ""
    N1, N2 = len(g1), len(g2)

    # ---- sub-block extraction
    _cmp(rec, net, "cross_adjacency", A[ix], g1, g2,
         clause="cross_adjacency" + sfx)
    _cmp(rec, net, "cross_adjacency_sparse", A[ix], g1, g2,
         clause="cross_adjacency_sparse" + sfx)
    _cmp(rec, net, "internal_adjacency", A[i1], g1,
         clause="internal_adjacency" + sfx)
    _cmp(rec, net, "cross_path_lengths", D[ix], g1, g2,
         clause="cross_path_lengths" + sfx)
    _cmp(rec, net, "internal_path_lengths", D[i1], g1,
         clause="internal_path_lengths" + sfx)
    if W is not None:
        DW = R.path_lengths(A, W)
        _cmp(rec, net, "cross_link_attribute", W[ix], "la", g1, g2,
             clause="cross_link_attribute" + sfx)
        _cmp(rec, net, "internal_link_attribute", W[i1], "la", g1,
             clause="internal_link_attribute" + sfx)
        _cmp(rec, net, "cross_path_lengths", DW[ix], g1, g2, "la",
             clause="cross_path_lengths_weighted" + sfx)
        _cmp(rec, net, "internal_path_lengths", DW[i1], g1, "la",
             clause="internal_path_lengths_weighted" + sfx)
    # ---- degrees
    cout = A[ix].sum(axis=1)
    cin = A[xi].sum(axis=0)
    _cmp(rec, net, "cross_outdegree", cout, g1, g2,
         clause="cross_outdegree" + sfx)
    _cmp(rec, net, "cross_indegree", cin, g1, g2,
         clause="cross_indegree" + sfx)
    cdeg = cin + cout if directed else cout
    _cmp(rec, net, "cross_degree", cdeg, g1, g2, clause="cross_degree" + sfx)
    _cmp(rec, net, "total_cross_degree", cdeg.mean(), g1, g2,
         clause="total_cross_degree" + sfx)
    _cmp(rec, net, "cross_degree_density", cdeg / N2, g1, g2,
         clause="cross_degree_density" + sfx)
    iout = A[i1].sum(axis=1)
    iin = A[i1].sum(axis=0)
    _cmp(rec, net, "internal_outdegree", iout, g1,
         clause="internal_outdegree" + sfx)
    _cmp(rec, net, "internal_indegree", iin, g1,
         clause="internal_indegree" + sfx)
    _cmp(rec, net, "internal_degree", iin + iout if directed else iout, g1,
         clause="internal_degree" + sfx)
    if W is not None:
        _cmp(rec, net, "cross_outdegree", W[ix].sum(axis=1), g1, g2, "la",
             clause="cross_outstrength" + sfx)
        _cmp(rec, net, "cross_indegree", W[xi].sum(axis=0), g1, g2, "la",
             clause="cross_instrength" + sfx)
        _cmp(rec, net, "internal_outdegree", W[i1].sum(axis=1), g1, "la",
             clause="internal_outstrength" + sfx)
        _cmp(rec, net, "internal_indegree", W[i1].sum(axis=0), g1, "la",
             clause="internal_instrength" + sfx)
    # ---- link counts and densities
    nil = A[i1].sum() if directed else A[i1].sum() // 2
    _cmp(rec, net, "number_internal_links", nil, g1,
         clause="number_internal_links" + sfx)
    if N1 >= 2:
        dens = nil / (N1 * (N1 - 1)) * (1 if directed else 2)
        _cmp(rec, net, "internal_link_density", dens, g1,
             clause="internal_link_density" + sfx)
    from pyunicorn.core.network import NetworkError
    _cmp(rec, net, "number_cross_links", A[ix].sum(), g1, g2,
         clause="number_cross_links", allowed=(NetworkError,) if directed
         else ())
    _cmp(rec, net, "cross_link_density", A[ix].sum() / (N1 * N2), g1, g2,
         clause="cross_link_density", allowed=(NetworkError,) if directed
         else ())
    if directed:
        return

    # =================== undirected only ==================================
    # clustering / transitivity
    cl, tr = cross_clustering_ref(A, g1, g2)
    ok1, v1 = _cmp(rec, net, "cross_local_clustering", cl, g1, g2)
    ok2, v2 = _cmp(rec, net, "cross_local_clustering_sparse", cl, g1, g2)
    if ok1 and ok2:
        rec.close(v1, v2, "cross_local_clustering_dense_equals_sparse")
    _cmp(rec, net, "cross_global_clustering", cl.mean(), g1, g2)
    _cmp(rec, net, "cross_global_clustering_sparse", cl.mean(), g1, g2)
    ok1, v1 = _cmp(rec, net, "cross_transitivity", tr, g1, g2)
    ok2, v2 = _cmp(rec, net, "cross_transitivity_sparse", tr, g1, g2)
    if ok1 and ok2:
        rec.close(v1, v2, "cross_transitivity_dense_equals_sparse")
    _cmp(rec, net, "internal_global_clustering",
         R.local_clustering(A)[g1].mean(), g1)
    # path-length based
    Dx = D[ix]
    fin = np.isfinite(Dx)
    if fin.any():
        _cmp(rec, net, "cross_average_path_length", Dx[fin].mean(), g1, g2)
    Di = D[i1]
    offd = ~np.eye(N1, dtype=bool)
    fi = np.isfinite(Di) & offd
    if fi.any():
        _cmp(rec, net, "internal_average_path_length", Di[fi].mean(), g1)
    # unreachable pairs: "set infinite entries ... to maximum possible path
    # length" (source comment): N-1 with N = all nodes of the whole network
    # for cross closeness, the subnetwork's own size for internal closeness
    cc = N2 / np.where(fin, Dx, n - 1).sum(axis=1)
    sfx_c = "" if fin.all() else "_unreachable_pairs"
    _cmp(rec, net, "cross_closeness", cc, g1, g2,
         clause="cross_closeness" + sfx_c)
    _cmp(rec, net, "average_cross_closeness", cc.mean(), g1, g2,
         clause="average_cross_closeness" + sfx_c)
    if fin.all():
        le = (1.0 / Dx).mean(axis=1)
        ok, v = _cmp(rec, net, "local_efficiency", le, g1, g2)
        ok2, ge = _call(rec, net, "global_efficiency", g1, g2)
        if ok and ok2:
            rec.close(ge, 1.0 / np.mean(v),
                      "global_efficiency_consistent_with_local")
    if N1 >= 2:
        ic = (N1 - 1) / np.where(np.isfinite(Di), Di, N1 - 1).sum(axis=1)
        _cmp(rec, net, "internal_closeness", ic, g1,
             clause="internal_closeness" + (
                 "" if np.isfinite(Di).all() else "_unreachable_pairs"))
    if W is not None:
        fw = np.isfinite(DW[ix])
        if fw.any():
            # mean over the connected pairs - zero-length paths included
            _cmp(rec, net, "cross_average_path_length", DW[ix][fw].mean(),
                 g1, g2, "la", clause="cross_average_path_length_weighted")
        DWi = DW[i1]
        fwi = np.isfinite(DWi) & ~np.eye(N1, dtype=bool)
        if fwi.any():
            _cmp(rec, net, "internal_average_path_length", DWi[fwi].mean(),
                 g1, "la", clause="internal_average_path_length_weighted")
        if (W[A != 0] == 0).any():
            rec.label("zero_length_link")
        if fw.all() and (DW[ix].sum(axis=1) > 0).all():
            _cmp(rec, net, "cross_closeness", N2 / DW[ix].sum(axis=1), g1,
                 g2, "la", clause="cross_closeness_weighted")
    # betweenness
    _cmp(rec, net, "cross_betweenness",
         R.interregional_betweenness(A, g1, g2), g1, g2)
    _cmp(rec, net, "internal_betweenness",
         R.interregional_betweenness(A, g1, g1), g1)
    # ---- n.s.i.
    Ap = A + np.eye(n, dtype=int)
    kx = Ap[ix] @ w[g2]
    _cmp(rec, net, "nsi_cross_degree", kx, g1, g2)
    W1, W2 = w[g1].sum(), w[g2].sum()
    _cmp(rec, net, "nsi_cross_mean_degree", kx @ w[g1] / W1, g1, g2)
    _cmp(rec, net, "nsi_cross_edge_density", kx @ w[g1] / W1 / W2, g1, g2)
    _cmp(rec, net, "nsi_internal_degree", Ap[i1] @ w[g1], g1)
    ncl, ntr = nsi_cross_clustering_ref(A, w, g1, g2)
    _cmp(rec, net, "nsi_cross_local_clustering", ncl, g1, g2)
    _cmp(rec, net, "nsi_cross_global_clustering", ncl @ w[g1] / W1, g1, g2)
    if not np.isnan(ntr):
        _cmp(rec, net, "nsi_cross_transitivity", ntr, g1, g2)
    _cmp(rec, net, "nsi_internal_local_clustering",
         nsi_cross_clustering_ref(A, w, g1, g1)[0], g1)
    _cmp(rec, net, "nsi_cross_betweenness", None, g1, g2,
         clause="nsi_cross_betweenness_runs") if False else None
    Dp = D + np.eye(n)
    if np.isfinite(Dp[ix]).all():
        _cmp(rec, net, "nsi_cross_closeness_centrality",
             W2 / (Dp[ix] @ w[g2]), g1, g2)
        apl = (w[g1] @ Dp[ix] @ w[g2]) / (W1 * W2)
        cl_name = "nsi_cross_average_path_length"
        if abs(W1 - W2) > 1e-12:
            # known finding KF-C11-1: normalised by W1*W1 instead of W1*W2
            cl_name += "__groups_of_unequal_weight"
        _cmp(rec, net, "nsi_cross_average_path_length", apl, g1, g2,
             clause=cl_name)
    if np.isfinite(Dp[i1]).all():
        _cmp(rec, net, "nsi_internal_closeness_centrality",
             W1 / (Dp[i1] @ w[g1]), g1)

    # ---- symmetry in the two groups (undirected networks)
    for name in ("number_cross_links", "cross_link_density",
                 "cross_average_path_length", "nsi_cross_edge_density"):
        if name == "cross_average_path_length" and not fin.any():
            continue
        ok1, a = _call(rec, net, name, g1, g2)
        ok2, b = _call(rec, net, name, g2, g1)
        if ok1 and ok2:
            rec.close(a, b, name + "_symmetric_in_groups")
    if np.isfinite(Dp[ix]).all():
        ok1, a = _call(rec, net, "nsi_cross_average_path_length", g1, g2)
        ok2, b = _call(rec, net, "nsi_cross_average_path_length", g2, g1)
        if ok1 and ok2:
            cl_name = "nsi_cross_average_path_length_symmetric_in_groups"
            if abs(W1 - W2) > 1e-12:
                cl_name += "__groups_of_unequal_weight"
            rec.close(a, b, cl_name)


def oracle_whole(case, rec):
    """Both groups = the whole node set reproduces single-network measures."""
    g = case["g"]
    n = g["n"]
    ok, res = rec.call("construct", build, case)
    if not ok:
        return
    net, A, W = res
    allv = [i for i in case["order"] if i < n]
    pos = np.argsort(allv)      # result index of node u is pos[u]
    if g["edges"] and allv != sorted(allv):
        rec.nontrivial(True)
    connected = G.is_connected(A)

    def whole(name, single, args, per_node=True, rtol=1e-9, skw=None):
        ok1, a = _call(rec, net, name, *args)
        ok2, b = rec.call(single + "_raises", getattr(net, single),
                          **(skw or {}))
        if ok1 and ok2:
            a = np.asarray(a, dtype=float)
            b = np.asarray(b, dtype=float)
            if per_node and a.ndim == 1 and a.shape[0] == n:
                a = a[pos]
            rec.close(a, b, "whole_%s_equals_%s" % (name, single), rtol=rtol)

    from pyunicorn.core import Network
    whole("internal_degree", "degree", (allv,))
    whole("nsi_internal_degree", "nsi_degree", (allv,))
    whole("cross_local_clustering", "local_clustering", (allv, allv))
    whole("nsi_cross_local_clustering", "nsi_local_clustering", (allv, allv))
    whole("nsi_internal_local_clustering", "nsi_local_clustering", (allv,))
    ok, v = _call(rec, net, "internal_link_density", allv)
    if ok:
        rec.close(v, net.link_density, "whole_internal_link_density")
    ok, v = _call(rec, net, "number_internal_links", allv)
    if ok:
        rec.close(v, net.n_links, "whole_number_internal_links")
    ok, v = _call(rec, net, "cross_betweenness", allv, allv)
    ok2, b = rec.call("betweenness_raises", net.betweenness)
    if ok and ok2:
        rec.close(np.asarray(v), 2 * np.asarray(b),
                  "whole_cross_betweenness_equals_twice_betweenness")
    tri3, triples = R.triangles_triples(A)
    if triples:
        whole("cross_transitivity", "transitivity", (allv, allv), False)
        whole("nsi_cross_transitivity", "nsi_transitivity", (allv, allv),
              False)
    if np.isfinite(R.path_lengths(A))[~np.eye(n, dtype=bool)].any():
        ok1, a = _call(rec, net, "internal_average_path_length", allv)
        ok2, b = rec.call("apl_raises", Network.average_path_length, net)
        if ok1 and ok2:
            rec.close(a, b, "whole_internal_average_path_length")
    if connected and n >= 2:
        ok1, a = _call(rec, net, "internal_closeness", allv)
        ok2, b = rec.call("closeness_raises", Network.closeness, net)
        if ok1 and ok2:
            rec.close(np.asarray(a)[pos], b, "whole_internal_closeness")
        whole("nsi_internal_closeness_centrality", "nsi_closeness", (allv,))


# -------------------------------------------------------------- generators

def _w(n, salt):
    return [((3 * i + salt) % 7 + 1) / 4.0 for i in range(n)]


def _attr(n, directed, salt):
    W = np.zeros((n, n))
    for i in range(n):
        for j in range(n):
            if i != j:
                a, b = (i, j) if directed or i < j else (j, i)
                W[i, j] = ((5 * a + 3 * b + salt) % 9 + 1) / 2.0
    return W.tolist()


def enum_cases(tier):
    idx = 0
    for g in G.all_small_graphs(5, 0):
        n = g["n"]
        idx += 1
        if n == 5 and idx % (8 if tier == "quick" else 2):
            continue
        for side in itertools.product((0, 1, 2), repeat=n):
            if 1 not in side or 2 not in side:
                continue
            for rev in (False, True):
                order = list(range(n))[::-1] if rev else list(range(n))
                if rev and n > 2:
                    order = order[1:] + order[:1]   # neither sorted nor rev.
                yield {"g": g, "w": _w(n, idx % 5),
                       "W": _attr(n, False, idx % 4) if idx % 2 else None,
                       "side": list(side), "order": order}


@st.composite
def cases(draw, n_min=4, n_max=14):
    directed = draw(st.integers(0, 3)) == 0
    g = draw(G.graphs(n_min, n_max, directed))
    n = g["n"]
    # link attributes may be zero on existing links (co-located nodes of a
    # distance attribute): lo=0 in a third of the weighted cases
    return {"g": g, "w": draw(G.node_weights_wide(n)),
            "W": draw(st.one_of(st.none(), G.link_attr(n, directed),
                                G.link_attr(n, directed, lo=0, hi=3))),
            "side": draw(st.lists(st.integers(0, 2), min_size=n, max_size=n)),
            "order": draw(st.permutations(list(range(n))))}


@st.composite
def whole_cases(draw, n_min=2, n_max=12):
    g = draw(G.graphs(n_min, n_max, False))
    n = g["n"]
    return {"g": g, "w": draw(G.node_weights_wide(n)), "W": None,
            "order": draw(st.permutations(list(range(n))))}


SUBCHECKS = [
    SubCheck("exhaustive", oracle, enum=enum_cases, quick=(10, None),
             thorough=(16, None), exhaustive=()),
    SubCheck("random", oracle, gen=cases, quick=(6, 80),
             thorough=(16, 2500)),
    SubCheck("whole_network_limit", oracle_whole, gen=whole_cases,
             quick=(2, 100), thorough=(8, 2000)),
]


# ---------------------------------------------------------------------------
# CoupledClimateNetwork wrappers == InteractingNetworks calls on (nodes_1,
# nodes_2); layer bookkeeping; geographic node weights survive construction

COUPLED_SPECIAL = {
    "adjacency_1": ("internal_adjacency", 1), "adjacency_2":
    ("internal_adjacency", 2), "cross_layer_adjacency":
    ("cross_adjacency", 12), "path_lengths_1": ("internal_path_lengths", 1),
    "path_lengths_2": ("internal_path_lengths", 2),
    "number_cross_layer_links": ("number_cross_links", 12),
    "internal_betweenness_1": ("internal_betweenness", 1),
    "internal_betweenness_2": ("internal_betweenness", 2),
}


def oracle_coupled(case, rec):
    from pyunicorn.core import GeoGrid, InteractingNetworks as IN
    from pyunicorn.climate import CoupledClimateNetwork
    n1, n2 = len(case["lat1"]), len(case["lat2"])
    n = n1 + n2
    S = np.array(case["S"], dtype=float).reshape(n, n)
    S = np.triu(S, 1) + np.triu(S, 1).T + np.eye(n)
    g1 = GeoGrid(np.arange(3.0), np.array(case["lat1"], dtype=float),
                 np.array(case["lon1"], dtype=float), silence_level=3)
    g2 = GeoGrid(np.arange(3.0), np.array(case["lat2"], dtype=float),
                 np.array(case["lon2"], dtype=float), silence_level=3)
    nwt = case["nwt"]
    ok, net = rec.call("coupled_construct", CoupledClimateNetwork, g1, g2,
                       S, threshold=case["thr"], node_weight_type=nwt,
                       silence_level=3)
    if not ok:
        return
    rec.nontrivial(True)
    rec.label("nwt=%s" % nwt)
    A = np.asarray(net.adjacency)
    S32 = np.abs(S.astype(np.float32))
    expA = (S32 > np.float32(case["thr"])).astype(int)
    np.fill_diagonal(expA, 0)
    rec.equal(A, expA, "coupled_adjacency_is_thresholded_similarity")
    N1 = list(range(n1))
    N2 = list(range(n1, n))
    rec.check(list(net.nodes_1) == N1 and list(net.nodes_2) == N2
              and net.N_1 == n1 and net.N_2 == n2 and net.N == n,
              "coupled_layer_bookkeeping")
    lat = np.array(case["lat1"] + case["lat2"], dtype=np.float32)
    cos = np.cos(lat * np.float32(np.pi / 180)).astype(float)
    wexp = {"surface": cos, "irrigation": cos ** 2, None: np.ones(n)}[nwt]
    nw = net.node_weights
    if nw is None:
        rec.fail("coupled_node_weights_follow_weight_type", "None")
    else:
        rec.close(np.asarray(nw, dtype=float), wexp,
                  "coupled_node_weights_follow_weight_type", rtol=2e-6)
    rec.close(net.similarity_measure_1(), S32[:n1, :n1],
              "coupled_similarity_measure_1", rtol=0)
    rec.close(net.similarity_measure_2(), S32[n1:, n1:],
              "coupled_similarity_measure_2", rtol=0)
    rec.close(net.cross_similarity_measure(), S32[:n1, n1:],
              "coupled_cross_similarity_measure", rtol=0)
    import inspect
    for name in sorted(dir(CoupledClimateNetwork)):
        if name.startswith("_") or name not in vars(CoupledClimateNetwork):
            continue
        fn = getattr(net, name)
        if not callable(fn) or isinstance(
                inspect.getattr_static(CoupledClimateNetwork, name),
                (staticmethod, property)):
            continue
        ps = inspect.signature(fn).parameters.values()
        if any(p.default is inspect.Parameter.empty for p in ps):
            continue
        if name in ("network_1", "network_2", "similarity_measure_1",
                    "similarity_measure_2", "cross_similarity_measure",
                    "cross_link_distance", "cross_average_link_distance"):
            continue
        base, mode = COUPLED_SPECIAL.get(name, (name, None))
        ref = getattr(IN, base, None)
        if ref is None:
            continue
        ok, got = rec.call("coupled_%s_raises" % name, fn)
        if not ok:
            continue
        internal = base.startswith("internal_") or \
            base == "number_internal_links"
        pair = isinstance(got, tuple) and len(got) == 2
        try:
            if name in ("cross_betweenness", "internal_betweenness_1",
                        "internal_betweenness_2"):
                # documented: the whole-network sequence, split by layer
                whole = (ref(net, N1, N2) if mode is None else
                         ref(net, N1 if mode == 1 else N2))
                exp = (np.asarray(whole)[N1], np.asarray(whole)[N2])
            elif mode == 1:
                exp = ref(net, N1)
            elif mode == 2:
                exp = ref(net, N2)
            elif mode == 12:
                exp = ref(net, N1, N2)
            elif internal:
                exp = (ref(net, N1), ref(net, N2))
            elif pair:
                exp = (ref(net, N1, N2), ref(net, N2, N1))
            else:
                exp = ref(net, N1, N2)
        except Exception:  # pylint: disable=broad-except
            continue        # the reference call itself is C11's main oracle
        if isinstance(exp, tuple):
            rec.check(pair, "coupled_%s_returns_pair" % name)
            if pair:
                rec.close(got[0], exp[0], "coupled_%s_layer1" % name,
                          rtol=1e-9)
                rec.close(got[1], exp[1], "coupled_%s_layer2" % name,
                          rtol=1e-9)
        elif not pair:
            rec.close(got, exp, "coupled_%s" % name, rtol=1e-9)


@st.composite
def coupled_cases(draw):
    n1 = draw(st.integers(2, 5))
    n2 = draw(st.integers(2, 5))
    n = n1 + n2

    def co(k):
        return (draw(st.lists(st.integers(-17, 17).map(lambda v: 5.0 * v),
                              min_size=k, max_size=k)),
                draw(st.lists(st.integers(-35, 35).map(lambda v: 5.0 * v),
                              min_size=k, max_size=k)))
    la1, lo1 = co(n1)
    la2, lo2 = co(n2)
    return {"lat1": la1, "lon1": lo1, "lat2": la2, "lon2": lo2,
            "S": draw(st.lists(st.integers(0, 20).map(lambda k: k / 20.0),
                               min_size=n * n, max_size=n * n)),
            "thr": draw(st.integers(0, 19).map(lambda k: k / 20.0 + 0.025)),
            "nwt": draw(st.sampled_from([None, "surface", "irrigation"]))}


def oracle_big(case, rec):
    """Cross degrees of 182..260: k(k-1)/2 leaves int16 there."""
    from pyunicorn.core import InteractingNetworks
    n1, n2 = case["n1"], case["n2"]
    n = n1 + n2
    A = np.zeros((n, n), dtype=int)
    g1 = list(range(n1))
    g2 = list(range(n1, n))
    for a in g1:
        k = case["deg"][a % len(case["deg"])]
        for u in g2[:min(k, n2)]:
            A[a, u] = A[u, a] = 1
    for x, y in case["inner"]:
        x, y = n1 + x % n2, n1 + y % n2
        if x != y:
            A[x, y] = A[y, x] = 1
    ok, net = rec.call("construct", lambda: InteractingNetworks(
        adjacency=A, silence_level=3))
    if not ok:
        return
    rec.nontrivial(True)
    cl, tr = cross_clustering_ref(A, g1, g2)
    rec.label("max_cross_degree=%d" % int(A[np.ix_(g1, g2)].sum(axis=1).max()))
    _cmp(rec, net, "cross_degree", A[np.ix_(g1, g2)].sum(axis=1), g1, g2,
         clause="big_cross_degree")
    _cmp(rec, net, "cross_local_clustering", cl, g1, g2,
         clause="big_cross_local_clustering")
    _cmp(rec, net, "cross_local_clustering_sparse", cl, g1, g2,
         clause="big_cross_local_clustering_sparse")
    _cmp(rec, net, "cross_global_clustering", cl.mean(), g1, g2,
         clause="big_cross_global_clustering")
    _cmp(rec, net, "cross_transitivity", tr, g1, g2,
         clause="big_cross_transitivity")
    _cmp(rec, net, "cross_transitivity_sparse", tr, g1, g2,
         clause="big_cross_transitivity_sparse")
    _cmp(rec, net, "internal_degree", A[np.ix_(g2, g2)].sum(axis=1), g2,
         clause="big_internal_degree")
    _cmp(rec, net, "internal_global_clustering",
         R.local_clustering(A)[g2].mean(), g2,
         clause="big_internal_global_clustering")


@st.composite
def big_cases(draw):
    n2 = draw(st.integers(185, 270))
    return {"n1": draw(st.integers(1, 3)), "n2": n2,
            "deg": draw(st.lists(st.integers(150, 270), min_size=1,
                                 max_size=3)) + [n2],
            "inner": draw(st.lists(st.tuples(st.integers(0, 300),
                                             st.integers(0, 300)).map(list),
                                   min_size=50, max_size=600))}


SUBCHECKS.append(SubCheck("big_cross_degree", oracle_big, gen=big_cases,
                          quick=(4, 3), thorough=(8, 25)))
SUBCHECKS.append(SubCheck("coupled_climate_network", oracle_coupled,
                          gen=coupled_cases, quick=(2, 60),
                          thorough=(8, 800)))
