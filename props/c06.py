"""C06 - queries are pure: no interference, inputs are never modified.

One generic engine interprets a generated SEQUENCE of public queries (data:
query names from a per-class table built by introspection plus explicit
argument patterns) against one object and reports four groups of clauses
(<Class> = the class that DEFINES the interfering / called method, so that a
root cause has the same signature whatever subclass the object has):

  order/<Class>:<interferer>-><victim>      a deterministic query returns
        another value than on a FRESH TWIN on which only that query is
        evaluated (the isolated value is computed once per (object, query) and
        cached by the harness); the interferer is found by re-running
        [interferer, victim] pairs on fresh twins
  stale/<Class>:<interferer>-><victim>      a value handed out earlier (the
        harness only keeps the reference, it never writes) differs from the
        deep snapshot taken when it was returned, i.e. a LATER LIBRARY CALL
        edited an array the library had already returned / memoised
  repeat/<Class>:<query>                    the same deterministic query
        issued twice in a row returns two different values
  input/<Class>:<call>:<input>              a caller-owned array differs
        byte-wise (bytes + dtype + shape) from its snapshot after a
        constructor (<call> = "<init>" / "new:<Kind>") or a query that is not
        documented as in-place; the same for the observable state of a SHARED
        data object (observable(), anomaly(), phase_mean(), _full_observable,
        grids), whose reference value comes from a data object without history

After a reported modification the harness puts the array back (restores the
snapshot in place) so that ONE root cause gives ONE signature and the search
continues behind it; if the object keeps a reference to the modified input
and derived state (Surrogates) the sequence stops instead.

Randomised methods (surrogates, shuffles, random cross links) take part only
as interferers.  Both library RNGs are seeded before every call from
(case seed, query name), so methods that draw random numbers internally (kNN
tie-breaking noise, ARPACK start vectors) are deterministic functions of the
case and comparable with their isolated evaluation.
"""
import inspect
import re
import zlib

import numpy as np
from hypothesis import strategies as st

from vp.pbt import SubCheck, HarnessError, allclose, case_hash, \
    seed_library_rngs
from vp.gen import graphs as G

PROPERTY = "C06"
RULE = ("cases = (object inputs, sequence of public query names with repeat "
        "flags, RNG seed); classes: Network, GeoNetwork (+ its GeoGrid), "
        "InteractingNetworks with node lists, ResNetwork, the climate network "
        "classes built one after another in generated order from ONE shared "
        "ClimateData (constructors as pseudo queries 'new:<Kind>' of the data "
        "object), each climate network class with its own queries, "
        "Data/ClimateData with windows, SpatialNetwork + Grid, RecurrencePlot "
        "/ RecurrenceNetwork / CrossRecurrencePlot / JointRecurrencePlot / "
        "JointRecurrenceNetwork / InterSystemRecurrenceNetwork, "
        "VisibilityGraph, Surrogates, CouplingAnalysis, EventSeries, static "
        "helpers with caller arrays; enumerated part = ordered pairs "
        "(q1, q2) of the Network / GeoNetwork query tables on fixed graphs "
        "(all pairs in the thorough tier, a strided sample in quick) run as "
        "q1 q2 q1 q2. Non-trivial = a checked deterministic query is preceded "
        "by a DIFFERENT query of the same object (approximation of 'touches "
        "the same cached intermediate'); for constructor chains: a derived "
        "object is built from a data object that an earlier constructor "
        "already used; distinct = (class, q_before, q).")
ASSUMPTIONS = [
    "fresh-twin differential: the isolated value of a query comes from the "
    "same library on an object without history; both sides raising the same "
    "exception type counts as equal",
    "values are compared structurally (arrays, sparse matrices, tuples, "
    "dicts, Network-like objects by adjacency / node weights) with rtol 1e-9 "
    "(1e-6 for ARPACK based spectral measures, which start from a random "
    "vector); dtype differences are not compared",
    "spectral measures only on connected undirected graphs (degenerate "
    "eigen-spaces are not a function of the graph)",
    "mutators (set_*, del_*, update_*, randomly_rewire*, clear_cache, "
    "cache_clear, normalize_original_data, save) are not queries; the "
    "explicit list per class is NOT_QUERIES below, a public method that is in "
    "neither table nor list is a harness error",
    "in-place allow-list derived from the docstrings (grep 'in place' / "
    "'in-place' / 'Modifies the given array'): "
    "Data.normalize_time_series_array, RecurrencePlot.normalize_time_series, "
    "CouplingAnalysis.symmetrize_by_absmax ('returns the in-place changed "
    "matrices'); their array arguments are exempt from the input clause",
    "history length <= 8 and a finite argument-pattern table per method",
    "a constructor that rejects its input is counted (label "
    "construct_raised), not failed: validity of constructors is C05/C07/C09",
    "defects that act inside a constructor on the object's OWN state are "
    "invisible to a fresh-twin differential (the twin runs the same "
    "constructor); caller inputs and shared data are still compared",
    "InteractingNetworks.RandomlyRewireCrossLinks and the geomodel rewiring "
    "methods loop until a random proposal is accepted (hang risk) and are "
    "not called",
]

TOL = 1e-9
SPECTRAL = {"eigenvector_centrality", "nsi_eigenvector_centrality",
            "msf_synchronizability"}
# a query may only be exempted from the input clause (Q.inplace_ok) if the
# docstring of its method says so; build_table() enforces this
INPLACE_DOC = re.compile(r"in[- ]place|modifies the given array", re.I)


# ===================================================================== values

def canon(x):
    """Deep, library-independent snapshot of a returned value."""
    import scipy.sparse as sp
    if x is None or isinstance(x, (bool, str)):
        return x
    if isinstance(x, (int, float, complex, np.generic)):
        return np.array(x)
    if isinstance(x, np.ndarray):
        if x.dtype == object:
            return ("objarr", x.shape, tuple(canon(v) for v in x.ravel()))
        return np.array(x, copy=True)
    if sp.issparse(x):
        return ("sparse", np.array(x.toarray()))
    if isinstance(x, dict):
        return ("dict", tuple((str(k), canon(v)) for k, v in
                              sorted(x.items(), key=lambda kv: str(kv[0]))))
    if isinstance(x, (list, tuple)):
        return ("seq", tuple(canon(v) for v in x))
    tname = type(x).__name__
    if tname == "Graph" and hasattr(x, "get_edgelist"):
        return ("igraph", bool(x.is_directed()), int(x.vcount()),
                tuple(sorted(x.get_edgelist())))
    if hasattr(x, "sp_A") and hasattr(x, "node_weights"):
        nw = x.node_weights
        return ("net", tname, bool(x.directed), np.array(x.sp_A.toarray()),
                None if nw is None else np.array(nw, copy=True))
    if hasattr(x, "_grid") and isinstance(getattr(x, "_grid"), dict):
        return ("grid", tname, canon(x._grid))   # pylint: disable=W0212
    if hasattr(x, "original_data"):
        return ("surrogates", canon(x.original_data))
    return ("opaque", tname)


def same(a, b, tol=TOL):
    if isinstance(a, np.ndarray) or isinstance(b, np.ndarray):
        if not (isinstance(a, np.ndarray) and isinstance(b, np.ndarray)):
            return False
        if a.dtype.kind in "OUS" or b.dtype.kind in "OUS":
            return a.shape == b.shape and bool(np.all(a == b))
        return allclose(a, b, rtol=tol, atol=tol * 1e-3)
    if isinstance(a, tuple) or isinstance(b, tuple):
        if not (isinstance(a, tuple) and isinstance(b, tuple)) or \
                len(a) != len(b):
            return False
        return all(same(x, y, tol) for x, y in zip(a, b))
    return type(a) is type(b) and a == b


def brief(c, n=6):
    if isinstance(c, np.ndarray):
        return "%s%s" % (np.array2string(c.ravel()[:n], precision=6,
                                         separator=","), list(c.shape))
    if isinstance(c, tuple):
        return "(" + ",".join(brief(v, n) for v in c[:4]) + ")"
    return repr(c)[:60]


def where_diff(a, b):
    """Short description of the first difference of two snapshots."""
    if isinstance(a, np.ndarray) and isinstance(b, np.ndarray):
        if a.shape != b.shape:
            return "shape %s vs %s" % (a.shape, b.shape)
        try:
            with np.errstate(invalid="ignore"):
                neq = ~((a == b) | ((a != a) & (b != b)))
            idx = np.argwhere(neq)
            if len(idx):
                i = tuple(idx[0])
                return "%d entries differ, first at %s: %r vs %r" % (
                    len(idx), list(map(int, i)), a[i].item(), b[i].item())
        except Exception:  # pylint: disable=broad-except
            pass
        return "arrays differ"
    if isinstance(a, tuple) and isinstance(b, tuple) and len(a) == len(b):
        for k, (x, y) in enumerate(zip(a, b)):
            if not same(x, y, 0.0):
                return "[%d] %s" % (k, where_diff(x, y))
    return "%s vs %s" % (brief(a), brief(b))


# ------------------------------------------------------------- input snapshots

def snap(x):
    """Byte-wise snapshot of a caller-owned input."""
    import scipy.sparse as sp
    if isinstance(x, np.ndarray):
        return ("nd", x.tobytes(), str(x.dtype), x.shape)
    if sp.issparse(x):
        return ("sp", type(x).__name__, x.shape) + tuple(
            snap(np.asarray(getattr(x, a))) for a in ("data", "indices",
                                                      "indptr", "row", "col")
            if hasattr(x, a))
    if isinstance(x, dict):
        return ("dict", tuple((str(k), snap(v)) for k, v in
                              sorted(x.items(), key=lambda kv: str(kv[0]))))
    if isinstance(x, (list, tuple)):
        return (type(x).__name__, tuple(snap(v) for v in x))
    if x is None or isinstance(x, (bool, int, float, str, complex)):
        return ("py", repr(x))
    if isinstance(x, np.generic):
        return ("npy", repr(x.item()), str(x.dtype))
    return ("obj", _snap_obj(canon(x)))


def _snap_obj(c):
    if isinstance(c, np.ndarray):
        return snap(c)
    if isinstance(c, tuple):
        return tuple(_snap_obj(v) for v in c)
    return c


def _restore(v, s):
    """Write a snapshot back into a (modified) array; False if impossible."""
    if isinstance(v, np.ndarray) and s[0] == "nd" and v.shape == s[3] and \
            str(v.dtype) == s[2] and v.flags.writeable:
        v[...] = np.frombuffer(s[1], dtype=s[2]).reshape(s[3])
        return True
    return False


def snap_diff(a, b):
    """Human readable first difference of two snapshots."""
    if a[0] == "nd" and b[0] == "nd":
        if a[2:] != b[2:]:
            return "dtype/shape %s%s -> %s%s" % (a[2], a[3], b[2], b[3])
        x = np.frombuffer(a[1], dtype=a[2]).reshape(a[3])
        y = np.frombuffer(b[1], dtype=b[2]).reshape(b[3])
        return where_diff(x, y)
    if isinstance(a, tuple) and isinstance(b, tuple) and len(a) == len(b):
        for x, y in zip(a, b):
            if x != y:
                if isinstance(x, tuple) and isinstance(y, tuple):
                    return snap_diff(x, y)
                return "%r -> %r" % (x, y)
    return "changed"


# ==================================================================== queries

class Q:
    """One entry of a query table."""
    __slots__ = ("name", "method", "fn", "rand", "tol", "inplace_ok",
                 "needs")

    def __init__(self, name, method, fn, rand=False, tol=TOL,
                 inplace_ok=(), needs=()):
        self.needs = tuple(needs)  # case flags required for applicability
        self.name = name          # key stored in the case
        self.method = method      # library method the entry exercises
        self.fn = fn              # fn(obj, inputs) -> value
        self.rand = rand          # randomised: interferer only
        self.tol = tol
        self.inplace_ok = tuple(inplace_ok)   # inputs it may edit (documented)


def _public(cls):
    """name -> kind of every public attribute of a class."""
    out = {}
    for name in sorted(dir(cls)):
        if name.startswith("_"):
            continue
        attr = inspect.getattr_static(cls, name)
        if isinstance(attr, property):
            out[name] = "property"
        elif isinstance(attr, staticmethod):
            out[name] = "static"
        elif isinstance(attr, classmethod):
            out[name] = "classmethod"
        elif callable(attr):
            out[name] = "method"
        else:
            out[name] = "attr"
    return out


def _zero_arg(cls, name):
    fn = getattr(cls, name)
    try:
        ps = [p for p in inspect.signature(fn).parameters.values()
              if p.name != "self"]
    except (TypeError, ValueError):
        return False
    return all(p.default is not inspect.Parameter.empty
               or p.kind in (p.VAR_POSITIONAL, p.VAR_KEYWORD) for p in ps)


def _meth(name, *args, **kw):
    """Query calling obj.<name> with literal args; strings starting with '$'
    are looked up in the inputs dict (caller-owned arrays)."""
    def fn(obj, inp):
        a = [inp[v[1:]] if isinstance(v, str) and v.startswith("$") else v
             for v in args]
        k = {key: (inp[v[1:]] if isinstance(v, str) and v.startswith("$")
                   else v) for key, v in kw.items()}
        target = obj
        for part in name.split(".")[:-1]:
            target = getattr(target, part)
            if callable(target) and part.endswith("()"):
                target = target()
        return getattr(target, name.split(".")[-1])(*a, **k)
    return fn


def _prop(name):
    def fn(obj, inp):
        target = obj
        for part in name.split("."):
            target = getattr(target, part)
        return target
    return fn


def build_table(cls, not_queries, explicit, random_names=(), prefix="",
                props=(), skip_auto=()):
    """Zero-argument public methods by introspection + explicit patterns.
    Every public method must be in the table, covered by an explicit entry
    or listed in ``not_queries``."""
    table = {}
    pub = _public(cls)
    covered = set()
    for q in explicit:
        if q.name in table:
            raise HarnessError("duplicate query %s" % q.name)
        table[q.name] = q
        covered.add(q.method.split(".")[-1])
        if q.inplace_ok:
            doc = getattr(cls, q.method.split(".")[-1]).__doc__ or ""
            if not INPLACE_DOC.search(doc):
                raise HarnessError("%s.%s exempted from the input clause but "
                                   "not documented as in-place" % (
                                       cls.__name__, q.method))
    for name, kind in pub.items():
        if kind != "method" or name in not_queries or name in skip_auto:
            continue
        if _zero_arg(cls, name):
            qn = prefix + name
            if qn not in table:
                table[qn] = Q(qn, prefix + name, _meth(prefix + name),
                              rand=name in random_names,
                              tol=1e-6 if name in SPECTRAL else TOL)
            covered.add(name)
    for name in props:
        qn = "prop:" + prefix + name
        table[qn] = Q(qn, prefix + name, _prop(prefix + name))
    missing = [n for n, k in pub.items() if k == "method"
               and n not in covered and n not in not_queries
               and n not in skip_auto]
    if missing:
        raise HarnessError("%s: public methods neither in the query table "
                           "nor excluded: %s" % (cls.__name__, missing))
    return table


# ==================================================================== engine

class Family:
    """A class family: how to make inputs, build the object, which queries."""
    name = "?"
    aliased = ()   # inputs the object is documented / known to keep by reference

    def inputs(self, case):       # -> dict of fresh caller-owned inputs
        raise NotImplementedError

    def construct(self, case, inp):   # -> object
        raise NotImplementedError

    def table(self, case):        # -> dict name -> Q applicable to this case
        raise NotImplementedError

    def shared(self, obj, inp):   # -> dict name -> thunk giving observable
        return {}                 #    state of shared objects (like inputs)

    def baseline_object(self, case, inp):
        """Object without history on which shared() gives the reference."""
        return self.construct(case, inp)

    def region(self, obj, qname):
        """Suffix for the clause name when (object, victim query) lies in the
        region of a known finding (decided from the library state)."""
        if qname == "nsi_eigenvector_centrality":
            # eigsh(..., sigma=total_node_weight**2) looks for the eigenvalue
            # NEAREST to sigma; the top eigenvalue is <= the total weight W,
            # so for W < 1 sigma lies inside the spectrum and a lower
            # (possibly degenerate) eigenvalue can be nearer: the result then
            # depends on ARPACK's unseeded random start vector
            try:
                if float(obj.total_node_weight) < 1.0:
                    return "__total_node_weight_below_1"
            except (AttributeError, TypeError):
                pass
        return ""

    def cls_name(self, case):
        return self.name

    def key(self, case):
        # the seed stays in the key: kNN tie-breaking noise / ARPACK start
        # vectors make some isolated values a function of it
        c = {k: v for k, v in case.items() if k not in ("seq", "q1", "q2")}
        return self.name + ":" + case_hash(c)


_BASE = {}


def shared_baseline(fam, case):
    key = fam.key(case)
    if key not in _BASE:
        if len(_BASE) > 500:
            _BASE.clear()
        inp = fam.inputs(case)
        try:
            obj = fam.baseline_object(case, inp)
            _BASE[key] = {k: snap(th()) for k, th in
                          fam.shared(obj, inp).items()}
        except HarnessError:
            raise
        except Exception:  # pylint: disable=broad-except
            _BASE[key] = {}
    return _BASE[key]


_ISO = {}          # (family key, query) -> ("val", canon) | ("exc", type name)
_ISO_MAX = 4000


class Session:
    """One object with its inputs, snapshots and handed-out values."""

    def __init__(self, fam, case, rec, report=True):
        self.fam = fam
        self.case = case
        self.rec = rec
        self.report = report
        self.cls = fam.cls_name(case)
        self.inp = fam.inputs(case)
        self.snaps = {k: snap(v) for k, v in self.inp.items()}
        self.obj = None
        self.held = []       # (query name, reference, canon at return time)
        self.shared_snaps = {}
        self.ok = False
        self.dead = False    # state undefined after a reported modification
        self.tab = fam.table(case)

    def build(self):
        seed_library_rngs(self.case.get("seed", 0), 1)
        # a constructor that rejects its input is not a purity question
        # (C05/C07/C09 decide that): counted, not failed
        try:
            ok, obj = True, self.fam.construct(self.case, self.inp)
        except HarnessError:
            raise
        except Exception as e:  # pylint: disable=broad-except
            ok, obj = False, e
        if not ok:
            if self.report:
                self.rec.label("construct_raised:%s:%s" % (
                    self.cls, type(obj).__name__))
            return False
        self.obj = obj
        self.ok = True
        self.check_inputs("<init>", ())
        # shared state is compared with its value on a twin WITHOUT history
        # (not with a snapshot of this object, whose constructor may already
        # have edited it)
        self.shared_snaps = dict(shared_baseline(self.fam, self.case))
        self.check_shared("<init>")
        return True

    def own(self, call):
        if call.startswith("new:"):
            return call[4:] + "ClimateNetwork.__init__"
        if call in self.tab and self.obj is not None:
            return owner(self.obj, self.tab[call], self.cls)
        return self.cls

    def check_inputs(self, call, exempt):
        """Compare every caller-owned input with its snapshot.  After a
        reported modification the input is put back (arrays are restored in
        place, other inputs are rebuilt) so that one root cause does not
        show up again as order failures of later queries; if the object keeps
        a reference to the input its state is undefined and the sequence
        stops."""
        for k, v in self.inp.items():
            s = snap(v)
            if s == self.snaps[k]:
                continue
            if k in exempt:
                self.snaps[k] = s
                continue
            if self.report:
                self.rec.fail("input/%s:%s:%s" % (self.own(call), call, k),
                              snap_diff(self.snaps[k], s))
            if k in self.fam.aliased:
                self.dead = True
                self.snaps[k] = s
            elif not _restore(v, self.snaps[k]):
                self.inp[k] = self.fam.inputs(self.case)[k]
                self.snaps[k] = snap(self.inp[k])

    def check_shared(self, call):
        if not self.shared_snaps:
            return
        for k, thunk in self.fam.shared(self.obj, self.inp).items():
            v = thunk()
            s = snap(v)
            if k in self.shared_snaps and s != self.shared_snaps[k]:
                if self.report:
                    self.rec.fail("input/%s:%s:%s" % (self.own(call), call,
                                                      k),
                                  snap_diff(self.shared_snaps[k], s))
                if _restore(v, self.shared_snaps[k]):
                    continue
                self.dead = True
            self.shared_snaps[k] = s

    def check_held(self, call):
        for i, (qn, ref, c) in enumerate(self.held):
            now = canon(ref)
            if not same(now, c, 0.0):
                if self.report:
                    self.rec.fail("stale/%s:%s->%s" % (self.own(call), call,
                                                       qn),
                                  "value returned earlier by %s changed "
                                  "during %s: %s" % (qn, call,
                                                     where_diff(c, now)))
                self.held[i] = (qn, ref, now)

    def run(self, qname, seed):
        """Execute one query; returns ("val", canon) / ("exc", type name)."""
        q = self.tab[qname]
        # the seed is a function of (case, query), not of the position: a
        # method that draws random numbers internally (kNN tie-breaking
        # noise, ARPACK start vectors) is a deterministic function of the
        # seed and is comparable with its isolated evaluation
        seed = (self.case.get("seed", 0) * 1000003 +
                zlib.crc32(qname.encode())) % (2 ** 31)
        seed_library_rngs(seed, seed + 1)
        try:
            val = q.fn(self.obj, self.inp)
        except HarnessError:
            raise
        except Exception as e:  # pylint: disable=broad-except
            out = ("exc", type(e).__name__ + ": " + str(e)[:80])
            val = None
        else:
            out = ("val", canon(val))
        self.check_inputs(qname, q.inplace_ok)
        self.check_shared(qname)
        if not self.dead:
            self.check_held(qname)
        if out[0] == "val" and val is not None and not isinstance(
                val, (bool, int, float, str, complex, np.generic)):
            self.held.append((qname, val, out[1]))
        return out


def owner(obj, q, default):
    """Name of the class that defines the method a query exercises (one
    root cause = one signature, whatever subclass the object has)."""
    name = q.method.split(".")
    target = obj
    for part in name[:-1]:
        target = getattr(target, part, None)
    for k in type(target).__mro__:
        if name[-1] in k.__dict__:
            return k.__name__
    if isinstance(target, type):
        for k in target.__mro__:
            if name[-1] in k.__dict__:
                return k.__name__
    return default


def outcome_same(a, b, tol):
    if a[0] != b[0]:
        return False
    if a[0] == "exc":
        return a[1].split(":")[0] == b[1].split(":")[0]
    return same(a[1], b[1], tol)


def isolated(fam, case, rec, qname):
    key = (fam.key(case), qname)
    if key in _ISO:
        return _ISO[key]
    s = Session(fam, case, rec, report=False)
    if not s.build():
        out = ("exc", "construct")
    else:
        out = s.run(qname, 12345)
    if len(_ISO) > _ISO_MAX:
        _ISO.clear()
    _ISO[key] = out
    return out


def blame(fam, case, rec, steps, k, tol):
    """Which earlier query makes steps[k] deviate? Re-run [j, k] pairs on
    fresh twins (earliest first); fall back to the immediate predecessor."""
    qk = steps[k][0]
    iso = isolated(fam, case, rec, qk)
    tried = []
    for j in range(k):
        qj = steps[j][0]
        if qj in tried:
            continue
        tried.append(qj)
        s = Session(fam, case, rec, report=False)
        if not s.build():
            continue
        s.run(qj, case.get("seed", 0) + j)
        out = s.run(qk, case.get("seed", 0) + k)
        if not outcome_same(out, iso, tol):
            return qj
    return "<sequence>"


def run_sequence(fam, case, rec, steps):
    """steps: list of [query name, repeat flag]."""
    s = Session(fam, case, rec)
    cls = s.cls
    rec.label("class:" + cls)
    if not s.build():
        return None
    seed = case.get("seed", 0)
    last = {}
    prev_name = None
    nt_key = None
    for k, (qname, rep) in enumerate(steps):
        if qname not in s.tab:
            rec.label("query_not_applicable")
            continue
        q = s.tab[qname]
        out = s.run(qname, seed + k)
        rec.label("outcome:" + out[0])
        if out[0] == "exc":
            rec.label("raises:%s:%s:%s" % (cls, qname,
                                           out[1].split(":")[0]))
        if s.dead:
            rec.label("stopped_after_input_modification")
            break
        if q.rand:
            rec.label("interferer:random")
            prev_name = qname
            continue
        iso = isolated(fam, case, rec, qname)
        if not outcome_same(out, iso, q.tol):
            culprit = blame(fam, case, rec, steps, k, q.tol) if k else \
                "<none>"
            rec.fail("order/%s:%s->%s%s" % (s.own(culprit), culprit, qname,
                                            fam.region(s.obj, qname)),
                     "in sequence %s ; isolated %s ; %s" % (
                         _show(out), _show(iso),
                         where_diff(iso[1], out[1])
                         if out[0] == iso[0] == "val" else ""))
        elif qname in last and not outcome_same(out, last[qname], q.tol):
            rec.fail("order/%s:%s->%s%s" % (s.own(prev_name), prev_name,
                                            qname, fam.region(s.obj, qname)),
                     "differs from its own earlier value")
        last[qname] = out
        if prev_name is not None and prev_name != qname:
            nt_key = (cls, prev_name, qname)
        if rep:
            out2 = s.run(qname, seed + k)
            if not outcome_same(out2, out, q.tol):
                rec.fail("repeat/%s:%s%s" % (s.own(qname), qname,
                                             fam.region(s.obj, qname)),
                         "first %s ; second %s" % (_show(out), _show(out2)))
            rec.label("repeated")
        prev_name = qname
    if nt_key is not None:
        rec.nontrivial(nt_key)
    return s


def _show(out):
    return out[1][:90] if out[0] == "exc" else brief(out[1])


def _applicable(tab, flags):
    return {k: q for k, q in tab.items()
            if all(f in flags for f in q.needs)}


_TABLES = {}


def cached_table(key, builder):
    if key not in _TABLES:
        _TABLES[key] = builder()
    return _TABLES[key]


# =================================================================== Network

NETWORK_NOT_QUERIES = {
    # mutators / I/O (documented as changing the object or writing files)
    "set_edge_list", "set_link_attribute", "set_node_attribute",
    "del_link_attribute", "del_node_attribute", "randomly_rewire",
    "cache_clear", "clear_cache", "save",
}
NETWORK_PROPS = ("adjacency", "node_weights", "sp_A", "graph", "n_links",
                 "link_density", "N", "directed", "total_node_weight",
                 "mean_node_weight")
KEYED = ["degree", "indegree", "outdegree", "bildegree", "nsi_degree",
         "nsi_indegree", "nsi_outdegree", "nsi_bildegree",
         "local_cyclemotif_clustering", "local_midmotif_clustering",
         "local_inmotif_clustering", "local_outmotif_clustering",
         "nsi_local_cyclemotif_clustering", "nsi_local_midmotif_clustering",
         "nsi_local_inmotif_clustering", "nsi_local_outmotif_clustering"]
WEIGHTED_PATH = ["path_lengths", "average_path_length", "closeness",
                 "global_efficiency", "local_vulnerability", "pagerank"]


def network_explicit(prefix=""):
    P = prefix
    ex = []
    for m in KEYED:
        ex.append(Q("%s%s(la)" % (P, m), P + m, _meth(P + m, "la"),
                    needs=("W",)))
    for m in WEIGHTED_PATH:
        ex.append(Q("%s%s(la)" % (P, m), P + m, _meth(P + m, "la"),
                    needs=("W",)))
    for m in ("nsi_degree", "nsi_local_clustering", "nsi_degree_histogram",
              "nsi_indegree"):
        ex.append(Q("%s%s(tw=2)" % (P, m), P + m,
                    _meth(P + m, typical_weight=2.0)))
    # both optional arguments together (each alone is listed above)
    for m in ("nsi_degree", "nsi_indegree", "nsi_outdegree",
              "nsi_local_cyclemotif_clustering",
              "nsi_local_midmotif_clustering",
              "nsi_local_inmotif_clustering",
              "nsi_local_outmotif_clustering"):
        ex.append(Q("%s%s(la,tw=2)" % (P, m), P + m,
                    _meth(P + m, "la", typical_weight=2.0), needs=("W",)))
    ex.append(Q(P + "nsi_degree(la,tw=4)", P + "nsi_degree",
                _meth(P + "nsi_degree", "la", typical_weight=4.0),
                needs=("W",)))
    ex += [
        Q(P + "link_attribute(la)", P + "link_attribute",
          _meth(P + "link_attribute", "la"), needs=("W",)),
        Q(P + "average_link_attribute(la)", P + "average_link_attribute",
          _meth(P + "average_link_attribute", "la"), needs=("W",)),
        Q(P + "find_link_attribute(la)", P + "find_link_attribute",
          _meth(P + "find_link_attribute", "la")),
        Q(P + "node_attribute(na)", P + "node_attribute",
          _meth(P + "node_attribute", "na")),
        Q(P + "hamming_distance_from(other)", P + "hamming_distance_from",
          _meth(P + "hamming_distance_from", "$other")),
        Q(P + "higher_order_transitivity(3)", P + "higher_order_transitivity",
          _meth(P + "higher_order_transitivity", 3)),
        Q(P + "higher_order_transitivity(4)", P + "higher_order_transitivity",
          _meth(P + "higher_order_transitivity", 4), needs=("undirected",)),
        Q(P + "local_cliquishness(3)", P + "local_cliquishness",
          _meth(P + "local_cliquishness", 3), needs=("undirected",)),
        Q(P + "local_cliquishness(4)", P + "local_cliquishness",
          _meth(P + "local_cliquishness", 4), needs=("undirected",)),
        Q(P + "local_cliquishness(5)", P + "local_cliquishness",
          _meth(P + "local_cliquishness", 5), needs=("undirected",)),
        Q(P + "interregional_betweenness(src,tgt)",
          P + "interregional_betweenness",
          _meth(P + "interregional_betweenness", "$src", "$tgt")),
        Q(P + "nsi_interregional_betweenness(src,tgt)",
          P + "nsi_interregional_betweenness",
          _meth(P + "nsi_interregional_betweenness", "$src", "$tgt")),
        Q(P + "nsi_betweenness(src)", P + "nsi_betweenness",
          _meth(P + "nsi_betweenness", sources="$src")),
        Q(P + "nsi_betweenness(nsi=False)", P + "nsi_betweenness",
          _meth(P + "nsi_betweenness", nsi=False)),
        Q(P + "nsi_arenas_betweenness(twinness)",
          P + "nsi_arenas_betweenness",
          _meth(P + "nsi_arenas_betweenness", True, "twinness"),
          needs=("undirected",)),
        Q(P + "nsi_newman_betweenness(True)", P + "nsi_newman_betweenness",
          _meth(P + "nsi_newman_betweenness", True), needs=("undirected",)),
        Q(P + "permuted_copy(perm)", P + "permuted_copy",
          _meth(P + "permuted_copy", "$perm")),
        Q(P + "splitted_copy(1,0.25)", P + "splitted_copy",
          _meth(P + "splitted_copy", 1, 0.25)),
        Q(P + "laplacian(in)", P + "laplacian", _meth(P + "laplacian", "in")),
        Q(P + "diameter(False,False)", P + "diameter",
          _meth(P + "diameter", False, False)),
        Q(P + "distance_based_measures(2)", P + "distance_based_measures",
          _meth(P + "distance_based_measures", 2.0)),
        Q(P + "spreading(0.5)", P + "spreading", _meth(P + "spreading", 0.5)),
        Q(P + "nsi_spreading(0.5)", P + "nsi_spreading",
          _meth(P + "nsi_spreading", 0.5)),
        Q(P + "pagerank(undirected)", P + "pagerank",
          _meth(P + "pagerank", None, False)),
        Q(P + "weighted_local_clustering(WA)", P + "weighted_local_clustering",
          _meth(P + "weighted_local_clustering", "$WA")),
    ]
    return ex


# spectral measures need a connected undirected graph, random-walk
# betweenness an undirected one (C03/C04 domain)
NETWORK_NEEDS = {
    "eigenvector_centrality": ("connected",),
    "nsi_eigenvector_centrality": ("connected",),
    "msf_synchronizability": ("connected",),
    "newman_betweenness": ("undirected",),
    "nsi_newman_betweenness": ("undirected",),
    "arenas_betweenness": ("undirected",),
    "nsi_arenas_betweenness": ("undirected",),
}


def _with_needs(tab, needs):
    for name, nd in needs.items():
        for qn, q in tab.items():
            if q.method.split(".")[-1] == name and not q.needs:
                q.needs = tuple(nd)
    return tab


def network_table():
    from pyunicorn.core import Network
    tab = build_table(Network, NETWORK_NOT_QUERIES, network_explicit(),
                      props=NETWORK_PROPS)
    return _with_needs(tab, NETWORK_NEEDS)


def graph_flags(case):
    g = case["g"]
    A = G.adj(g)
    flags = {"directed" if g["directed"] else "undirected"}
    if case.get("W") is not None and g["edges"]:
        flags.add("W")
    if not g["directed"] and g["n"] >= 3 and g["edges"] and G.is_connected(A):
        flags.add("connected")
    return flags


def graph_inputs(case):
    g = case["g"]
    n = g["n"]
    A = G.adj(g)
    fmt = case.get("fmt", "dense")
    if fmt == "csc":
        import scipy.sparse as sp
        adjacency = sp.csc_matrix(A.astype(np.int16))
    elif fmt == "csr":
        import scipy.sparse as sp
        adjacency = sp.csr_matrix(A.astype(np.int16))
    elif fmt == "list":
        adjacency = A.astype(int).tolist()
    else:
        adjacency = A.astype(case.get("adj_dtype", "int8"))
    inp = {"adjacency": adjacency,
           "w": np.array(case["w"], dtype=float),
           "src": sorted({s % n for s in case.get("src", [0])}),
           "tgt": sorted({t % n for t in case.get("tgt", [1])}),
           "perm": [int(v) for v in np.argsort(
               [(7 * i + 3) % (n + 1) + i / 100.0 for i in range(n)])],
           "na": np.arange(n, dtype=float) / 4.0}
    W = case.get("W")
    if W is not None and g["edges"]:
        inp["W"] = np.array(W, dtype=float)
        WA = np.array(W, dtype=float) * A
    else:
        WA = A.astype(float)
    inp["WA"] = WA
    return inp


class NetworkFamily(Family):
    name = "Network"

    def inputs(self, case):
        from pyunicorn.core import Network
        inp = graph_inputs(case)
        g = case["g"]
        B = np.roll(G.adj(g), 1, axis=0)
        B = np.roll(B, 1, axis=1)
        if not g["directed"]:
            B = ((B + B.T) > 0).astype(np.int8)
        np.fill_diagonal(B, 0)
        inp["other"] = Network(adjacency=B, directed=g["directed"],
                               silence_level=3)
        return inp

    def construct(self, case, inp):
        from pyunicorn.core import Network
        net = Network(adjacency=inp["adjacency"],
                      directed=case["g"]["directed"], node_weights=inp["w"],
                      silence_level=3)
        if "W" in inp:
            net.set_link_attribute("la", inp["W"])
        net.set_node_attribute("na", inp["na"])
        return net

    def table(self, case):
        return _applicable(cached_table("Network", network_table),
                           graph_flags(case))


NETWORK = NetworkFamily()


def oracle_sequence(fam):
    def oracle(case, rec):
        run_sequence(fam, case, rec, case["seq"])
    return oracle


def oracle_pair(fam):
    """q1 q2 q1 q2: q2 after q1 (fresh), q1's value after q2 (memoised or
    recomputed), q2 repeated."""
    def oracle(case, rec):
        q1, q2 = case["q1"], case["q2"]
        run_sequence(fam, case, rec, [[q1, 0], [q2, 0], [q1, 0], [q2, 0]])
    return oracle


def _seq_strategy(names, max_len=8):
    step = st.tuples(st.sampled_from(names), st.integers(0, 3).map(
        lambda v: int(v == 0))).map(list)
    return st.lists(step, min_size=2, max_size=max_len)


@st.composite
def network_cases(draw):
    directed = draw(st.integers(0, 2)) == 0
    g = draw(G.graphs(3, 9 if directed else 11, directed))
    n = g["n"]
    case = {"g": g, "w": draw(G.node_weights(n)),
            "W": draw(st.one_of(st.none(), G.link_attr(n, directed))),
            "fmt": draw(st.sampled_from(["dense", "dense", "csc", "csr",
                                         "list"])),
            "src": draw(st.lists(st.integers(0, 63), min_size=1, max_size=3)),
            "tgt": draw(st.lists(st.integers(0, 63), min_size=1, max_size=3)),
            "seed": draw(st.integers(0, 2 ** 20))}
    names = sorted(NETWORK.table(case))
    case["seq"] = draw(_seq_strategy(names))
    return case


# fixed graphs for the ordered-pair enumeration
def _pair_graphs():
    gs = [
        # connected, triangles, a pendant node
        {"n": 7, "directed": False,
         "edges": [[0, 1], [0, 2], [1, 2], [2, 3], [3, 4], [4, 5], [3, 5],
                   [5, 6], [1, 4]]},
        # two components + isolated node (infinite path lengths)
        {"n": 7, "directed": False,
         "edges": [[0, 1], [1, 2], [0, 2], [2, 3], [4, 5]]},
        # directed, not strongly connected
        {"n": 6, "directed": True,
         "edges": [[0, 1], [1, 0], [1, 2], [2, 3], [3, 1], [0, 4], [4, 3],
                   [2, 0]]},
        # tree
        {"n": 6, "directed": False,
         "edges": [[0, 1], [0, 2], [0, 3], [3, 4], [4, 5]]},
        # dense
        {"n": 5, "directed": False,
         "edges": [[0, 1], [0, 2], [0, 3], [0, 4], [1, 2], [1, 3], [2, 3],
                   [3, 4]]},
        # directed with an isolated node
        {"n": 5, "directed": True,
         "edges": [[0, 1], [1, 2], [2, 0], [2, 3], [3, 2]]},
    ]
    out = []
    for i, g in enumerate(gs):
        n = g["n"]
        W = np.zeros((n, n))
        for a in range(n):
            for b in range(n):
                if a != b:
                    x, y = (a, b) if g["directed"] or a < b else (b, a)
                    W[a, b] = ((5 * x + 3 * y + i) % 7 + 1) / 2.0
        out.append({"g": g, "w": [((3 * k + i) % 5 + 1) / 2.0
                                  for k in range(n)],
                    "W": W.tolist(), "fmt": "dense", "src": [0, 2],
                    "tgt": [1, 3], "seed": 11 + i})
    return out


def enum_pairs(fam, extra=None, quick_stride=13):
    def enum(tier):
        bases = _pair_graphs()
        if extra:
            bases = [dict(b, **extra(i, b)) for i, b in enumerate(bases)]
        if tier == "quick":
            bases = bases[:3]
        for gi, base in enumerate(bases):
            names = sorted(fam.table(base))
            m = len(names)
            # quick: a strided sample in which every query occurs in both
            # roles; thorough: all ordered pairs
            stride = 1 if tier != "quick" else quick_stride
            idx = 0
            for i in range(m):
                for j in range(m):
                    idx += 1
                    if i == j or (idx + gi) % stride:
                        continue
                    yield dict(base, q1=names[i], q2=names[j])
    return enum



# ================================================= GeoNetwork (+ its GeoGrid)

GEO_NOT_QUERIES = NETWORK_NOT_QUERIES | {
    "set_node_weight_type", "randomly_rewire_geomodel_I",
    "randomly_rewire_geomodel_II", "randomly_rewire_geomodel_III",
    "set_random_links_by_distance", "save_for_cgv",
}
GRID_NOT_QUERIES = {"save", "save_txt", "cache_clear"}


def grid_explicit(P="grid."):
    return [
        Q(P + "region_indices(region)", P + "region_indices",
          _meth(P + "region_indices", "$region")),
        Q(P + "convert_lon_coordinates(lons)", P + "convert_lon_coordinates",
          _meth(P + "convert_lon_coordinates", "$lons")),
        Q(P + "node_number(10,20)", P + "node_number",
          _meth(P + "node_number", 10.0, 20.0)),
        Q(P + "node_coordinates(1)", P + "node_coordinates",
          _meth(P + "node_coordinates", 1)),
        Q(P + "sequence(0)", P + "sequence", _meth(P + "sequence", 0)),
        Q(P + "geometric_distance_distribution(3)",
          P + "geometric_distance_distribution",
          _meth(P + "geometric_distance_distribution", 3)),
        Q(P + "RegularGrid(time,(lat2,lon2))", P + "RegularGrid",
          _meth(P + "RegularGrid", "$time_seq", "$latlon", 3)),
        Q(P + "coord_sequence_from_rect_grid(lat2,lon2)",
          P + "coord_sequence_from_rect_grid",
          _meth(P + "coord_sequence_from_rect_grid", "$lat2", "$lon2")),
    ]


def geo_explicit():
    ex = network_explicit()
    for m in ("area_weighted_connectivity_distribution",
              "inarea_weighted_connectivity_distribution",
              "outarea_weighted_connectivity_distribution",
              "area_weighted_connectivity_cumulative_distribution",
              "inarea_weighted_connectivity_cumulative_distribution",
              "outarea_weighted_connectivity_cumulative_distribution"):
        ex.append(Q(m + "(3)", m, _meth(m, 3)))
    for m in ("geographical_distribution",
              "geographical_cumulative_distribution"):
        ex.append(Q(m + "(seq,3)", m, _meth(m, "$seq", 3)))
    ex += [
        Q("link_distance_distribution(3)", "link_distance_distribution",
          _meth("link_distance_distribution", 3)),
        Q("link_distance_distribution(3,spherical,True)",
          "link_distance_distribution",
          _meth("link_distance_distribution", 3, "spherical", True)),
        Q("cartesian2latlon(pos)", "cartesian2latlon",
          _meth("cartesian2latlon", "$pos")),
        Q("latlon2cartesian(lat2,lon2)", "latlon2cartesian",
          _meth("latlon2cartesian", "$lat2", "$lon2")),
    ]
    for m in ("average_link_distance", "inaverage_link_distance",
              "outaverage_link_distance", "total_link_distance",
              "intotal_link_distance", "outtotal_link_distance"):
        ex.append(Q(m + "(True)", m, _meth(m, True)))
    return ex


def geo_table():
    from pyunicorn.core import GeoNetwork, GeoGrid
    tab = build_table(GeoNetwork, GEO_NOT_QUERIES, geo_explicit(),
                      props=NETWORK_PROPS)
    _with_needs(tab, NETWORK_NEEDS)
    tab.update(build_table(GeoGrid, GRID_NOT_QUERIES, grid_explicit(),
                           prefix="grid."))
    return tab


def geo_inputs(case, inp):
    n = case["g"]["n"]
    inp["time_seq"] = np.arange(float(case.get("T", 4)))
    inp["lat"] = np.array(case["lat"], dtype=float)
    inp["lon"] = np.array(case["lon"], dtype=float)
    # polygon lon, lat, lon, lat, ... with negative longitudes
    inp["region"] = np.array([-20.0, -30.0, -20.0, 40.0, 60.0, 40.0, 60.0,
                              -30.0, -20.0, -30.0])
    inp["lons"] = np.array([(37.0 * i) % 360 for i in range(n)])
    inp["seq"] = np.array([((5 * i + 2) % 7) / 2.0 for i in range(n)])
    inp["pos"] = np.array([0.5, 0.5, np.sqrt(0.5)])
    inp["lat2"] = np.array(case["lat"], dtype=float)
    inp["lon2"] = np.array(case["lon"], dtype=float)
    inp["latlon"] = (np.array(case["lat"][:2], dtype=float),
                     np.array(case["lon"][:3], dtype=float))
    return inp


def make_geogrid(inp):
    from pyunicorn.core import GeoGrid
    return GeoGrid(inp["time_seq"], inp["lat"], inp["lon"], silence_level=3)


class GeoFamily(Family):
    name = "GeoNetwork"

    def inputs(self, case):
        inp = graph_inputs(case)
        inp["other"] = NETWORK.inputs(case)["other"]
        return geo_inputs(case, inp)

    def construct(self, case, inp):
        from pyunicorn.core import GeoNetwork
        grid = make_geogrid(inp)
        net = GeoNetwork(grid, adjacency=inp["adjacency"],
                         directed=case["g"]["directed"],
                         node_weight_type=case.get("nwt", "surface"),
                         silence_level=3)
        if "W" in inp:
            net.set_link_attribute("la", inp["W"])
        net.set_node_attribute("na", inp["na"])
        return net

    def table(self, case):
        return _applicable(cached_table("GeoNetwork", geo_table),
                           graph_flags(case))


GEO = GeoFamily()


def _coords(n, salt):
    lat = [float(((17 * i + 5 * salt) % 35 - 17) * 5) for i in range(n)]
    lon = [float(((29 * i + 3 * salt) % 72) * 5) for i in range(n)]
    return lat, lon


def geo_extra(i, base):
    lat, lon = _coords(base["g"]["n"], i)
    if i % 2:
        lon = [v - 180.0 for v in lon]
    return {"lat": lat, "lon": lon, "nwt": ["surface", "irrigation"][i % 2]}


@st.composite
def geo_cases(draw):
    directed = draw(st.integers(0, 2)) == 0
    g = draw(G.graphs(3, 9, directed))
    n = g["n"]
    lat = draw(st.lists(st.integers(-17, 17).map(lambda k: 5.0 * k),
                        min_size=n, max_size=n))
    if draw(st.booleans()):
        lon = draw(st.lists(st.integers(0, 71).map(lambda k: 5.0 * k),
                            min_size=n, max_size=n))
    else:
        lon = draw(st.lists(st.integers(-36, 36).map(lambda k: 5.0 * k),
                            min_size=n, max_size=n))
    case = {"g": g, "w": [1.0] * n, "lat": lat, "lon": lon,
            "W": draw(st.one_of(st.none(), G.link_attr(n, directed))),
            "nwt": draw(st.sampled_from(["surface", "irrigation", None])),
            "src": [0], "tgt": [1],
            "seed": draw(st.integers(0, 2 ** 20))}
    tab = GEO.table(case)
    # favour what GeoNetwork / GeoGrid add to Network
    from pyunicorn.core import Network
    own = sorted(k for k, q in tab.items()
                 if not hasattr(Network, q.method.split(".")[-1]))
    names = sorted(tab)
    step = st.tuples(st.one_of(st.sampled_from(own), st.sampled_from(own),
                               st.sampled_from(names)),
                     st.integers(0, 3).map(lambda v: int(v == 0))).map(list)
    case["seq"] = draw(st.lists(step, min_size=2, max_size=8))
    return case


# ================================================== SpatialNetwork + Grid

def spatial_table():
    from pyunicorn.core import SpatialNetwork, Grid, Network
    ex = [
        Q("link_distance_distribution(3)", "link_distance_distribution",
          _meth("link_distance_distribution", 3)),
        Q("link_distance_distribution(3,euclidean,True)",
          "link_distance_distribution",
          _meth("link_distance_distribution", 3, "euclidean", True)),
        Q("average_link_distance(True)", "average_link_distance",
          _meth("average_link_distance", True)),
        Q("inaverage_link_distance(True)", "inaverage_link_distance",
          _meth("inaverage_link_distance", True)),
        Q("outaverage_link_distance(True)", "outaverage_link_distance",
          _meth("outaverage_link_distance", True)),
    ]
    tab = build_table(SpatialNetwork, GEO_NOT_QUERIES, ex,
                      skip_auto=set(_public(Network)))
    P = "grid."
    gex = [
        Q(P + "node_number(x)", P + "node_number",
          _meth(P + "node_number", "$xy")),
        Q(P + "node_coordinates(1)", P + "node_coordinates",
          _meth(P + "node_coordinates", 1)),
        Q(P + "sequence(1)", P + "sequence", _meth(P + "sequence", 1)),
        Q(P + "geometric_distance_distribution(3)",
          P + "geometric_distance_distribution",
          _meth(P + "geometric_distance_distribution", 3)),
        Q(P + "RegularGrid(time,space_grid)", P + "RegularGrid",
          _meth(P + "RegularGrid", "$time_seq", "$space_grid", 3)),
        Q(P + "coord_sequence_from_rect_grid(space_grid)",
          P + "coord_sequence_from_rect_grid",
          _meth(P + "coord_sequence_from_rect_grid", "$space_grid")),
    ]
    tab.update(build_table(Grid, GRID_NOT_QUERIES, gex, prefix=P))
    base = cached_table("Network", network_table)
    for k in NET_BASE + ["closeness(la)", "find_link_attribute(la)"]:
        tab[k] = base[k]
    return tab


class SpatialFamily(Family):
    name = "SpatialNetwork"

    def inputs(self, case):
        inp = graph_inputs(case)
        inp["time_seq"] = np.arange(3.0)
        inp["space_seq"] = np.array([case["lat"], case["lon"]], dtype=float)
        inp["xy"] = np.array([10.0, 20.0])
        inp["space_grid"] = np.array([[0.0, 5.0, 10.0], [1.0, 2.0, 4.0]])
        return inp

    def construct(self, case, inp):
        from pyunicorn.core import SpatialNetwork, Grid
        grid = Grid(inp["time_seq"], inp["space_seq"], silence_level=3)
        net = SpatialNetwork(grid, adjacency=inp["adjacency"],
                             directed=case["g"]["directed"], silence_level=3)
        if "W" in inp:
            net.set_link_attribute("la", inp["W"])
        return net

    def table(self, case):
        return _applicable(cached_table("SpatialNetwork", spatial_table),
                           graph_flags(case))


SPATIAL = SpatialFamily()


@st.composite
def spatial_cases(draw):
    directed = draw(st.integers(0, 2)) == 0
    g = draw(G.graphs(3, 8, directed))
    n = g["n"]
    case = {"g": g, "w": [1.0] * n,
            "lat": draw(st.lists(st.integers(-8, 8).map(float), min_size=n,
                                 max_size=n)),
            "lon": draw(st.lists(st.integers(-8, 8).map(float), min_size=n,
                                 max_size=n)),
            "W": draw(st.one_of(st.none(), G.link_attr(n, directed))),
            "seed": draw(st.integers(0, 2 ** 20))}
    case["seq"] = draw(_seq_strategy(sorted(SPATIAL.table(case))))
    return case


# ====================================================== InteractingNetworks

def interacting_table():
    from pyunicorn.core import InteractingNetworks, Network
    ex = []
    pub = _public(InteractingNetworks)
    for name, kind in pub.items():
        if kind != "method" or hasattr(Network, name) and \
                name != "global_efficiency":
            continue
        ps = [p for p in inspect.signature(
            getattr(InteractingNetworks, name)).parameters.values()
            if p.name != "self"]
        req = [p.name for p in ps if p.default is inspect.Parameter.empty]
        opt = [p.name for p in ps if p.default is not inspect.Parameter.empty]
        for tag, lists in (("", ("$l1", "$l2")), ("@arrays", ("$a1", "$a2"))):
            if req == ["node_list1", "node_list2"]:
                args = lists
            elif req == ["node_list"]:
                args = lists[:1]
            elif req == ["attribute_name", "node_list1", "node_list2"]:
                args = ("la",) + lists
            elif req == ["attribute_name", "node_list"]:
                args = ("la",) + lists[:1]
            else:
                raise HarnessError("InteractingNetworks.%s%s: unknown "
                                   "signature" % (name, req))
            needs = ("W",) if "attribute_name" in req else ()
            if tag and name not in ("cross_path_lengths", "cross_degree",
                                    "internal_path_lengths",
                                    "cross_local_clustering",
                                    "nsi_cross_degree", "subnetwork"):
                continue
            ex.append(Q(name + tag, name, _meth(name, *args), needs=needs))
            if "link_attribute" in opt and not tag:
                ex.append(Q(name + "(la)", name,
                            _meth(name, *args, link_attribute="la"),
                            needs=("W",)))
    # randomised derived networks: interferers (RandomlyRewireCrossLinks
    # loops until a random proposal is accepted - hang risk - not called)
    for name in ("RandomlySetCrossLinks", "RandomlySetCrossLinks_sparse"):
        ex.append(Q(name + "(self,l1,l2,0.5)", name,
                    (lambda nm: lambda o, inp: getattr(type(o), nm)(
                        o, inp["l1"], inp["l2"], cross_link_density=0.5))(
                            name), rand=True))
    own = build_table(InteractingNetworks, NETWORK_NOT_QUERIES, ex,
                      skip_auto=set(_public(Network)))
    # Network queries that share the memoised intermediates (path lengths,
    # degrees, adjacency) act as interferers / victims as well
    base = cached_table("Network", network_table)
    for k in ("path_lengths", "path_lengths(la)", "average_path_length(la)",
              "closeness(la)", "global_efficiency(la)", "degree", "indegree",
              "outdegree", "nsi_degree", "betweenness", "local_clustering",
              "prop:adjacency", "prop:node_weights", "prop:sp_A",
              "link_attribute(la)", "nsi_closeness", "transitivity"):
        if k == "global_efficiency(la)":
            continue   # overridden signature (node lists) in this class
        own[k] = base[k]
    return own


class InteractingFamily(Family):
    name = "InteractingNetworks"

    def inputs(self, case):
        inp = graph_inputs(case)
        n = case["g"]["n"]
        side = [s % 3 for s in case["side"][:n]]
        order = [i for i in case["order"] if i < n]
        l1 = [i for i in order if side[i] == 0]
        l2 = [i for i in order if side[i] == 1]
        rest = [i for i in order if side[i] == 2]
        if not l1:
            l1 = [(rest or l2).pop()]
        if not l2:
            l2 = [rest.pop() if rest else l1.pop()]
        inp["l1"], inp["l2"] = l1, l2
        inp["a1"], inp["a2"] = np.array(l1), np.array(l2)
        return inp

    def construct(self, case, inp):
        from pyunicorn.core import InteractingNetworks
        net = InteractingNetworks(adjacency=inp["adjacency"],
                                  directed=case["g"]["directed"],
                                  node_weights=inp["w"], silence_level=3)
        if "W" in inp:
            net.set_link_attribute("la", inp["W"])
        return net

    def table(self, case):
        return _applicable(cached_table("Interacting", interacting_table),
                           graph_flags(case))


INTERACTING = InteractingFamily()


def inter_extra(i, base):
    n = base["g"]["n"]
    return {"side": [(3 * k + i) % 3 for k in range(n)],
            "order": [(k * 2 + 1 + i) % n if n % 2 else (n - 1 - k)
                      for k in range(n)]}


@st.composite
def interacting_cases(draw):
    directed = draw(st.integers(0, 3)) == 0
    g = draw(G.graphs(4, 10, directed))
    n = g["n"]
    case = {"g": g, "w": draw(G.node_weights(n)),
            "W": draw(st.one_of(st.none(), G.link_attr(n, directed),
                                G.link_attr(n, directed))),
            "side": draw(st.lists(st.integers(0, 2), min_size=n, max_size=n)),
            "order": draw(st.permutations(list(range(n)))),
            "seed": draw(st.integers(0, 2 ** 20))}
    case["seq"] = draw(_seq_strategy(sorted(INTERACTING.table(case))))
    return case


# ================================================================ ResNetwork

RES_NOT_QUERIES = GEO_NOT_QUERIES | {"update_R", "update_admittance",
                                     "update_resistances"}


def res_table():
    from pyunicorn.core import ResNetwork, GeoNetwork
    ex = [
        Q("effective_resistance(0,2)", "effective_resistance",
          _meth("effective_resistance", 0, 2)),
        Q("effective_resistance(1,1)", "effective_resistance",
          _meth("effective_resistance", 1, 1)),
        Q("effective_resistance_closeness_centrality(1)",
          "effective_resistance_closeness_centrality",
          _meth("effective_resistance_closeness_centrality", 1)),
        Q("vertex_current_flow_betweenness(1)",
          "vertex_current_flow_betweenness",
          _meth("vertex_current_flow_betweenness", 1)),
        Q("vertex_current_flow_betweenness(0)",
          "vertex_current_flow_betweenness",
          _meth("vertex_current_flow_betweenness", 0)),
    ]
    own = build_table(ResNetwork, RES_NOT_QUERIES, ex,
                      skip_auto=set(_public(GeoNetwork)),
                      props=("resistances", "sparse_Adm", "sparse_R"))
    base = cached_table("GeoNetwork", geo_table)
    for k in ("degree", "path_lengths", "betweenness", "prop:adjacency",
              "prop:node_weights", "nsi_degree", "grid.angular_distance",
              "closeness", "local_clustering"):
        own[k] = base[k]
    return own


class ResFamily(Family):
    name = "ResNetwork"

    def inputs(self, case):
        g = case["g"]
        A = G.adj(g)
        R = np.array(case["R"], dtype=float) * (A != 0)
        return {"resistances": R, "adjacency": A.astype(np.int8)}

    def construct(self, case, inp):
        from pyunicorn.core import ResNetwork
        if case.get("with_adj", True):
            return ResNetwork(inp["resistances"], adjacency=inp["adjacency"],
                              silence_level=3)
        return ResNetwork(inp["resistances"], silence_level=3)

    def table(self, case):
        return cached_table("ResNetwork", res_table)


RES = ResFamily()


@st.composite
def res_cases(draw):
    g = draw(G.connected_graph(3, 8))
    n = g["n"]
    case = {"g": g, "R": draw(G.link_attr(n, False, lo=1, hi=16, denom=4.0)),
            "with_adj": draw(st.booleans()),
            "seed": draw(st.integers(0, 2 ** 20))}
    case["seq"] = draw(_seq_strategy(sorted(RES.table(case))))
    return case



# ============================================= shared ClimateData + climate nets

DATA_NOT_QUERIES = {"set_window", "set_global_window", "set_silence_level",
                    "print_data_info", "cache_clear"}
CLIMATE_CLASSES = ["Tsonis", "Spearman", "PartialCorrelation", "MutualInfo",
                   "Havlin", "Hilbert", "CoupledTsonis", "Rainfall",
                   "EventSeries"]


def _climate_net(kind, data, case):
    import pyunicorn.climate as pc
    kw = dict(threshold=case.get("thr", 0.3), silence_level=3)
    winter = bool(case.get("winter"))
    if kind == "Tsonis":
        return pc.TsonisClimateNetwork(data, winter_only=winter, **kw)
    if kind == "Spearman":
        return pc.SpearmanClimateNetwork(data, winter_only=winter, **kw)
    if kind == "PartialCorrelation":
        return pc.PartialCorrelationClimateNetwork(data, winter_only=winter,
                                                   **kw)
    if kind == "MutualInfo":
        return pc.MutualInfoClimateNetwork(data, winter_only=winter, **kw)
    if kind == "Havlin":
        return pc.HavlinClimateNetwork(data, max_delay=case.get("delay", 2),
                                       **kw)
    if kind == "Hilbert":
        return pc.HilbertClimateNetwork(data, directed=bool(
            case.get("hdir", True)), **kw)
    if kind == "CoupledTsonis":
        return pc.CoupledTsonisClimateNetwork(data, data, **kw)
    if kind == "Rainfall":
        return pc.RainfallClimateNetwork(data, event_threshold=(0, 1), **kw)
    if kind == "EventSeries":
        from pyunicorn.climate.eventseries_climatenetwork import \
            EventSeriesClimateNetwork
        return EventSeriesClimateNetwork(
            data, method="ES", taumax=3.0, threshold_method="quantile",
            threshold_values=0.7, threshold_types="above", silence_level=3)
    raise HarnessError(kind)


def _new_net(kind):
    """Pseudo query of the SHARED data object: build a derived network and
    hand out what it computed from the data."""
    def fn(data, inp):
        net = _climate_net(kind, data, inp["__case__"])
        out = {"similarity": net.similarity_measure(),
               "adjacency": net.adjacency}
        if kind == "Havlin":
            out["lag"] = net.correlation_lag()
        if kind == "Hilbert":
            out["phase"] = net.phase_shift()
        return out
    return fn


def data_table():
    from pyunicorn.climate import ClimateData
    ex = [
        Q("indices_selected_phases([0,1])", "indices_selected_phases",
          _meth("indices_selected_phases", "$phases")),
        Q("indices_selected_months([0,1,11])", "indices_selected_months",
          _meth("indices_selected_months", "$months")),
        Q("anomaly_selected_months([0,1,11])", "anomaly_selected_months",
          _meth("anomaly_selected_months", "$months")),
        Q("rescale(arr,float32)", "rescale", _meth("rescale", "$arr",
                                                   "float32")),
        Q("rescale(arr,int16)", "rescale", _meth("rescale", "$arr", "int16")),
        Q("rescale(arr,uint8)", "rescale", _meth("rescale", "$arr", "uint8")),
        Q("zero_pad_data(arr)", "zero_pad_data", _meth("zero_pad_data",
                                                       "$arr")),
        Q("cos_window(arr,0.5)", "cos_window", _meth("cos_window", "$arr",
                                                     0.5)),
        Q("next_power_2(5)", "next_power_2", _meth("next_power_2", 5)),
        Q("normalize_time_series_array(narr)", "normalize_time_series_array",
          _meth("normalize_time_series_array", "$narr"),
          inplace_ok=("narr",)),
    ]
    pub = _public(ClimateData)
    statics = {n for n, k in pub.items() if k in ("static", "classmethod")}
    tab = build_table(ClimateData, DATA_NOT_QUERIES | statics, ex,
                      random_names=("shuffled_anomaly",),
                      props=("grid",))
    for kind in CLIMATE_CLASSES:
        tab["new:" + kind] = Q("new:" + kind, kind, _new_net(kind),
                               tol=1e-6 if kind == "Hilbert" else TOL)
    return tab


class DataFamily(Family):
    """ONE ClimateData object shared by everything that is built from it."""
    name = "ClimateData"

    def inputs(self, case):
        T, n = case["T"], case["n"]
        obs = np.array(case["data"], dtype=float).reshape(T, n) / 8.0
        arr = np.array(case["data"], dtype=float).reshape(T, n) / 4.0 + 1.0
        inp = {"observable": obs,
               "time_seq": np.arange(float(T)),
               "lat": np.array(case["lat"], dtype=float),
               "lon": np.array(case["lon"], dtype=float),
               "phases": [0, 1], "months": [0, 1, 11],
               "arr": arr, "narr": arr.copy(),
               "__case__": {k: v for k, v in case.items() if k != "seq"}}
        if case.get("win") is not None:
            inp["window"] = dict(case["win"])
        return inp

    def construct(self, case, inp):
        from pyunicorn.climate import ClimateData
        grid = make_geogrid(inp)
        return ClimateData(inp["observable"], grid,
                           time_cycle=case["tc"],
                           anomalies=bool(case.get("anomalies")),
                           window=inp.get("window"), silence_level=3)

    def shared(self, obj, inp):
        # pylint: disable=protected-access
        # thunks, evaluated and checked one after the other (raw state first,
        # memoised derived state after it) so that an edited array is put
        # back before anything is derived from it; with anomalies=True the
        # observable IS the anomaly array and is reported under that name
        out = {"data._full_observable": lambda: obj._full_observable,
               "data.grid": lambda: obj.grid._grid,
               "data._full_grid": lambda: obj._full_grid._grid}
        if obj.anomalies:
            out["data.anomaly()"] = obj.observable
        else:
            out["data.observable()"] = obj.observable
            out["data.anomaly()"] = obj.anomaly
        out["data.phase_mean()"] = obj.phase_mean
        return out

    def table(self, case):
        return cached_table("ClimateData", data_table)


DATA = DataFamily()


@st.composite
def climate_data_case(draw, n_min=3, n_max=6):
    tc = draw(st.sampled_from([12, 12, 4, 6]))
    years = draw(st.integers(2, 3))
    T = tc * years
    n = draw(st.integers(n_min, n_max))
    data = draw(st.lists(st.integers(0, 63), min_size=T * n, max_size=T * n))
    lat = draw(st.lists(st.integers(-8, 8).map(lambda k: 10.0 * k),
                        min_size=n, max_size=n, unique=True))
    lon = draw(st.lists(st.integers(0, 35).map(lambda k: 10.0 * k),
                        min_size=n, max_size=n))
    case = {"T": T, "n": n, "tc": tc, "data": data, "lat": lat, "lon": lon,
            "anomalies": draw(st.integers(0, 3)) == 0,
            # winter_only needs monthly data (documented NotImplementedError)
            "winter": tc == 12 and draw(st.integers(0, 3)) == 0,
            "hdir": draw(st.booleans()),
            "delay": draw(st.integers(1, 3)),
            "thr": draw(st.sampled_from([0.1, 0.3, 0.6])),
            "win": None, "seed": draw(st.integers(0, 2 ** 20))}
    if draw(st.integers(0, 3)) == 0:
        # a window that keeps all nodes and whole years (so that the derived
        # networks see the same grid size as the data)
        case["win"] = {"time_min": 0.0, "time_max": float(T - 1 - tc *
                                                          draw(st.integers(
                                                              0, years - 2))),
                       "lat_min": -90.0, "lat_max": 90.0, "lon_min": 0.0,
                       "lon_max": 360.0}
    return case


@st.composite
def chain_cases(draw):
    """All climate network classes from ONE shared ClimateData object, one
    after another in generated order, mixed with queries of the data."""
    case = draw(climate_data_case())
    order = draw(st.permutations(CLIMATE_CLASSES))
    k = draw(st.integers(2, 6))
    dq = ["anomaly", "observable", "phase_mean",
          "anomaly_selected_months([0,1,11])", "shuffled_anomaly"]
    seq = []
    for kind in order[:k]:
        if draw(st.integers(0, 2)) == 0:
            seq.append([draw(st.sampled_from(dq)), 0])
        seq.append(["new:" + kind, int(draw(st.integers(0, 3)) == 0)])
    case["seq"] = seq
    return case


@st.composite
def data_cases(draw):
    case = draw(climate_data_case())
    names = sorted(k for k in DATA.table(case) if not k.startswith("new:"))
    case["seq"] = draw(_seq_strategy(names))
    return case


# --------------------------------------------- queries of one climate network

CLIMNET_NOT_QUERIES = GEO_NOT_QUERIES | {
    "set_threshold", "set_link_density", "set_non_local", "set_winter_only",
    "set_max_delay", "set_directed", "clear_cache",
    # EventSeries part of EventSeriesClimateNetwork: covered by its own family
    "event_analysis_significance",
}
# arguments of the class specific methods that take caller arrays
CLIMNET_ARGS = {
    "link_density_function": (4,),
    "threshold_from_link_density": (0.5,),
    "calculate_similarity_measure": ("$anom",),
    "mutual_information": ("$anom", False),
    "spearman_corr": ("$mask", "$anomT"),
    "geographical_distribution": ("$seq", 3),
    "geographical_cumulative_distribution": ("$seq", 3),
}
CLIMNET_BASE = ["path_lengths", "closeness", "degree", "nsi_degree",
                "prop:adjacency", "prop:node_weights", "betweenness",
                "grid.angular_distance", "local_clustering",
                "find_link_attribute(la)", "average_link_distance",
                "link_distance_distribution(3,spherical,True)"]


def climnet_table(kind):
    def build():
        import pyunicorn.climate as pc
        from pyunicorn.core import GeoNetwork, InteractingNetworks
        from pyunicorn.eventseries import EventSeries
        from pyunicorn.climate.eventseries_climatenetwork import \
            EventSeriesClimateNetwork
        cls = {"Tsonis": pc.TsonisClimateNetwork,
               "Spearman": pc.SpearmanClimateNetwork,
               "PartialCorrelation": pc.PartialCorrelationClimateNetwork,
               "MutualInfo": pc.MutualInfoClimateNetwork,
               "Havlin": pc.HavlinClimateNetwork,
               "Hilbert": pc.HilbertClimateNetwork,
               "CoupledTsonis": pc.CoupledTsonisClimateNetwork,
               "Rainfall": pc.RainfallClimateNetwork,
               "EventSeries": EventSeriesClimateNetwork}[kind]
        base = set(_public(GeoNetwork)) | set(_public(InteractingNetworks)) \
            | set(_public(EventSeries))
        pub = _public(cls)
        ex = []
        skip = set()
        for name, k in pub.items():
            if k not in ("method", "static") or name in CLIMNET_NOT_QUERIES:
                continue
            own = name not in base or (
                kind == "CoupledTsonis" and name in _public(
                    pc.CoupledClimateNetwork) and
                name in pc.CoupledClimateNetwork.__dict__)
            if not own:
                skip.add(name)
                continue
            if name in CLIMNET_ARGS:
                if name == "calculate_similarity_measure" and \
                        kind == "CoupledTsonis":
                    args = ("$anom", "$anom2")
                else:
                    args = CLIMNET_ARGS[name]
                ex.append(Q(name + "(args)", name, _meth(name, *args)))
            elif name in ("rank_time_series", "calculate_rainfall",
                          "calculate_top_events", "SmallTestData",
                          "SmallTestNetwork", "Load", "Model"):
                if name == "rank_time_series":
                    ex.append(Q(name + "(anomT)", name,
                                _meth(name, "$anomT")))
                elif name == "calculate_rainfall":
                    ex.append(Q(name + "(anomT,2,1)", name,
                                _meth(name, "$anomT", 2.0, 1.0)))
                elif name == "calculate_top_events":
                    ex.append(Q(name + "(rain,(0,1))", name,
                                _meth(name, "$rain", (0, 1))))
                else:
                    skip.add(name)
            elif not _zero_arg(cls, name):
                raise HarnessError("%s.%s: no argument pattern" % (
                    cls.__name__, name))
        for name in list(pub):
            if pub[name] == "static" and name not in [q.method for q in ex]:
                skip.add(name)
        tab = build_table(cls, CLIMNET_NOT_QUERIES, ex, skip_auto=skip)
        geo = cached_table("GeoNetwork", geo_table)
        for k in CLIMNET_BASE:
            tab[k] = geo[k]
        return tab
    return build


class ClimNetFamily(Family):
    """One climate network; its data object is shared state."""
    name = "ClimateNetwork"

    def cls_name(self, case):
        return case["cls"] + "ClimateNetwork"

    def inputs(self, case):
        inp = DATA.inputs(case)
        T, n = case["T"], case["n"]
        k = 2 * n if case["cls"] == "CoupledTsonis" else n
        obs = inp["observable"]
        inp["anom"] = (obs - obs.mean(axis=0)) + 0.125 * np.arange(T)[:, None]
        inp["anom2"] = inp["anom"][:, ::-1].copy()
        inp["anomT"] = np.ascontiguousarray(inp["anom"].T)
        inp["rain"] = np.ascontiguousarray(np.abs(inp["anom"].T))
        inp["mask"] = np.ones((n, T), dtype=bool)
        inp["seq"] = np.array([((5 * i + 2) % 7) / 2.0 for i in range(k)])
        return inp

    def construct(self, case, inp):
        data = DATA.construct(case, inp)
        net = _climate_net(case["cls"], data, case)
        net._verif_data = data      # pylint: disable=protected-access
        return net

    def shared(self, obj, inp):
        if not hasattr(obj, "_verif_data"):     # baseline: the data itself
            return DATA.shared(obj, inp)
        return DATA.shared(obj._verif_data, inp)  # pylint: disable=W0212

    def baseline_object(self, case, inp):
        return DATA.construct(case, inp)

    def table(self, case):
        return cached_table("climnet:" + case["cls"],
                            climnet_table(case["cls"]))


CLIMNET = ClimNetFamily()


class RainfallStatics(Family):
    """Static helpers of RainfallClimateNetwork on caller arrays."""
    name = "RainfallClimateNetwork"

    def inputs(self, case):
        T, n = case["T"], case["n"]
        x = np.array(case["data"], dtype=float).reshape(n, T) / 8.0
        if case.get("fortran"):
            x = np.asfortranarray(x)
        return {"rain": x, "anomT": x - x.mean(axis=1)[:, None]}

    def construct(self, case, inp):
        from pyunicorn.climate import RainfallClimateNetwork
        return RainfallClimateNetwork

    def table(self, case):
        return {q.name: q for q in [
            Q("calculate_top_events(rain,(0,1))", "calculate_top_events",
              _meth("calculate_top_events", "$rain", (0, 1))),
            # quantiles other than 0 / 1 give a float index (IndexError)
            Q("calculate_top_events(rain,[0,1])", "calculate_top_events",
              _meth("calculate_top_events", "$rain", [0, 1])),
            Q("rank_time_series(anomT)", "rank_time_series",
              _meth("rank_time_series", "$anomT")),
            Q("calculate_rainfall(rain,2,1)", "calculate_rainfall",
              _meth("calculate_rainfall", "$rain", 2.0, 1.0))]}


RAINSTAT = RainfallStatics()


@st.composite
def rainfall_cases(draw):
    T, n = draw(st.integers(3, 8)), draw(st.integers(2, 4))
    case = {"T": T, "n": n, "fortran": draw(st.booleans()),
            "data": draw(st.lists(st.integers(0, 40), min_size=T * n,
                                  max_size=T * n)), "seed": 0}
    case["seq"] = draw(_seq_strategy(sorted(RAINSTAT.table(case)), 4))
    return case


@st.composite
def climnet_cases(draw):
    case = draw(climate_data_case(4, 6))
    case["cls"] = draw(st.sampled_from(CLIMATE_CLASSES))
    case["win"] = None
    case["thr"] = draw(st.sampled_from([0.05, 0.1, 0.3]))
    names = sorted(CLIMNET.table(case))
    own = [k for k in names if k not in CLIMNET_BASE]
    step = st.tuples(st.one_of(st.sampled_from(own), st.sampled_from(own),
                               st.sampled_from(names)),
                     st.integers(0, 3).map(lambda v: int(v == 0))).map(list)
    case["seq"] = draw(st.lists(step, min_size=2, max_size=8))
    return case



# ======================================================== recurrence family

RP_NOT_QUERIES = {"set_fixed_threshold", "set_fixed_threshold_std",
                  "set_fixed_recurrence_rate",
                  "set_fixed_local_recurrence_rate",
                  "set_adaptive_neighborhood_size", "cache_clear",
                  "clear_cache"}
RP_RANDOM = {"twin_surrogates", "resample_diagline_dist",
             "resample_vertline_dist"}
RP_KINDS = {"rp": "RecurrencePlot", "rn": "RecurrenceNetwork",
            "crp": "CrossRecurrencePlot", "jrp": "JointRecurrencePlot",
            "jrn": "JointRecurrenceNetwork",
            "isrn": "InterSystemRecurrenceNetwork"}
NET_BASE = ["path_lengths", "degree", "local_clustering", "transitivity",
            "prop:adjacency", "closeness", "betweenness",
            "average_path_length", "prop:node_weights", "nsi_degree"]


def rp_explicit():
    ex = []
    for m in ("supremum", "euclidean", "manhattan"):
        ex.append(Q("distance_matrix(%s)" % m, "distance_matrix",
                    _meth("distance_matrix", m)))
    ex += [
        Q("recurrence_probability(1)", "recurrence_probability",
          _meth("recurrence_probability", 1)),
        Q("resample_diagline_dist(5)", "resample_diagline_dist",
          _meth("resample_diagline_dist", 5), rand=True),
        Q("resample_vertline_dist(5)", "resample_vertline_dist",
          _meth("resample_vertline_dist", 5), rand=True),
        Q("twins(1)", "twins", _meth("twins", 1)),
        Q("embed_time_series(ts,2,1)", "embed_time_series",
          _meth("embed_time_series", "$ts", 2, 1)),
        Q("legendre_coordinates(x1,2,t,2)", "legendre_coordinates",
          _meth("legendre_coordinates", "$x1", 2, "$tarr", 2)),
        Q("normalize_time_series(nts)", "normalize_time_series",
          _meth("normalize_time_series", "$nts"), inplace_ok=("nts",)),
        Q("rejection_sampling(hist,5)", "rejection_sampling",
          _meth("rejection_sampling", "$hist", 5), rand=True),
        Q("threshold_from_recurrence_rate(dist,0.3)",
          "threshold_from_recurrence_rate",
          _meth("threshold_from_recurrence_rate", "$dist", 0.3)),
        Q("threshold_from_recurrence_rate_fast(dist,0.3,0.5)",
          "threshold_from_recurrence_rate_fast",
          _meth("threshold_from_recurrence_rate_fast", "$dist", 0.3, 0.5),
          rand=True),
        Q("bootstrap_distance_matrix(emb,supremum,5)",
          "bootstrap_distance_matrix",
          _meth("bootstrap_distance_matrix", "$emb", "supremum", 5),
          rand=True),
    ]
    for m, a in (("determinism", 2), ("average_diaglength", 2),
                 ("diag_entropy", 2), ("laminarity", 2),
                 ("average_vertlength", 2), ("trapping_time", 2),
                 ("vert_entropy", 2)):
        ex.append(Q("%s(2,hist)" % m, m, _meth(m, a, "$hist")))
    ex.append(Q("permutation_entropy(False)", "permutation_entropy",
                _meth("permutation_entropy", False)))
    ex.append(Q("rqa_summary(3,3)", "rqa_summary", _meth("rqa_summary", 3,
                                                         3)))
    return ex


def rp_table(kind):
    def build():
        import pyunicorn.timeseries as ts
        from pyunicorn.core import Network, InteractingNetworks
        cls = getattr(ts, RP_KINDS[kind])
        netbase = set(_public(Network)) | set(_public(InteractingNetworks))
        if kind == "isrn":
            tab = build_table(cls, RP_NOT_QUERIES, [], skip_auto=netbase)
        else:
            tab = build_table(
                cls, RP_NOT_QUERIES, rp_explicit(),
                random_names=RP_RANDOM,
                skip_auto=netbase if kind in ("rn", "jrn") else (),
                props=("embedding", "R", "N", "time_series") if kind in (
                    "rp", "rn") else ("N",))
        if kind in ("rn", "jrn", "isrn"):
            base = cached_table("Network", network_table)
            for k in NET_BASE:
                tab[k] = base[k]
        if kind == "crp":
            for k in ("x_embedded", "y_embedded", "CR"):
                tab["prop:" + k] = Q("prop:" + k, k, _prop(k))
        if kind in ("jrp", "jrn"):
            tab["prop:JR"] = Q("prop:JR", "JR", _prop("JR"))
        return tab
    return build


def _series(vals, cols):
    a = np.array(vals, dtype=float) / 4.0
    return a.reshape(-1, cols) if cols > 1 else a


class RecurrenceFamily(Family):
    name = "Recurrence"

    def cls_name(self, case):
        return RP_KINDS[case["kind"]]

    def inputs(self, case):
        cols = case.get("cols", 1)
        x = _series(case["x"], cols)
        n = len(x)
        inp = {"x": x,
               "ts": np.array(case["x"][:n], dtype=float) / 4.0,
               "x1": np.array(case["x"][:n], dtype=float) / 4.0,
               "tarr": np.arange(float(n)),
               "nts": x.reshape(n, -1).copy(),
               "hist": np.array([(3 * i + 1) % 4 for i in range(n)],
                                dtype=np.int64),
               "dist": np.abs(np.subtract.outer(
                   np.arange(float(n)), np.arange(float(n)))) / 2.0,
               "emb": x.reshape(n, -1).copy()}
        if case["kind"] in ("crp", "jrp", "jrn", "isrn"):
            inp["y"] = _series(case["y"], cols)
        return inp

    def construct(self, case, inp):
        import pyunicorn.timeseries as ts
        kind = case["kind"]
        cls = getattr(ts, RP_KINDS[kind])
        mode, param = case["mode"], case["param"]
        norm = bool(case.get("normalize"))
        if kind in ("rp", "rn"):
            kw = {mode: param}
            if case.get("dim"):
                kw.update(dim=case["dim"], tau=1)
            return cls(inp["x"], metric=case["metric"], normalize=norm,
                       silence_level=3, **kw)
        if kind == "crp":
            return cls(inp["x"], inp["y"], metric=case["metric"],
                       normalize=norm, silence_level=3, **{mode: param})
        if kind in ("jrp", "jrn"):
            return cls(inp["x"], inp["y"],
                       metric=(case["metric"], case["metric"]),
                       normalize=norm, lag=case.get("lag", 0),
                       silence_level=3, **{mode: (param, param)})
        return cls(inp["x"], inp["y"], metric=case["metric"], normalize=norm,
                   silence_level=3, **{mode: (param, param, param)})

    def table(self, case):
        return cached_table("rp:" + case["kind"], rp_table(case["kind"]))


RECURRENCE = RecurrenceFamily()


@st.composite
def recurrence_cases(draw):
    kind = draw(st.sampled_from(sorted(RP_KINDS)))
    cols = draw(st.sampled_from([1, 1, 2]))
    n = draw(st.integers(6, 14))
    m = n if kind in ("jrp", "jrn") else draw(st.integers(5, 12))
    case = {"kind": kind, "cols": cols,
            "x": draw(st.lists(st.integers(-12, 12), min_size=n * cols,
                               max_size=n * cols)),
            "y": draw(st.lists(st.integers(-12, 12), min_size=m * cols,
                               max_size=m * cols)),
            "metric": draw(st.sampled_from(["supremum", "euclidean",
                                            "manhattan"])),
            "normalize": draw(st.booleans()),
            "mode": draw(st.sampled_from(["threshold", "recurrence_rate"])),
            "dim": draw(st.sampled_from([None, 2])) if cols == 1 and kind in (
                "rp", "rn") else None,
            "lag": draw(st.integers(0, 2)) if kind in ("jrp", "jrn") else 0,
            "seed": draw(st.integers(0, 2 ** 20))}
    case["param"] = draw(st.sampled_from([0.75, 1.5, 2.5])) \
        if case["mode"] == "threshold" else draw(st.sampled_from([0.2, 0.4]))
    case["seq"] = draw(_seq_strategy(sorted(RECURRENCE.table(case))))
    return case


# ========================================================== VisibilityGraph

def vg_table():
    from pyunicorn.timeseries import VisibilityGraph
    from pyunicorn.core import Network, InteractingNetworks
    ex = [Q("visibility(0,2)", "visibility", _meth("visibility", 0, 2)),
          Q("visibility_single(1)", "visibility_single",
            _meth("visibility_single", 1))]
    tab = build_table(VisibilityGraph, NETWORK_NOT_QUERIES, ex,
                      skip_auto=set(_public(Network)) |
                      set(_public(InteractingNetworks)),
                      props=("time_series", "timings"))
    base = cached_table("Network", network_table)
    for k in NET_BASE:
        tab[k] = base[k]
    return tab


class VisibilityFamily(Family):
    name = "VisibilityGraph"

    def inputs(self, case):
        x = np.array([np.nan if v is None else v for v in case["x"]],
                     dtype=float)
        inp = {"time_series": x}
        if case.get("t") is not None:
            inp["timings"] = np.array(case["t"], dtype=float)
        return inp

    def construct(self, case, inp):
        from pyunicorn.timeseries import VisibilityGraph
        return VisibilityGraph(inp["time_series"],
                               timings=inp.get("timings"),
                               missing_values=any(v is None
                                                  for v in case["x"]),
                               horizontal=bool(case["horizontal"]),
                               silence_level=3)

    def table(self, case):
        return cached_table("VisibilityGraph", vg_table)


VISIBILITY = VisibilityFamily()


@st.composite
def visibility_cases(draw):
    n = draw(st.integers(4, 14))
    x = draw(st.lists(st.integers(0, 9), min_size=n, max_size=n))
    if draw(st.integers(0, 4)) == 0:
        x[draw(st.integers(0, n - 1))] = None
    t = None
    if draw(st.booleans()):
        t = [int(v) for v in np.cumsum(draw(st.lists(
            st.integers(1, 3), min_size=n, max_size=n)))]
    case = {"x": x, "t": t, "horizontal": draw(st.booleans()),
            "seed": draw(st.integers(0, 2 ** 20))}
    case["seq"] = draw(_seq_strategy(sorted(VISIBILITY.table(case))))
    return case


# ================================================================ Surrogates

SURR_NOT_QUERIES = {"normalize_original_data", "cache_clear",
                    "eval_fast_code"}


def _surr_fn(name):
    from pyunicorn.timeseries import Surrogates
    return getattr(Surrogates, name)


def surrogates_table():
    from pyunicorn.timeseries import Surrogates
    ex = [
        Q("twins(0.5,1)", "twins", _meth("twins", 0.5, 1)),
        Q("refined_AAFT_surrogates(3)", "refined_AAFT_surrogates",
          _meth("refined_AAFT_surrogates", 3), rand=True),
        Q("twin_surrogates(2,1,0.5,1)", "twin_surrogates",
          _meth("twin_surrogates", 2, 1, 0.5, 1), rand=True),
        Q("embed_time_series_array(ts,2,1)", "embed_time_series_array",
          _meth("embed_time_series_array", "$ts", 2, 1, 3)),
        Q("recurrence_plot(emb,0.5)", "recurrence_plot",
          _meth("recurrence_plot", "$emb", 0.5, 3)),
        Q("test_pearson_correlation(ts,sur)", "test_pearson_correlation",
          _meth("test_pearson_correlation", "$ts", "$sur")),
        Q("test_mutual_information(ts,sur,4)", "test_mutual_information",
          _meth("test_mutual_information", "$ts", "$sur", 4)),
        Q("original_distribution(pearson,5)", "original_distribution",
          lambda o, inp: o.original_distribution(
              _surr_fn("test_pearson_correlation"), 5)),
        Q("test_threshold_significance(white,pearson,2,5)",
          "test_threshold_significance",
          lambda o, inp: o.test_threshold_significance(
              _surr_fn("white_noise_surrogates"),
              _surr_fn("test_pearson_correlation"), 2, 5), rand=True),
    ]
    return build_table(Surrogates, SURR_NOT_QUERIES, ex,
                       random_names=("white_noise_surrogates",
                                     "correlated_noise_surrogates",
                                     "AAFT_surrogates"),
                       props=("original_data", "embedding"))


class SurrogatesFamily(Family):
    name = "Surrogates"
    # the constructor stores the caller's array itself (self.original_data =
    # original_data): once it was modified the object's state is undefined
    aliased = ("original_data",)

    def inputs(self, case):
        N, T = case["N"], case["T"]
        x = np.array(case["data"], dtype=float).reshape(N, T) / 4.0
        return {"original_data": x, "ts": x.copy() + 0.5,
                "sur": x[::-1, ::-1].copy(),
                "emb": np.ascontiguousarray(np.stack([x[0, :-1], x[0, 1:]],
                                                     axis=1))}

    def construct(self, case, inp):
        from pyunicorn.timeseries import Surrogates
        s = Surrogates(inp["original_data"], silence_level=3)
        # documented way to provide the embedding twins() works on; the same
        # embedding parameters as the twin_surrogates() pattern of the table
        s.embedding = Surrogates.embed_time_series_array(
            inp["original_data"], 2, 1, silence_level=3)
        return s

    def table(self, case):
        return cached_table("Surrogates", surrogates_table)


SURROGATES = SurrogatesFamily()


@st.composite
def surrogates_cases(draw):
    N, T = draw(st.integers(1, 3)), draw(st.integers(6, 17))
    case = {"N": N, "T": T,
            "data": draw(st.lists(st.integers(-20, 20), min_size=N * T,
                                  max_size=N * T)),
            "seed": draw(st.integers(0, 2 ** 20))}
    case["seq"] = draw(_seq_strategy(sorted(SURROGATES.table(case))))
    return case


# ========================================================== CouplingAnalysis

def coupling_table():
    from pyunicorn.funcnet import CouplingAnalysis
    ex = []
    for lm in ("max", "all"):
        ex.append(Q("cross_correlation(2,%s)" % lm, "cross_correlation",
                    _meth("cross_correlation", 2, lm)))
        for est, kw in (("knn", {"knn": 3}), ("binning", {"bins": 3}),
                        ("gauss", {})):
            ex.append(Q("mutual_information(2,%s,%s)" % (est, lm),
                        "mutual_information",
                        _meth("mutual_information", 2, est, lag_mode=lm,
                              **kw)))
        for est in ("knn", "gauss"):
            ex.append(Q("information_transfer(2,%s,%s)" % (est, lm),
                        "information_transfer",
                        _meth("information_transfer", 2, est, knn=3, past=1,
                              lag_mode=lm)))
    ex += [
        Q("symmetrize_by_absmax(sim,lag)", "symmetrize_by_absmax",
          _meth("symmetrize_by_absmax", "$sim", "$lag"),
          inplace_ok=("sim", "lag")),
        Q("bincount_hist(symb)", "bincount_hist",
          _meth("bincount_hist", "$symb")),
        Q("create_plogp(8)", "create_plogp", _meth("create_plogp", 8)),
        Q("get_nearest_neighbors(nn,xyz,2,True)", "get_nearest_neighbors",
          _meth("get_nearest_neighbors", "$nn", "$xyz", 2, True)),
        Q("get_nearest_neighbors(nn,xyz,2,False)", "get_nearest_neighbors",
          _meth("get_nearest_neighbors", "$nn", "$xyz", 2, False)),
    ]
    return build_table(CouplingAnalysis, {"test_data"}, ex,
                       props=("data",))


class CouplingFamily(Family):
    name = "CouplingAnalysis"

    def inputs(self, case):
        T, N = case["T"], case["N"]
        x = np.array(case["data"], dtype=float).reshape(T, N) / 4.0
        # break exact ties deterministically (kNN estimators need them rare)
        x = x + 1e-3 * np.sin(np.arange(T * N, dtype=float)).reshape(T, N)
        sim = np.abs(np.cos(np.arange(N * N, dtype=float))).reshape(N, N)
        return {"data": x, "sim": sim.astype(np.float32),
                "lag": (np.arange(N * N).reshape(N, N) % 3).astype(np.int8),
                "symb": (np.arange(2 * T).reshape(2, T) % 3).astype(np.int32),
                "nn": np.ascontiguousarray(x[:, :min(N, 3)].T),
                "xyz": np.array([0, 1, 2][:min(N, 3)])}

    def construct(self, case, inp):
        from pyunicorn.funcnet import CouplingAnalysis
        return CouplingAnalysis(inp["data"], silence_level=3)

    def table(self, case):
        return cached_table("CouplingAnalysis", coupling_table)


COUPLING = CouplingFamily()


@st.composite
def coupling_cases(draw):
    T, N = draw(st.integers(12, 24)), draw(st.integers(2, 4))
    case = {"T": T, "N": N,
            "data": draw(st.lists(st.integers(-20, 20), min_size=N * T,
                                  max_size=N * T)),
            "seed": draw(st.integers(0, 2 ** 20))}
    case["seq"] = draw(_seq_strategy(sorted(COUPLING.table(case)), 6))
    return case


# =============================================================== EventSeries

def events_table():
    from pyunicorn.eventseries import EventSeries
    ex = []
    for sym in ("directed", "symmetric", "antisym", "mean", "max", "min"):
        ex.append(Q("event_series_analysis(ES,%s)" % sym,
                    "event_series_analysis",
                    _meth("event_series_analysis", "ES", sym)))
    for sym, win in (("directed", "symmetric"), ("max", "retarded"),
                     ("mean", "advanced")):
        ex.append(Q("event_series_analysis(ECA,%s,%s)" % (sym, win),
                    "event_series_analysis",
                    _meth("event_series_analysis", "ECA", sym, win)))
    ex += [
        Q("event_analysis_significance(ECA,analytic,retarded)",
          "event_analysis_significance",
          _meth("event_analysis_significance", "ECA", "analytic", 1000,
                "directed", "retarded")),
        Q("event_analysis_significance(ECA,analytic,advanced)",
          "event_analysis_significance",
          _meth("event_analysis_significance", "ECA", "analytic", 1000,
                "directed", "advanced")),
        Q("event_analysis_significance(ES,shuffle,4)",
          "event_analysis_significance",
          _meth("event_analysis_significance", "ES", "shuffle", 4),
          rand=True),
        Q("event_analysis_significance(ECA,shuffle,4)",
          "event_analysis_significance",
          _meth("event_analysis_significance", "ECA", "shuffle", 4),
          rand=True),
        Q("event_synchronization(ex,ey)", "event_synchronization",
          _meth("event_synchronization", "$ex", "$ey", taumax=3.0)),
        Q("event_synchronization(ex,ey,ts)", "event_synchronization",
          _meth("event_synchronization", "$ex", "$ey", "$ts1", "$ts2",
                3.0, 1.0)),
        Q("event_coincidence_analysis(ex,ey,2)",
          "event_coincidence_analysis",
          _meth("event_coincidence_analysis", "$ex", "$ey", 2.0)),
        Q("event_coincidence_analysis(ex,ey,2,ts)",
          "event_coincidence_analysis",
          _meth("event_coincidence_analysis", "$ex", "$ey", 2.0, "$ts1",
                "$ts2", 1.0)),
        Q("make_event_matrix(cont)", "make_event_matrix",
          _meth("make_event_matrix", "$cont", "quantile", 0.7, "above")),
        Q("make_event_matrix(cont,value)", "make_event_matrix",
          _meth("make_event_matrix", "$cont", "value", "$thrv", "below")),
    ]
    return build_table(EventSeries, {"cache_clear"}, ex)


class EventsFamily(Family):
    name = "EventSeries"

    def inputs(self, case):
        T, N = case["T"], case["N"]
        ev = (np.array(case["data"]).reshape(T, N) % 4 == 0).astype(
            case.get("dtype", "int64"))
        ev[0, :] = 1
        ev[1, :] = 0
        cont = np.array(case["data"], dtype=float).reshape(T, N) / 4.0
        inp = {"ex": ev[:, 0].copy(), "ey": ev[:, -1].copy(),
               "ts1": np.arange(float(T)), "ts2": np.arange(float(T)) + 0.5,
               "cont": cont.copy(), "thrv": np.full(N, 1.5),
               "timestamps": np.arange(float(T)) * 2.0}
        if case.get("continuous"):
            inp["data"] = cont
        else:
            inp["data"] = ev
        return inp

    def construct(self, case, inp):
        from pyunicorn.eventseries import EventSeries
        kw = {}
        if case.get("continuous"):
            kw = dict(threshold_method="quantile", threshold_values=0.7,
                      threshold_types="above")
        if case.get("stamps"):
            kw["timestamps"] = inp["timestamps"]
        return EventSeries(inp["data"], taumax=case["taumax"],
                           lag=case.get("lag", 0.0), **kw)

    def table(self, case):
        return cached_table("EventSeries", events_table)


EVENTS = EventsFamily()


@st.composite
def events_cases(draw):
    T, N = draw(st.integers(8, 16)), draw(st.integers(2, 4))
    case = {"T": T, "N": N,
            "data": draw(st.lists(st.integers(0, 23), min_size=N * T,
                                  max_size=N * T)),
            "continuous": draw(st.integers(0, 2)) == 0,
            "stamps": draw(st.booleans()),
            "dtype": draw(st.sampled_from(["int64", "int8", "float64"])),
            "taumax": draw(st.sampled_from([1.0, 2.0, 4.0])),
            "lag": draw(st.sampled_from([0.0, 0.0, 1.0])),
            "seed": draw(st.integers(0, 2 ** 20))}
    case["seq"] = draw(_seq_strategy(sorted(EVENTS.table(case)), 6))
    return case


SUBCHECKS = [
    SubCheck("network_seq", oracle_sequence(NETWORK), gen=network_cases,
             quick=(4, 120), thorough=(16, 1200)),
    SubCheck("network_pairs", oracle_pair(NETWORK), enum=enum_pairs(NETWORK),
             quick=(8, None), thorough=(16, None), exhaustive=("thorough",)),
    SubCheck("geo_seq", oracle_sequence(GEO), gen=geo_cases,
             quick=(4, 100), thorough=(16, 1000)),
    SubCheck("geo_pairs", oracle_pair(GEO),
             enum=enum_pairs(GEO, geo_extra),
             quick=(8, None), thorough=(16, None), exhaustive=("thorough",)),
    SubCheck("spatial_seq", oracle_sequence(SPATIAL), gen=spatial_cases,
             quick=(2, 40), thorough=(8, 600)),
    SubCheck("interacting_seq", oracle_sequence(INTERACTING),
             gen=interacting_cases, quick=(4, 80), thorough=(16, 800)),
    SubCheck("interacting_pairs", oracle_pair(INTERACTING),
             enum=enum_pairs(INTERACTING, inter_extra, quick_stride=5),
             quick=(8, None), thorough=(16, None), exhaustive=("thorough",)),
    SubCheck("climate_chain", oracle_sequence(DATA), gen=chain_cases,
             quick=(6, 50), thorough=(16, 500)),
    SubCheck("climate_data_seq", oracle_sequence(DATA), gen=data_cases,
             quick=(2, 100), thorough=(8, 800)),
    SubCheck("climate_net_seq", oracle_sequence(CLIMNET), gen=climnet_cases,
             quick=(6, 50), thorough=(16, 500)),
    SubCheck("rainfall_statics", oracle_sequence(RAINSTAT),
             gen=rainfall_cases, quick=(1, 40), thorough=(2, 400)),
    SubCheck("recurrence_seq", oracle_sequence(RECURRENCE),
             gen=recurrence_cases, quick=(4, 120), thorough=(16, 1000)),
    SubCheck("visibility_seq", oracle_sequence(VISIBILITY),
             gen=visibility_cases, quick=(1, 100), thorough=(4, 800)),
    SubCheck("surrogates_seq", oracle_sequence(SURROGATES),
             gen=surrogates_cases, quick=(2, 150), thorough=(8, 1000)),
    SubCheck("coupling_seq", oracle_sequence(COUPLING), gen=coupling_cases,
             quick=(2, 80), thorough=(8, 600)),
    SubCheck("events_seq", oracle_sequence(EVENTS), gen=events_cases,
             quick=(2, 80), thorough=(8, 600)),
    SubCheck("resistive_seq", oracle_sequence(RES), gen=res_cases,
             quick=(2, 40), thorough=(8, 600)),
]


# ===========================================================================
# Constructors (and a few first queries) must not modify caller-owned arrays
# that ALREADY have the library's internal dtype / memory layout: a conversion
# that "always copies" for float64 input may alias float32 / int8 / int16 /
# C-contiguous input (added after an independently seeded change was missed).

CTOR_DTYPES = ["float32", "float64", "int8", "int16", "int32", "int64"]


def _ctor_recipes():
    import pyunicorn.core as core
    import pyunicorn.climate as climate
    import pyunicorn.timeseries as ts
    from pyunicorn.funcnet import CouplingAnalysis
    from pyunicorn.eventseries import EventSeries

    def grid(lat, lon, T=3):
        return core.GeoGrid(np.arange(float(T)), lat, lon, silence_level=3)

    def r_climate(a):
        net = climate.ClimateNetwork(grid(a["lat"], a["lon"]), a["S"],
                                     threshold=0.3, silence_level=3)
        net.set_threshold(0.4)
        net.set_non_local(True)
        net.set_link_density(0.4)
        net.similarity_measure()

    def r_coupled(a):
        n = len(a["lat"])
        h = max(1, n // 2)
        climate.CoupledClimateNetwork(
            grid(a["lat"][:h].copy(), a["lon"][:h].copy()),
            grid(a["lat"][h:].copy(), a["lon"][h:].copy()), a["S"],
            threshold=0.3, silence_level=3) if n - h >= 1 else None

    def r_network(a):
        net = core.Network(adjacency=a["A"], node_weights=a["w"],
                           silence_level=3)
        net.set_link_attribute("la", a["W"])
        net.nsi_degree()
        net.path_lengths("la")
        net.average_path_length("la")
        net.nsi_local_clustering()

    def r_geo(a):
        net = core.GeoNetwork(grid(a["lat"], a["lon"]), adjacency=a["A"],
                              silence_level=3)
        net.area_weighted_connectivity()
        net.average_link_distance()
        net.grid.distance()

    def r_res(a):
        net = core.ResNetwork(a["R"], adjacency=a["A"], silence_level=3)
        net.average_effective_resistance()
        net.update_resistances(a["R"])

    def r_rp(a):
        rp = ts.RecurrencePlot(a["X"], threshold=1.0, normalize=False,
                               silence_level=3)
        rp.diagline_dist()
        rp.set_fixed_recurrence_rate(0.3)
        ts.RecurrencePlot(a["X"], recurrence_rate=0.3, normalize=True,
                          silence_level=3)

    def r_crp(a):
        ts.CrossRecurrencePlot(a["X"], a["Y"], threshold=1.0,
                               silence_level=3)
        ts.JointRecurrencePlot(a["X"], a["Y"], threshold=(1.0, 1.0),
                               silence_level=3)
        ts.InterSystemRecurrenceNetwork(a["X"], a["Y"],
                                        threshold=(1.0, 1.0, 1.0),
                                        silence_level=3)

    def r_rn(a):
        rn = ts.RecurrenceNetwork(a["X"], threshold=1.0, normalize=False,
                                  silence_level=3)
        rn.degree()
        rn.set_fixed_threshold(0.7)

    def r_vg(a):
        ts.VisibilityGraph(a["x"], timings=a["t"], silence_level=3)
        ts.VisibilityGraph(a["x"], horizontal=True, silence_level=3)

    def r_sur(a):
        s = ts.Surrogates(a["D"], silence_level=3)
        seed_library_rngs(1, 2)
        s.white_noise_surrogates()
        s.correlated_noise_surrogates()
        s.AAFT_surrogates()
        s.refined_AAFT_surrogates(n_iterations=2)
        s.twin_surrogates(1, 1, 1.0, 2)

    def r_coupling(a):
        ca = CouplingAnalysis(a["D"].T, silence_level=3)
        ca.cross_correlation(tau_max=1)
        ca.mutual_information(tau_max=1, estimator="gauss")

    def r_events(a):
        es = EventSeries(a["E"], taumax=2.0)
        es.event_series_analysis(method="ES")
        EventSeries(a["D"].T, taumax=2.0, threshold_method="quantile",
                    threshold_values=0.6, threshold_types="above")

    def r_data(a):
        g = grid(a["lat"], a["lon"], T=len(a["D"].T))
        d = climate.ClimateData(observable=a["O"], grid=g, time_cycle=2,
                                window=a["win"], silence_level=3)
        d.set_window(a["win"])
        core.Data(observable=a["O"], grid=g, window=a["win2"],
                  silence_level=3).set_window(a["win2"])
        d.anomaly()
        d.phase_mean()
        climate.TsonisClimateNetwork(d, threshold=0.3, silence_level=3)
        climate.ClimateData(observable=a["O"], grid=g, time_cycle=2,
                            anomalies=True, silence_level=3).anomaly()

    def r_grid(a):
        gr = core.Grid(a["t"], np.vstack((a["lat"], a["lon"])),
                       silence_level=3)
        gr.distance()
        gg = grid(a["lat"], a["lon"])
        gg.angular_distance()
        gg.node_number(a["lat"][0], a["lon"][0])

    return {"ClimateNetwork": r_climate, "CoupledClimateNetwork": r_coupled,
            "Network": r_network, "GeoNetwork": r_geo, "ResNetwork": r_res,
            "RecurrencePlot": r_rp, "CrossJointInterSystem": r_crp,
            "RecurrenceNetwork": r_rn, "VisibilityGraph": r_vg,
            "Surrogates": r_sur, "CouplingAnalysis": r_coupling,
            "EventSeries": r_events, "ClimateData": r_data, "Grid": r_grid}


def _ctor_arrays(case):
    n, T = case["n"], case["T"]
    vals = (list(case["vals"]) * (n * n * T))
    fd = np.dtype(case["fdtype"])
    idt = np.dtype(case["idtype"])
    order = case["order"]

    def arr(shape, off, dt, scale=1.0):
        k = int(np.prod(shape))
        a = (np.array(vals[off:off + k], dtype=float) * scale).reshape(shape)
        return np.array(a, dtype=dt, order=order)

    A = (arr((n, n), 0, float) > 0.6).astype(int)
    A = np.triu(A, 1)
    A = A + A.T
    for i in range(n - 1):          # connected chain
        A[i, i + 1] = A[i + 1, i] = 1
    S = arr((n, n), 3, float, 1.0 / 4)
    S = (S + S.T) / 2
    S -= S.mean()                   # negative entries present
    np.fill_diagonal(S, 1)
    R = np.abs(arr((n, n), 5, float)) + 0.5
    R = (R + R.T) * A
    lat = np.linspace(-60, 60, n)
    lon = np.linspace(-150, 150, n)
    out = {
        "A": np.array(A, dtype=idt, order=order),
        "S": np.array(S, dtype=fd, order=order),
        "W": np.array(R, dtype=fd, order=order),
        "R": np.array(R, dtype=fd, order=order),
        "w": np.array(np.abs(arr((n,), 7, float)) + 0.25, dtype=fd),
        "lat": np.array(lat, dtype=fd), "lon": np.array(lon, dtype=fd),
        "X": arr((T, 2), 11, fd), "Y": arr((T, 2), 13, fd),
        "x": arr((T,), 17, fd), "t": np.array(np.arange(T), dtype=fd),
        "D": arr((n, T), 19, fd), "O": arr((T, n), 23, fd),
        "E": np.array(arr((T, n), 29, float) > 0.9, dtype=idt, order=order),
        # caller-owned window dictionaries: 'coinciding bounds' sentinels
        # (full range along that axis) and ordinary bounds
        "win": {"time_min": 0.0, "time_max": 0.0, "lat_min": -90.0,
                "lat_max": 90.0, "lon_min": 0.0, "lon_max": 0.0},
        "win2": {"time_min": 1.0, "time_max": float(T - 2), "lat_min": 0.0,
                 "lat_max": 0.0, "lon_min": -180.0, "lon_max": 180.0},
    }
    return out


def oracle_ctor_inputs(case, rec):
    recipes = _ctor_recipes()
    kind = case["kind"]
    arrays = _ctor_arrays(case)
    before = {k: snap(v) for k, v in arrays.items()}
    rec.label("kind=" + kind)
    rec.label("fdtype=%s idtype=%s order=%s" % (
        case["fdtype"], case["idtype"], case["order"]))
    try:
        recipes[kind](arrays)
    except Exception as e:  # pylint: disable=broad-except
        # a constructor may refuse an input type; the inputs must still be
        # untouched
        rec.label("recipe_raised=" + type(e).__name__)
    changed = [k for k in sorted(arrays) if before[k] != snap(arrays[k])]
    rec.nontrivial(True)
    for k in changed:
        rec.fail("input/ctor:%s:%s_dtype_%s" % (
            kind, k, getattr(arrays[k], "dtype", "dict")),
                 "caller object %r (dtype %s, %s order) modified" % (
                     k, getattr(arrays[k], "dtype", "dict"), case["order"]))


@st.composite
def ctor_cases(draw):
    return {"kind": draw(st.sampled_from(sorted(
        ["ClimateNetwork", "CoupledClimateNetwork", "Network", "GeoNetwork",
         "ResNetwork", "RecurrencePlot", "CrossJointInterSystem",
         "RecurrenceNetwork", "VisibilityGraph", "Surrogates",
         "CouplingAnalysis", "EventSeries", "ClimateData", "Grid"]))),
            "n": draw(st.integers(3, 6)), "T": draw(st.integers(8, 14)),
            "fdtype": draw(st.sampled_from(["float32", "float64"])),
            "idtype": draw(st.sampled_from(["int8", "int16", "int32",
                                            "int64", "bool"])),
            "order": draw(st.sampled_from(["C", "F"])),
            "vals": draw(st.lists(st.integers(-12, 12).map(
                lambda k: k / 4.0), min_size=7, max_size=23))}


def enum_ctor(tier):
    kinds = ["ClimateNetwork", "CoupledClimateNetwork", "Network",
             "GeoNetwork", "ResNetwork", "RecurrencePlot",
             "CrossJointInterSystem", "RecurrenceNetwork", "VisibilityGraph",
             "Surrogates", "CouplingAnalysis", "EventSeries", "ClimateData",
             "Grid"]
    vals = [0.5, -1.25, 2.0, 0.75, -0.5, 1.5, -2.25, 1.0, 0.25, -1.75, 3.0]
    for kind in kinds:
        for fd in ("float32", "float64"):
            for idt in ("int8", "int16", "int64", "bool"):
                for order in ("C", "F"):
                    yield {"kind": kind, "n": 5, "T": 10, "fdtype": fd,
                           "idtype": idt, "order": order, "vals": vals}


SUBCHECKS.append(SubCheck("ctor_inputs_grid", oracle_ctor_inputs,
                          enum=enum_ctor, quick=(4, None),
                          thorough=(4, None)))
SUBCHECKS.append(SubCheck("ctor_inputs_random", oracle_ctor_inputs,
                          gen=ctor_cases, quick=(2, 100),
                          thorough=(8, 1200)))
