"""C07 - recurrence matrices are exactly the thresholded distance matrices.

Reference (vp/ref/recurrence.py): distances of the float32-cast, embedded
state vectors in double precision under the metric's definition; ``R = D <
eps`` (strict) with 0 wherever a state vector holds a missing value; fixed
(global / local) rates = order-statistic threshold sets; adaptive = at least
m neighbours per state; cross / joint / inter-system = the compositions of
the docstrings; networks = matrix minus diagonal.  Every RQA method is then
called on each derived class and compared with the C08 reference
(vp/ref/rqa.py) evaluated on the object's own ``recurrence_matrix()``.

Boundary rule (DESIGN 2.9): a pair whose distance was computed with rounding
and lies within 2 ulp of the threshold may go either way; exactly computed
distances (supremum metric always; integer / dyadic data) are decisive,
ties included.
"""
import itertools
import math

import numpy as np
from hypothesis import strategies as st

from vp import pbt
from vp.pbt import SubCheck, represent
from vp.ref import recurrence as rref
from vp.ref import rqa

PROPERTY = "C07"
RULE = ("cases = literal series (float32-exact values, None = missing), "
        "embedding, metric, construction mode + parameter (threshold drawn "
        "at random / on an actual pairwise distance / on its float64 "
        "neighbours / 0 / huge, threshold_std, global and local rates "
        "including 0 and 1, adaptive sizes), second series of a different "
        "length for cross / inter-system plots, lag of either sign for joint "
        "plots. Exhaustive part: every series over {0,1,2} of length 1..5 x "
        "3 metrics x thresholds {0, 1, nextafter(1), 2.5}. Non-trivial = the "
        "matrix is neither all 0 nor all 1 off the diagonal; additionally "
        "labelled: joint plots with lag != 0, cross / inter-system with N != "
        "M or embedding. Distinct = hash of the whole case.")
ASSUMPTIONS = [
    "series values are float32-exact (the library stores single precision)",
    "NaN samples are only given together with missing_values=True; for the "
    "rate-based and adaptive constructions only the clause 'a state holding "
    "a missing value is never recurrent' is evaluated (a quantile of a "
    "distance set containing NaN is not defined by the docs)",
    "normalize=True is not exercised (not part of the statement)",
    "joint plots: |lag| < number of state vectors; the sign convention is "
    "JR(i,j) = Rx(i,j)*Ry(i+lag,j+lag) for lag >= 0 and "
    "Rx(i-lag,j-lag)*Ry(i,j) for lag < 0",
    "threshold_std: threshold = factor * population std of all float32-cast "
    "samples; the library evaluates it in single precision, so distances "
    "within 1e-5 (relative) of the threshold may go either way; samples are "
    "0 or >= 2^-6 in magnitude for that mode (no float32 underflow in the "
    "variance)",
    "adaptive neighbourhoods: requested size m with m <= N-1 (where 'at "
    "least m neighbours' is satisfiable; the documented mean degree 2m "
    "additionally presupposes 2m <= N-1 and is not asserted)",
    "twins / twin_surrogates belong to C15 and are not called here",
]

METRICS = ("supremum", "manhattan", "euclidean")
STD_BAND = 1e-5


# ------------------------------------------------------------------ helpers

def arr(series):
    rows = []
    for r in series:
        if not isinstance(r, (list, tuple)):
            r = [r]
        rows.append([np.nan if v is None else float(v) for v in r])
    return represent(
        np.array(rows, dtype=np.float64).reshape((len(rows), -1)))


def pop_std(series):
    """Population standard deviation of all (float32-cast) samples."""
    a = rref.to_array(series).ravel()
    if a.size == 0:
        return float("nan")
    mean = math.fsum(a) / a.size
    return math.sqrt(math.fsum((v - mean) ** 2 for v in a) / a.size)


def expected_matrices(V, W, metric, mode, param, std=None):
    """All admissible (R, free) pairs for one (cross-)recurrence matrix."""
    D = rref.distance_matrix(V, W, metric)
    if mode == "threshold":
        return [rref.decide(D, param, V, W, metric)]
    if mode == "threshold_std":
        return [rref.decide(D, param * std, V, W, metric, rel_band=STD_BAND)]
    if mode == "recurrence_rate":
        srt = np.sort(D.ravel())
        return [rref.decide(D, srt[k], V, W, metric)
                for k in rref.rate_index(param, D.size)]
    raise ValueError(mode)


def match_any(lib, candidates):
    lib = np.asarray(lib)
    for R, free in candidates:
        if lib.shape == R.shape and bool(np.all((lib == R) | free)):
            return True
    return False


def describe(lib, candidates):
    lib = np.asarray(lib)
    R, free = candidates[0]
    if lib.shape != R.shape:
        return "shape lib=%s ref=%s" % (lib.shape, R.shape)
    bad = np.argwhere((lib != R) & ~free)
    return "%d cells differ, first %s lib=%s ref=%s; boundary cells=%d" % (
        len(bad), bad[:3].tolist(),
        [int(lib[tuple(b)]) for b in bad[:3]],
        [int(R[tuple(b)]) for b in bad[:3]], int(free.sum()))


def nontrivial_matrix(R):
    R = np.asarray(R)
    if R.ndim != 2 or R.size == 0:
        return False
    if R.shape[0] == R.shape[1]:
        off = R[~np.eye(R.shape[0], dtype=bool)]
    else:
        off = R.ravel()
    return off.size > 0 and 0 < int(off.sum()) < off.size


RQA_SCALARS = (
    ("determinism", "d", rqa.points_ratio),
    ("average_diaglength", "d", rqa.average_length),
    ("diag_entropy", "d", rqa.entropy),
    ("laminarity", "v", rqa.points_ratio),
    ("average_vertlength", "v", rqa.average_length),
    ("trapping_time", "v", rqa.average_length),
    ("vert_entropy", "v", rqa.entropy),
    ("average_white_vertlength", "w", rqa.average_length),
    ("mean_recurrence_time", "w", rqa.average_length),
    ("white_vert_entropy", "w", rqa.entropy),
)


def check_rqa(rec, obj, tag, lmin, seeds, miss=None, cross=False):
    """'Every quantification method is applicable': call each public RQA
    method of RecurrencePlot on ``obj``; no exception (except the documented
    NotImplementedError of cross-recurrence line statistics) and values equal
    to the C08 reference evaluated on obj.recurrence_matrix().

    Failure signatures: rqa_applicable_<tag> (a method raised; the detail
    names it) and rqa_value_<tag>_<method>."""
    R = np.asarray(obj.recurrence_matrix())
    n = R.shape[0]
    Rl = R.tolist()
    square = R.ndim == 2 and R.shape[0] == R.shape[1]
    allowed = (NotImplementedError,) if cross else ()
    app = "rqa_applicable_" + tag
    val = "rqa_value_" + tag + "_"
    mtag = "_missing" if miss is not None else ""

    def call(name, *a):
        try:
            return True, getattr(obj, name)(*a)
        except allowed:
            return False, None
        except Exception as e:  # pylint: disable=broad-except
            rec.fail(app, "%s%s raised %s: %s" % (
                name, a, type(e).__name__, str(e)[:120]))
            return False, None

    ok, v = call("recurrence_rate")
    if ok and R.size:
        rec.close(v, R.sum() / float(R.size), val + "recurrence_rate",
                  rtol=1e-12)
    if square and n >= 2:
        ok, v = call("recurrence_probability", 1)
        if ok:
            rec.close(v, float(np.trace(R, 1)) / (n - 1),
                      val + "recurrence_probability", rtol=1e-12)
    hist = {}
    if square:
        symmetric = bool(np.array_equal(R, R.T))
        hist_ref = {"v": rqa.vertline_hist(Rl, True, miss),
                    "w": rqa.vertline_hist(Rl, False, miss),
                    "d": rqa.diagline_hist(Rl, miss)}
    for key, name in (("d", "diagline_dist"), ("v", "vertline_dist"),
                      ("w", "white_vertline_dist")):
        ok, h = call(name)
        if not ok or not square:
            continue
        hist[key] = [int(x) for x in h]
        if key == "d" and not symmetric:
            continue
        if key == "w" and miss is not None:
            # white lines ignore missing_values=True: C08's finding KF-C08-2,
            # reported there and not a second time here
            continue
        rec.equal(h, hist_ref[key], val + name + mtag)
    for name, key in (("max_diaglength", "d"), ("max_vertlength", "v"),
                      ("max_white_vertlength", "w")):
        ok, v = call(name)
        if ok and key in hist:
            rec.check(int(v) == rqa.max_length(hist[key]), val + name,
                      "lib=%s ref=%s" % (v, rqa.max_length(hist[key])))
    for name, key, fn in RQA_SCALARS:
        ok, v = call(name, lmin)
        if ok and key in hist:
            rec.close(v, fn(hist[key], lmin), val + name, rtol=1e-6,
                      detail="min=%d" % lmin)
    ok, s = call("rqa_summary", lmin, lmin)
    if ok and "d" in hist and "v" in hist:
        want = {"RR": R.sum() / float(R.size) if R.size else float("nan"),
                "DET": rqa.points_ratio(hist["d"], lmin),
                "L": rqa.average_length(hist["d"], lmin),
                "LAM": rqa.points_ratio(hist["v"], lmin)}
        for k, w in want.items():
            rec.close(s.get(k, float("nan")), w, val + "rqa_summary_" + k,
                      rtol=1e-6)
    # resampled histograms: M draws from the support of the original
    for name, key in (("resample_diagline_dist", "d"),
                      ("resample_vertline_dist", "v")):
        pbt.seed_library_rngs(*seeds)
        ok, h = call(name, 7)
        if ok and key in hist:
            h = [int(x) for x in h]
            tot = sum(hist[key])
            good = len(h) == len(hist[key]) and all(
                (c == 0 or o > 0) for c, o in zip(h, hist[key])) and \
                (sum(h) == 7 if tot else h == hist[key])
            rec.check(good, val + name, "lib=%s orig=%s" % (h, hist[key]))


# ------------------------------------------------------ RecurrencePlot oracle

def build_rp(case, cls_name="RecurrencePlot"):
    import pyunicorn.timeseries as ts
    cls = getattr(ts, cls_name)
    kw = {case["mode"]: case["param"]}
    if case.get("dim") is not None:
        kw["dim"] = int(case["dim"])
        kw["tau"] = int(case["tau"])
    return cls(arr(case["series"]), metric=case["metric"],
               missing_values=bool(case.get("mv")), silence_level=3, **kw)


def oracle_rp(case, rec):
    mode, metric, param = case["mode"], case["metric"], case["param"]
    mv = bool(case.get("mv"))
    embedded = case.get("dim") is not None
    seeds = case.get("seeds") or [1, 2]
    lmin = case.get("lmin", 2)
    rec.label("mode=" + mode)
    rec.label("metric=" + metric)
    rec.label("missing" if mv else "complete")
    rec.label("embedded" if embedded else "cols=%d" % len(case["series"][0]))
    V = rref.states(case["series"], case.get("dim"), case.get("tau"))
    n = len(V)
    rec.label("n=1" if n == 1 else "n<=5" if n <= 5 else "n>5")
    miss = rref.missing_states(V)
    D = rref.distance_matrix(V, None, metric)
    dup = bool(np.any((D == 0) & ~np.eye(n, dtype=bool)))
    suffix = ("_missing" if mv else "") + ("_embedded" if embedded else "")

    cname = "construct_" + mode + ("_missing" if mv else "")
    if mode == "adaptive_neighborhood_size":
        # separate bucket for coincident state vectors (tie with the state's
        # own zero distance)
        cname = "construct_adaptive" + ("_duplicates" if dup else "")
    ok, rp = rec.call(cname, build_rp, case)
    if not ok:
        return
    R = np.asarray(rp.recurrence_matrix())
    rec.check(rp.N == n and R.shape == (n, n), "N_equals_number_of_states",
              "N=%s shape=%s states=%d" % (rp.N, R.shape, n))
    if R.shape != (n, n):
        return
    rec.check(set(np.unique(R).tolist()) <= {0, 1}, "matrix_is_binary")
    if nontrivial_matrix(R):
        rec.nontrivial(True)
        rec.label("nt")

    # embedding and distances
    rec.close(np.asarray(rp.embedding), V, "embedding_definition", rtol=0.0)
    for m in METRICS:
        okd, Dl = rec.call("distance_matrix_" + m, rp.distance_matrix, m)
        if okd:
            Dr = rref.distance_matrix(V, None, m)
            # cells of missing states: no distance is defined
            keep = ~(miss[:, None] | miss[None, :])
            rec.close(np.where(keep, np.asarray(Dl), 0.0),
                      np.where(keep, Dr, 0.0), "distance_" + m, rtol=1e-14)

    # never recurrent when either state holds a missing value
    if mv and miss.any():
        bad = int(R[miss, :].sum() + R[:, miss].sum())
        rec.check(bad == 0, "missing_never_recurrent_" + (
            "" if mode == "threshold" else "ratebased_") + mode,
                  "%d recurrences in rows/columns of missing states %s" % (
                      bad, np.nonzero(miss)[0][:5].tolist()))

    if mode in ("threshold", "threshold_std"):
        std = pop_std(case["series"]) if mode == "threshold_std" else None
        cand = expected_matrices(V, None, metric, mode, param, std)
        free = cand[0][1]
        if free.any():
            rec.label("boundary_cells")
        thr = param if mode == "threshold" else param * std
        with np.errstate(invalid="ignore"):
            if np.any((D == thr) & ~np.eye(n, dtype=bool)):
                rec.label("threshold_on_a_distance")
        rec.check(match_any(R, cand), mode + "_" + metric + suffix,
                  lambda: describe(R, cand))
    elif mode == "recurrence_rate" and not mv:
        okr, msg, _ = rref.check_rate_set(R, D, param, V, None, metric)
        rec.check(okr, "fixed_rate_quantile_" + metric, msg)
    elif mode == "local_recurrence_rate" and not mv:
        counts = []
        for i in range(n):
            okr, msg, tie_free = rref.check_rate_set(
                R[i:i + 1], D[i:i + 1], param, V[i:i + 1], V, metric)
            rec.check(okr, "local_rate_quantile_" + metric,
                      "row %d: %s" % (i, msg))
            if tie_free:
                counts.append(int(R[i].sum()))
        # "every state the same number of recurrences" wherever the selected
        # order statistic is unique in its row
        rec.label("local_tie_free_rows=%s" % (
            "all" if len(counts) == n else "some" if counts else "none"))
        rec.check(len(set(counts)) <= 1, "local_rate_equal_counts",
                  "counts of tie-free rows: %s" % sorted(set(counts)))
    elif mode == "adaptive_neighborhood_size" and not mv:
        rec.label("adaptive_duplicates" if dup else "adaptive_distinct")
        rec.check(bool(np.array_equal(R, R.T)), "adaptive_symmetric")
        offdeg = R.sum(axis=1) - np.diag(R)
        rec.check(int(offdeg.min()) >= int(param),
                  "adaptive_at_least_m_neighbours" +
                  ("_duplicates" if dup else ""),
                  "m=%s neighbour counts=%s" % (param, offdeg.tolist()[:12]))

    # every quantification method applies and equals the C08 reference
    tag = "rp" + ("_missing" if mv else "")
    check_rqa(rec, rp, tag, lmin, seeds, miss if mv else None)
    if embedded:
        rec.call("permutation_entropy", rp.permutation_entropy)
        rec.call("complexity_entropy", rp.complexity_entropy)

    # ---- recurrence network = matrix without its diagonal
    if case.get("network") and (int((~miss).sum()) if mv else n) >= 2:
        okn, rn = rec.call("construct_network_" + mode +
                           ("_missing" if mv else ""),
                           build_rp, case, "RecurrenceNetwork")
        if not okn:
            return
        Rn = np.asarray(rn.recurrence_matrix())
        rec.equal(Rn, R, "network_same_recurrence_matrix")
        A = rref.without_diagonal(Rn)
        if mv:
            # documented: state vectors containing missing values are removed
            keep = ~miss
            A = A[keep][:, keep]
        okA, Al = rec.call("network_adjacency", lambda: rn.adjacency)
        if okA:
            rec.equal(Al, A, "network_adjacency_is_R_minus_diagonal" +
                      ("_missing" if mv else ""))
            rec.check(rn.directed == (mode == "local_recurrence_rate"),
                      "network_directedness")
        check_rqa(rec, rn, "network" + ("_missing" if mv else ""), lmin,
                  seeds, miss if mv else None)
        if not mv:
            # every setter keeps matrix and network in step with its own
            # construction rule (the value is interpreted as by __init__)
            p2 = case.get("param2", param) if mode == "threshold" else param
            setter = {"threshold": "set_fixed_threshold",
                      "threshold_std": "set_fixed_threshold_std",
                      "recurrence_rate": "set_fixed_recurrence_rate",
                      "local_recurrence_rate":
                      "set_fixed_local_recurrence_rate",
                      "adaptive_neighborhood_size":
                      "set_adaptive_neighborhood_size"}[mode]
            hk = int(pbt.case_hash(case)[:4], 16)
            if hk % 2:
                p2 = param       # back to the value of the construction
            for who, obj in (("network", rn), ("plot", rp)):
                if hk % 3:
                    # leave the mode and come back: threshold -> rate ->
                    # threshold again (a memo keyed on the value must not
                    # survive the detour)
                    detour = ("set_fixed_recurrence_rate", 0.5) \
                        if mode != "recurrence_rate" \
                        else ("set_fixed_threshold", 1.0)
                    okd_, _ = rec.call("%s_detour_%s" % (who, detour[0]),
                                       getattr(obj, detour[0]), detour[1])
                    if not okd_:
                        continue
                oks, _ = rec.call("%s_%s" % (who, setter),
                                  getattr(obj, setter), p2)
                if not oks:
                    continue
                R2 = np.asarray(obj.recurrence_matrix())
                if mode in ("threshold", "threshold_std"):
                    std2 = pop_std(case["series"]) \
                        if mode == "threshold_std" else None
                    c2 = expected_matrices(V, None, metric, mode, p2, std2)
                    rec.check(match_any(R2, c2), "%s_setter_matrix_%s" % (
                        who, mode), lambda R2=R2, c2=c2: describe(R2, c2))
                else:
                    # same parameter as at construction: the matrix checked
                    # against the definition above must come back
                    rec.equal(R2, R, "%s_setter_matrix_%s" % (who, mode))
                if who == "network":
                    rec.equal(rn.adjacency, rref.without_diagonal(R2),
                              "network_setter_adjacency")
                if mode == "adaptive_neighborhood_size" and n >= 2:
                    # the optional processing order: whatever the order,
                    # the result is symmetric and every state gets at least
                    # m neighbours (the guarantee checked above for the
                    # default order); the identity order is the default
                    perm = list(range(n))[::-1] if hk % 2 else \
                        [(k * 7 + hk) % n for k in range(n)]
                    if sorted(perm) != list(range(n)):
                        perm = list(range(n))[::-1]
                    for tag, od in (("identity", list(range(n))),
                                    ("permuted", perm)):
                        oko, _ = rec.call(
                            "%s_%s_order_%s" % (who, setter, tag),
                            getattr(obj, setter), p2,
                            order=np.array(od, dtype=np.int32))
                        if not oko:
                            continue
                        R3 = np.asarray(obj.recurrence_matrix())
                        if tag == "identity":
                            rec.equal(R3, R, "adaptive_identity_order_is_"
                                      "default_" + who)
                            continue
                        rec.check(bool(np.array_equal(R3, R3.T)),
                                  "adaptive_symmetric_permuted_order")
                        deg3 = R3.sum(axis=1) - np.diag(R3)
                        rec.check(int(deg3.min()) >= int(p2),
                                  "adaptive_at_least_m_neighbours_permuted_"
                                  "order" + ("_duplicates" if dup else ""),
                                  "m=%s neighbour counts=%s order=%s" % (
                                      p2, deg3.tolist()[:12], od[:12]))


# ----------------------------------------------------------- cross oracle

def build_cross(case):
    from pyunicorn.timeseries import CrossRecurrencePlot
    kw = {case["mode"]: case["param"]}
    if case.get("dim") is not None:
        kw["dim"] = int(case["dim"])
        kw["tau"] = int(case["tau"])
    return CrossRecurrencePlot(arr(case["x"]), arr(case["y"]),
                               metric=case["metric"], silence_level=3, **kw)


def oracle_cross(case, rec):
    mode, metric, param = case["mode"], case["metric"], case["param"]
    embedded = case.get("dim") is not None
    rec.label("mode=" + mode)
    rec.label("metric=" + metric)
    VX = rref.states(case["x"], case.get("dim"), case.get("tau"))
    VY = rref.states(case["y"], case.get("dim"), case.get("tau"))
    n, m = len(VX), len(VY)
    rec.label("N!=M" if n != m else "N==M")
    rec.label("embedded" if embedded else "plain")
    sfx = "_embedded" if embedded else ""
    ok, cr = rec.call("cross_construct_" + mode + sfx, build_cross, case)
    if not ok:
        return
    CR = np.asarray(cr.recurrence_matrix())
    rec.check(CR.shape == (n, m) and cr.N == n and cr.M == m,
              "cross_shape_N_M" + sfx, "shape=%s N=%s M=%s want (%d,%d)" % (
                  CR.shape, cr.N, cr.M, n, m))
    if CR.shape != (n, m):
        return
    if nontrivial_matrix(CR):
        rec.nontrivial(True)
        rec.label("nt")
        if n != m or embedded:
            rec.label("nt:unequal_or_embedded")
    okd, Dl = rec.call("cross_distance_matrix", cr.distance_matrix, metric)
    D = rref.distance_matrix(VX, VY, metric)
    if okd:
        rec.close(Dl, D, "cross_distance_" + metric, rtol=1e-14)
    if mode == "threshold":
        cand = expected_matrices(VX, VY, metric, mode, param)
        rec.check(match_any(CR, cand), "cross_threshold_" + metric + sfx,
                  lambda: describe(CR, cand))
    else:
        okr, msg, _ = rref.check_rate_set(CR, D, param, VX, VY, metric)
        rec.check(okr, "cross_rate_quantile_" + metric + sfx, msg)
    okc, v = rec.call("cross_recurrence_rate", cr.cross_recurrence_rate)
    if okc:
        rec.close(v, CR.sum() / float(n * m), "cross_recurrence_rate_value",
                  rtol=1e-12)
    # balance: (recurrences above - below the main diagonal) / their sum
    # (plain ints: the matrix entries are int8)
    up = float(sum(int(CR[i, j]) for i in range(n) for j in range(m)
                   if j > i))
    lo = float(sum(int(CR[i, j]) for i in range(n) for j in range(m)
                   if j < i))
    if up + lo > 0:
        okb, bal = rec.call("cross_balance", cr.balance)
        if okb:
            rec.close(bal, (up - lo) / (up + lo), "cross_balance_value",
                      rtol=1e-12)
    check_rqa(rec, cr, "cross", case.get("lmin", 2),
              case.get("seeds") or [1, 2], cross=True)
    # leave the mode and come back with the same value: the matrix verified
    # above must come back too
    own = "set_fixed_threshold" if mode == "threshold" \
        else "set_fixed_recurrence_rate"
    detour = ("set_fixed_recurrence_rate", 0.5) if mode == "threshold" \
        else ("set_fixed_threshold", 1.0)
    okd_, _ = rec.call("cross_detour_" + detour[0], getattr(cr, detour[0]),
                       detour[1])
    if okd_:
        oks, _ = rec.call("cross_" + own, getattr(cr, own), param)
        if oks:
            rec.equal(np.asarray(cr.recurrence_matrix()), CR,
                      "cross_setter_returns_to_" + mode)


# ------------------------------------------------------------ joint oracle

def build_joint(case, cls_name="JointRecurrencePlot"):
    import pyunicorn.timeseries as ts
    cls = getattr(ts, cls_name)
    kw = {case["mode"]: tuple(case["param"])}
    if case.get("dim") is not None:
        kw["dim"] = tuple(int(v) for v in case["dim"])
        kw["tau"] = tuple(int(v) for v in case["tau"])
    return cls(arr(case["x"]), arr(case["y"]), metric=tuple(case["metric"]),
               lag=int(case["lag"]), silence_level=3, **kw)


def joint_candidates(case, param=None):
    """Admissible (JR, free) pairs and the number of common state vectors."""
    mode = case["mode"]
    param = case["param"] if param is None else param
    dim, tau = case.get("dim"), case.get("tau")
    VX = rref.states(case["x"], dim[0] if dim else None,
                     tau[0] if tau else None)
    VY = rref.states(case["y"], dim[1] if dim else None,
                     tau[1] if tau else None)
    n = min(len(VX), len(VY))     # "prune embedded series to same length"
    VX, VY = VX[:n], VY[:n]
    cx = expected_matrices(VX, None, case["metric"][0], mode, param[0],
                           pop_std(case["x"]))
    cy = expected_matrices(VY, None, case["metric"][1], mode, param[1],
                           pop_std(case["y"]))
    lag = int(case["lag"])
    out = []
    for (Rx, fx), (Ry, fy) in itertools.product(cx, cy):
        JR = rref.joint(Rx, Ry, lag)
        # a cell is undecided if either factor is a boundary cell
        ones = np.ones_like(Rx)
        fr = 1 - rref.joint(ones - fx.astype(np.int8),
                            ones - fy.astype(np.int8), lag)
        out.append((JR, fr.astype(bool)))
    return out, n


def oracle_joint(case, rec):
    mode = case["mode"]
    lag = int(case["lag"])
    embedded = case.get("dim") is not None
    lt = "_lagged" if lag else ""
    rec.label("mode=" + mode)
    rec.label("lag>0" if lag > 0 else "lag<0" if lag < 0 else "lag=0")
    rec.label("embedded" if embedded else "plain")
    rec.label("metrics=%s" % ("same" if case["metric"][0] == case["metric"][1]
                              else "mixed"))
    cand, n = joint_candidates(case)
    size = n - abs(lag)
    ok, jp = rec.call("joint_construct_" + mode + lt, build_joint, case)
    if not ok:
        return
    JR = np.asarray(jp.recurrence_matrix())
    rec.check(JR.shape == (size, size), "joint_matrix_size" + lt,
              "shape=%s want %d" % (JR.shape, size))
    if JR.shape == (size, size):
        if nontrivial_matrix(JR):
            rec.nontrivial(True)
            rec.label("nt")
            if lag:
                rec.label("nt:lagged")
        rec.check(match_any(JR, cand), "joint_composition_" + mode + lt +
                  ("_embedded" if embedded else ""),
                  lambda: describe(JR, cand))
    # mutually consistent sizes: N is the size of the matrix it describes
    rec.check(jp.N == JR.shape[0], "N_matches_matrix_joint" + lt,
              "N=%s matrix=%s" % (jp.N, JR.shape))
    check_rqa(rec, jp, "joint" + lt, case.get("lmin", 2),
              case.get("seeds") or [1, 2])

    if case.get("network") and size >= 2:
        okn, jn = rec.call("joint_network_construct" + lt, build_joint, case,
                           "JointRecurrenceNetwork")
        if not okn:
            return
        JRn = np.asarray(jn.recurrence_matrix())
        zero_diag = bool(JRn.shape[0]) and bool((np.diag(JRn) == 0).any())
        if zero_diag:
            rec.label("joint_matrix_with_zero_diagonal")
        rec.equal(JRn, JR, "joint_network_same_matrix" + lt)
        okA, A = rec.call("joint_network_adjacency" + lt,
                          lambda: jn.adjacency)
        if okA:
            rec.equal(A, rref.without_diagonal(JRn),
                      "joint_network_adjacency_is_JR_minus_diagonal" + lt +
                      ("_zero_diagonal" if zero_diag else ""))
        rec.check(jn.N == JRn.shape[0], "joint_network_N_matches_matrix" + lt,
                  "N=%s matrix=%s" % (jn.N, JRn.shape))
        check_rqa(rec, jn, "joint_network" + lt, case.get("lmin", 2),
                  case.get("seeds") or [1, 2])
        # setter: network follows the matrix, no self-loops
        p2 = case.get("param2") or case["param"]
        setter = {"threshold": "set_fixed_threshold",
                  "threshold_std": "set_fixed_threshold_std",
                  "recurrence_rate": "set_fixed_recurrence_rate"}[mode]
        oks, _ = rec.call("joint_network_" + setter + lt,
                          getattr(jn, setter), tuple(p2))
        if oks:
            c2, _n = joint_candidates(case, p2)
            J2 = np.asarray(jn.recurrence_matrix())
            rec.check(match_any(J2, c2), "joint_network_setter_matrix" + lt,
                      lambda: describe(J2, c2))
            okA, A2 = rec.call("joint_network_setter_adjacency" + lt,
                               lambda: jn.adjacency)
            if okA and J2.ndim == 2 and J2.shape[0] == J2.shape[1]:
                zd = bool((np.diag(J2) == 0).any())
                rec.equal(A2, rref.without_diagonal(J2),
                          "joint_network_setter_adjacency_is_JR_minus_diagonal"
                          + lt + ("_zero_diagonal" if zd else ""))


# ----------------------------------------------------- inter-system oracle

def build_isrn(case):
    from pyunicorn.timeseries import InterSystemRecurrenceNetwork
    kw = {case["mode"]: tuple(case["param"])}
    if case.get("dim") is not None:
        kw["dim"] = int(case["dim"])
        kw["tau"] = tuple(int(v) for v in case["tau"])
    return InterSystemRecurrenceNetwork(
        arr(case["x"]), arr(case["y"]), metric=case["metric"],
        silence_level=3, **kw)


def oracle_isrn(case, rec):
    mode, metric, param = case["mode"], case["metric"], case["param"]
    embedded = case.get("dim") is not None
    sfx = "_embedded" if embedded else ""
    dim, tau = case.get("dim"), case.get("tau")
    VX = rref.states(case["x"], dim, tau[0] if tau else None)
    VY = rref.states(case["y"], dim, tau[1] if tau else None)
    nx, ny = len(VX), len(VY)
    rec.label("mode=" + mode)
    rec.label("metric=" + metric)
    rec.label("Nx!=Ny" if nx != ny else "Nx==Ny")
    rec.label("embedded" if embedded else "plain")
    ok, net = rec.call("isrn_construct_" + mode + sfx, build_isrn, case)
    if not ok:
        return
    okA, A = rec.call("isrn_adjacency", lambda: net.adjacency)
    if not okA:
        return
    A = np.asarray(A)
    rec.check(A.shape == (nx + ny, nx + ny) and net.N == nx + ny and
              net.N_x == nx and net.N_y == ny, "isrn_sizes" + sfx,
              "adjacency=%s N=%s N_x=%s N_y=%s want %d+%d" % (
                  A.shape, net.N, net.N_x, net.N_y, nx, ny))
    cx = expected_matrices(VX, None, metric, mode, param[0])
    cy = expected_matrices(VY, None, metric, mode, param[1])
    cc = expected_matrices(VX, VY, metric, mode, param[2])
    cand = []
    for (Rx, fx), (Ry, fy), (Rc, fc) in itertools.product(cx, cy, cc):
        fr = rref.inter_system(fx.astype(np.int8), fy.astype(np.int8),
                               fc.astype(np.int8)).astype(bool)
        cand.append((rref.inter_system(Rx, Ry, Rc), fr))
    if A.shape == (nx + ny, nx + ny):
        if nontrivial_matrix(A):
            rec.nontrivial(True)
            rec.label("nt")
            if nx != ny or embedded:
                rec.label("nt:unequal_or_embedded")
        rec.check(match_any(A, cand), "isrn_block_composition_" + mode + sfx,
                  lambda: describe(A, cand))
        rec.check(not np.diag(A).any(), "isrn_no_self_loops")
    okr, rates = rec.call("isrn_internal_recurrence_rates",
                          net.internal_recurrence_rates)
    if okr:
        rec.close(rates[0], np.asarray(net.rp_x.recurrence_matrix()).sum()
                  / float(nx * nx), "isrn_internal_rate_x", rtol=1e-12)
        rec.close(rates[1], np.asarray(net.rp_y.recurrence_matrix()).sum()
                  / float(ny * ny), "isrn_internal_rate_y", rtol=1e-12)
    okr, v = rec.call("isrn_cross_recurrence_rate",
                      net.cross_recurrence_rate)
    if okr and A.shape == (nx + ny, nx + ny):
        rec.close(v, A[:nx, nx:].sum() / float(nx * ny),
                  "isrn_cross_rate_value", rtol=1e-12)
    # the parts are themselves recurrence plots: every method applies
    check_rqa(rec, net.rp_x, "isrn_part", case.get("lmin", 2),
              case.get("seeds") or [1, 2])


# ------------------------------------------------------------- generators

def _f32(v):
    return float(np.float32(v))


@st.composite
def columns(draw, n, d, kind):
    cols = []
    for _ in range(d):
        if kind == "grid":
            hi = draw(st.integers(1, 6))
            col = draw(st.lists(st.integers(0, hi), min_size=n, max_size=n))
        elif kind == "dyadic":
            col = [v / 8.0 for v in draw(st.lists(
                st.integers(-24, 24), min_size=n, max_size=n))]
        elif kind == "walk":
            col = [draw(st.integers(-4, 4))]
            while len(col) < n:
                slope = draw(st.integers(-2, 2))
                for _k in range(draw(st.integers(1, 5))):
                    if len(col) < n:
                        col.append(col[-1] + slope)
        elif kind == "decimal":
            # float32-rounded decimals: sums and square roots are inexact
            col = [_f32(v / 10.0) for v in draw(st.lists(
                st.integers(-30, 30), min_size=n, max_size=n))]
        else:
            col = [_f32(v) for v in draw(st.lists(
                st.floats(-4, 4, allow_nan=False, width=32),
                min_size=n, max_size=n))]
        cols.append([float(v) for v in col])
    return [[cols[c][i] for c in range(d)] for i in range(n)]


KINDS = ["grid", "grid", "dyadic", "walk", "decimal", "float"]


def no_tiny(series):
    """threshold_std evaluates the standard deviation in single precision:
    squares of samples below ~1e-19 underflow there.  Samples with 0 < |v| <
    2^-6 are flushed to 0 for that mode (false alarm seen with y = [0, 4e-30]:
    float32 std = 0, double std = 2e-30)."""
    return [[0.0 if (v is not None and 0 < abs(v) < 2.0 ** -6) else v
             for v in row] for row in series]


@st.composite
def embedding_params(draw, n, p=2):
    """(dim, tau) with at least one state vector, or (None, None)."""
    if n < 2 or draw(st.integers(0, p)) != 0:
        return None, None
    dim = draw(st.integers(1, 4))
    tau = draw(st.integers(1, 4))
    while (dim - 1) * tau >= n:
        if tau > 1:
            tau -= 1
        else:
            dim -= 1
    return dim, tau


def pick_threshold(draw, D, extremes=True):
    """random / on an actual distance / its float64 neighbours / 0 / huge."""
    fin = D[np.isfinite(D)]
    top = float(fin.max()) if fin.size else 1.0
    how = draw(st.sampled_from(["random"] * 4 + ["on"] * 4 + ["above"] * 2 +
                               ["below"] * 2 +
                               (["zero", "huge"] if extremes else [])))
    n, m = D.shape
    i = draw(st.integers(0, n - 1))
    j = draw(st.integers(0, m - 1))
    if n == m and i == j and n >= 2:
        j = (i + 1 + draw(st.integers(0, n - 2))) % n
    dij = float(D[i, j]) if math.isfinite(float(D[i, j])) else top
    if how == "random":
        return draw(st.floats(0.0, 1.0)) * (top if top > 0 else 1.0) * 1.1
    if how == "on":
        return dij
    if how == "above":
        return float(np.nextafter(dij, np.inf))
    if how == "below":
        return float(np.nextafter(dij, -np.inf))
    if how == "zero":
        return 0.0
    return top * 2 + 1


RATES = [0.0, 0.05, 0.1, 0.25, 0.3, 0.5, 0.7, 0.75, 0.9, 1.0]
STDS = [0.0, 0.25, 0.5, 1.0, 1.5, 3.0]


@st.composite
def rp_cases(draw):
    n = draw(st.one_of(st.integers(1, 6), st.integers(2, 16),
                       st.integers(2, 40)))
    d = draw(st.sampled_from([1, 1, 1, 2, 3]))
    series = draw(columns(n, d, draw(st.sampled_from(KINDS))))
    dim, tau = (None, None) if d > 1 else draw(embedding_params(n))
    metric = draw(st.sampled_from(METRICS))
    mode = draw(st.sampled_from(
        ["threshold"] * 5 + ["threshold_std", "recurrence_rate",
                             "recurrence_rate", "local_recurrence_rate",
                             "local_recurrence_rate",
                             "adaptive_neighborhood_size",
                             "adaptive_neighborhood_size"]))
    mv = draw(st.integers(0, 3)) == 0 and mode != "threshold_std"
    if mv:
        for _ in range(draw(st.integers(1, max(1, n // 5)))):
            series[draw(st.integers(0, n - 1))][
                draw(st.integers(0, d - 1))] = None
    if mode == "threshold_std":
        series = no_tiny(series)
    V = rref.states(series, dim, tau)
    nv = len(V)
    if mode == "adaptive_neighborhood_size" and nv < 3:
        mode = "threshold"
    param2 = None
    if mode == "threshold":
        D = rref.distance_matrix(V, None, metric)
        param = pick_threshold(draw, D)
        param2 = pick_threshold(draw, D)
    elif mode == "threshold_std":
        param = draw(st.sampled_from(STDS))
    elif mode in ("recurrence_rate", "local_recurrence_rate"):
        param = draw(st.sampled_from(RATES))
    else:
        # "at least m neighbours" is satisfiable for every m <= N-1 (the
        # documented mean degree 2m additionally presupposes 2m <= N-1);
        # large m relative to N are drawn in half of the cases
        param = draw(st.one_of(
            st.integers(1, max(1, min(6, (nv - 1) // 2))),
            st.integers(1, max(1, nv - 1))))
    return {"series": series, "dim": dim, "tau": tau, "metric": metric,
            "mode": mode, "param": param, "param2": param2, "mv": mv,
            "lmin": draw(st.integers(1, 4)),
            "seeds": [draw(st.integers(0, 999)), draw(st.integers(0, 999))],
            "network": draw(st.integers(0, 2)) == 0}


def enum_small(tier):
    """Every series over {0,1,2} of length 1..5, three metrics, thresholds on
    and next to the attainable distances."""
    thr = [0.0, 1.0, float(np.nextafter(1.0, 2.0)), 2.5]
    for n in range(1, 6):
        for xs in itertools.product(range(3), repeat=n):
            for metric in METRICS:
                for t in thr:
                    yield {"series": [[float(v)] for v in xs], "dim": None,
                           "tau": None, "metric": metric, "mode": "threshold",
                           "param": t, "param2": 1.0, "mv": False, "lmin": 2,
                           "seeds": [1, 2], "network": n >= 2 and t == 1.0}


@st.composite
def two_series(draw, equal_length, max_len=30, scalar=None):
    n = draw(st.one_of(st.integers(1, 6), st.integers(2, max_len),
                       st.integers(3, max_len)))
    m = n if equal_length else draw(st.one_of(
        st.integers(1, 6), st.integers(2, max_len)))
    d = 1 if scalar else draw(st.sampled_from([1, 1, 2, 3]))
    kind = draw(st.sampled_from(KINDS))
    return draw(columns(n, d, kind)), draw(columns(m, d, kind)), d


@st.composite
def cross_cases(draw):
    x, y, d = draw(two_series(False))
    dim, tau = (None, None) if d > 1 else draw(
        embedding_params(min(len(x), len(y))))
    metric = draw(st.sampled_from(METRICS))
    mode = draw(st.sampled_from(["threshold", "threshold",
                                 "recurrence_rate"]))
    if mode == "threshold":
        D = rref.distance_matrix(rref.states(x, dim, tau),
                                 rref.states(y, dim, tau), metric)
        param = pick_threshold(draw, D)
    else:
        param = draw(st.sampled_from(RATES))
    return {"x": x, "y": y, "dim": dim, "tau": tau, "metric": metric,
            "mode": mode, "param": param, "lmin": draw(st.integers(1, 3)),
            "seeds": [draw(st.integers(0, 999)), draw(st.integers(0, 999))]}


@st.composite
def joint_cases(draw):
    x, y, d = draw(two_series(True, max_len=24))
    n = len(x)
    dim = tau = None
    if d == 1 and n >= 2 and draw(st.integers(0, 2)) == 0:
        dx, tx = draw(embedding_params(n, p=0))
        dy, ty = draw(embedding_params(n, p=0))
        dim, tau = [dx, dy], [tx, ty]
    metric = [draw(st.sampled_from(METRICS)), draw(st.sampled_from(METRICS))]
    mode = draw(st.sampled_from(["threshold", "threshold", "threshold_std",
                                 "recurrence_rate"]))
    if mode == "threshold_std":
        x, y = no_tiny(x), no_tiny(y)
    VX = rref.states(x, dim[0] if dim else None, tau[0] if tau else None)
    VY = rref.states(y, dim[1] if dim else None, tau[1] if tau else None)
    ns = min(len(VX), len(VY))
    VX, VY = VX[:ns], VY[:ns]

    def params():
        if mode == "threshold":
            ext = draw(st.integers(0, 4)) == 0
            return [pick_threshold(draw, rref.distance_matrix(
                        VX, None, metric[0]), ext),
                    pick_threshold(draw, rref.distance_matrix(
                        VY, None, metric[1]), ext)]
        if mode == "threshold_std":
            return [draw(st.sampled_from(STDS)), draw(st.sampled_from(STDS))]
        return [draw(st.sampled_from(RATES)), draw(st.sampled_from(RATES))]
    # lags of either sign, |lag| < number of state vectors
    lag = draw(st.sampled_from([0, 0, 1, -1, 2, -2, 3, -3, 5, -5]))
    if abs(lag) >= ns:
        lag = (ns - 1) * (1 if lag > 0 else -1)
    return {"x": x, "y": y, "dim": dim, "tau": tau, "metric": metric,
            "mode": mode, "param": params(), "param2": params(), "lag": lag,
            "lmin": draw(st.integers(1, 3)),
            "seeds": [draw(st.integers(0, 999)), draw(st.integers(0, 999))],
            "network": draw(st.integers(0, 1)) == 0}


@st.composite
def isrn_cases(draw):
    x, y, d = draw(two_series(False, max_len=20))
    while len(x) < 2:
        x = x + x
    while len(y) < 2:
        y = y + y
    dim = tau = None
    if d == 1 and draw(st.integers(0, 1)) == 0:
        dim = draw(st.integers(1, 3))
        tau = [draw(st.integers(1, 3)), draw(st.integers(1, 3))]
        while (dim - 1) * max(tau) >= min(len(x), len(y)) - 1:
            if dim > 1:
                dim -= 1
            else:
                tau = [1, 1]
    metric = draw(st.sampled_from(METRICS))
    mode = draw(st.sampled_from(["threshold", "threshold",
                                 "recurrence_rate"]))
    VX = rref.states(x, dim, tau[0] if tau else None)
    VY = rref.states(y, dim, tau[1] if tau else None)
    if mode == "threshold":
        param = [pick_threshold(draw, rref.distance_matrix(VX, None, metric)),
                 pick_threshold(draw, rref.distance_matrix(VY, None, metric)),
                 pick_threshold(draw, rref.distance_matrix(VX, VY, metric))]
    else:
        param = [draw(st.sampled_from(RATES)) for _ in range(3)]
    return {"x": x, "y": y, "dim": dim, "tau": tau, "metric": metric,
            "mode": mode, "param": param, "lmin": draw(st.integers(1, 3)),
            "seeds": [draw(st.integers(0, 999)), draw(st.integers(0, 999))]}


SUBCHECKS = [
    SubCheck("small_exhaustive", oracle_rp, enum=enum_small,
             quick=(4, None), thorough=(4, None),
             doc="all series over {0,1,2} up to length 5, ties on thresholds"),
    SubCheck("recurrence_plot", oracle_rp, gen=rp_cases,
             quick=(6, 600), thorough=(8, 9000)),
    SubCheck("cross", oracle_cross, gen=cross_cases,
             quick=(2, 700), thorough=(4, 7000)),
    SubCheck("joint", oracle_joint, gen=joint_cases,
             quick=(4, 500), thorough=(8, 5000)),
    SubCheck("inter_system", oracle_isrn, gen=isrn_cases,
             quick=(2, 500), thorough=(4, 5000)),
]
