"""C09 - similarity (climate) networks link exactly the pairs above the threshold.

Model (plain numpy, no library code): with ``S32 = |float32(S)|`` (the
constructor documents ``np.abs(similarity.astype("float32"))``) and, when local
links are suppressed, ``W = 0.5*(tanh(20*(d - 0.05)) + 1)`` from the grid's own
angular distance ``d`` (its correctness is C12's business),

    A[i, j] == (i != j and W[i, j] * S32[i, j] > threshold)

Decisions are taken in float64 on the float32 inputs; a pair is classified
*boundary - either answer* only where the documented arithmetic is ambiguous in
the last bits: a threshold that is not float32-representable lying within
2 ulp(float32) of the similarity (NEP-50 rounds a Python float to float32 but
keeps a numpy float64 scalar), or a damped similarity (W not saturated) within
1e-5 relative of the threshold.  Everything else - in particular every tie
``S32 == threshold`` on float32-exact values - is exact.

Density clause.  ``threshold_from_link_density`` documents the selected value
as ``sorted_similarities[int((1 - rho) * (N*N - N))]`` "excluding the entries
on the main diagonal, since they will not be included in the network anyways",
i.e. the int((1-rho)*M)-th smallest of the M = N(N-1) off-diagonal values.
Hence (links counted as ordered pairs L):   L <= rho*M   and
L >= rho*M - (t + 1) with t = number of off-diagonal pairs tied at the selected
value.  The shortfall bound is only claimed without distance damping (the
quantile is taken from the undamped similarities).

Directed Hilbert networks are the documented exception to the pure rule: their
adjacency is the rule times (phase_shift > 0).  The inherited setters
re-threshold without that factor (observed, counted under the label
``hilbert_directed_setter_drops_phase_direction``); since the property does not
say whether the direction factor has to survive a setter, either reading is
accepted after a setter on a directed Hilbert network and nothing is alarmed.

After a ``set_link_density`` step the model adopts the *reported* threshold, so
that a wrong quantile shows up under the density clauses only and the
consistency clauses keep testing "reported threshold <-> adjacency <-> n_links
<-> link_density <-> non_local()".
"""
from fractions import Fraction

import numpy as np
from hypothesis import strategies as st

from vp.pbt import SubCheck, represent

PROPERTY = "C09"
RULE = ("matrix: a similarity matrix (values k/8, dyadic k/2^16, decimals "
        "k/20 that are not float32-exact, non-negative 'MI-like'; symmetric or "
        "asymmetric+directed; diagonal dominant / zero / free), a GeoGrid with "
        "a tight cluster (distances around d_min = 0.05 rad) and far nodes, "
        "1-4 thresholds (exact matrix values, midpoints, 0, negative, above "
        "the maximum; Python float / numpy float32 / float64 / int) and 1-3 "
        "requested densities (0, 1, k/M, k/M +- 1e-12, decimals, floats); every "
        "threshold and density builds a fresh network. history: the same "
        "plus 1-8 setter calls (set_threshold / set_link_density / "
        "set_non_local) interpreted against the model, with a fresh twin "
        "after every step. derived: the eight data-derived subclasses on "
        "generated ClimateData / event matrices with short setter histories "
        "(similarity taken from the object, its correctness is C10's "
        "business). NON-TRIVIAL = some evaluated threshold separates at "
        "least one off-diagonal pair from another (0 < links < N(N-1)), or a "
        "density 0 < rho < 1 was requested; distinct = hash of the whole "
        "case.")
ASSUMPTIONS = [
    "similarity matrices are finite (no NaN/inf) and N >= 2",
    "an asymmetric similarity is only combined with directed=True (Network "
    "documents 'adjacency must be symmetric if directed=False')",
    "the distance weight uses the grid's own angular_distance() (C12 decides "
    "its correctness); damped pairs within 1e-5 relative of the threshold "
    "and inexact thresholds within 2 ulp(float32) of a similarity may go "
    "either way",
    "the shortfall bound of the density clause is only required with "
    "non_local=False (the quantile is documented on the undamped values)",
    "cached measures such as degree() after a setter are C01's business",
    "for data-derived subclasses the similarity matrix is read back from the "
    "object (similarity_measure()); its statistical correctness is C10",
]

D_MIN = 0.05
STEEP = 20.0


# ------------------------------------------------------------------ reference

def f32_exact(v):
    try:
        return float(np.float32(v)) == float(v)
    except (OverflowError, ValueError):
        return False


def thr_value(spec):
    """Threshold spec {"v": number, "t": "py"|"f32"|"f64"|"int"} -> object
    handed to the library."""
    v, t = spec["v"], spec["t"]
    if t == "f32":
        return np.float32(v)
    if t == "f64":
        return np.float64(v)
    if t == "int":
        return int(v)
    return float(v)


def abs32(S):
    return np.abs(np.asarray(S).astype("float32"))


def weights64(d):
    """Documented distance weight, float64, from an angular distance matrix."""
    d = np.asarray(d, dtype=np.float64)
    return 0.5 * (np.tanh(STEEP * (d - D_MIN)) + 1.0)


def model_adjacency(S32, thr, W=None):
    """(A_ref, boundary) for threshold ``thr`` (any scalar type)."""
    n = len(S32)
    off = ~np.eye(n, dtype=bool)
    t = float(thr)
    S64 = S32.astype(np.float64)
    band_t = 0.0 if f32_exact(t) else \
        2.0 * float(np.spacing(np.float32(abs(t))))
    if W is None:
        w = S64
        band = np.full((n, n), band_t)
    else:
        w = S64 * W
        sat = W >= 1.0 - 1e-9          # tanh saturated: weight is exactly 1
        w = np.where(sat, S64, w)
        band = np.where(sat, band_t,
                        1e-5 * np.maximum(abs(t), np.abs(w)) + 1e-9)
    with np.errstate(invalid="ignore"):
        A = (w > t) & off
        boundary = (np.abs(w - t) <= band) & off & (band > 0)
    return A.astype(np.int8), boundary


def offdiag_sorted(S32):
    n = len(S32)
    return np.sort(S32[~np.eye(n, dtype=bool)].astype(np.float64))


def quantile_candidates(S32, rho):
    """Acceptable selected values: the documented index evaluated in floating
    point and exactly.  None stands for 'index past the last off-diagonal
    value: any threshold >= the maximum'."""
    n = len(S32)
    M = n * (n - 1)
    v = offdiag_sorted(S32)
    ks = {int((1 - rho) * M)}
    ks.add(int((Fraction(1) - Fraction(float(rho))) * M))
    return v, [None if k >= M else float(v[k]) for k in sorted(ks)]


# ------------------------------------------------------------------ building

def make_grid(case):
    from pyunicorn.core import GeoGrid
    lat = np.array(case["lat"], dtype=np.float64)
    lon = np.array(case["lon"], dtype=np.float64)
    return GeoGrid(np.arange(3, dtype=np.float64), lat, lon, silence_level=3)


def sim_matrix(case):
    n = case["n"]
    return np.array(case["num"], dtype=np.float64).reshape(n, n) / case["den"]


def build_net(grid, S, directed, non_local, threshold=None, link_density=None):
    from pyunicorn.climate import ClimateNetwork
    n = len(S)
    import zlib
    if n >= 2 and zlib.crc32(np.ascontiguousarray(
            S, dtype=np.float64).tobytes()) % 4 == 0:
        # a quarter of the matrices: the same similarity matrix over two
        # layers (CoupledClimateNetwork thresholds the whole matrix alike)
        from pyunicorn.climate import CoupledClimateNetwork
        from pyunicorn.core import GeoGrid
        lat = np.array(grid.lat_sequence(), dtype=np.float64)
        lon = np.array(grid.lon_sequence(), dtype=np.float64)
        k = 1 + zlib.crc32(lat.tobytes()) % (n - 1)
        t = np.arange(3, dtype=np.float64)
        return CoupledClimateNetwork(
            GeoGrid(t, lat[:k], lon[:k], silence_level=3),
            GeoGrid(t, lat[k:], lon[k:], silence_level=3), S,
            threshold=threshold, link_density=link_density,
            non_local=non_local, directed=directed, silence_level=3)
    return ClimateNetwork(grid, S, threshold=threshold,
                          link_density=link_density, non_local=non_local,
                          directed=directed, silence_level=3)


class State:
    """What the oracle knows about one similarity matrix on one grid."""

    def __init__(self, S32, W, directed, symmetric):
        self.S32 = S32
        self.W = W               # float64 weight matrix or None if unknown
        self.directed = directed
        self.symmetric = symmetric
        self.n = len(S32)
        self.M = self.n * (self.n - 1)
        self.history = []        # (thr float, thr exact?, non_local, A)
        self.separating = False
        self.mask = None         # extra documented factor (Hilbert phase)
        self.mask_optional = False


def check_state(rec, net, st_, thr, non_local, tag=""):
    """Consistency of adjacency / n_links / link_density / threshold() /
    non_local() with the model for the reported threshold."""
    n, M = st_.n, st_.M
    ok, A = rec.call("adjacency" + tag, lambda: np.asarray(net.adjacency))
    if not ok:
        return None
    if A.shape != (n, n):
        rec.fail("adjacency_shape" + tag, "shape %s" % (A.shape,))
        return None
    Aref, boundary = model_adjacency(st_.S32, thr,
                                     st_.W if non_local else None)
    masked = st_.mask is not None
    if masked and st_.mask_optional and \
            not ((A != Aref * st_.mask) & ~boundary).any():
        pass                      # direction factor still applied
    elif masked and st_.mask_optional:
        masked = False            # pure rule expected (checked below)
        rec.label("hilbert_directed_setter_drops_phase_direction")
    if masked:
        Aref = Aref * st_.mask
    if boundary.any():
        rec.label("boundary_pairs")
    bad = (A != Aref) & ~boundary
    rule = "adjacency_is_threshold_rule" + ("_nonlocal" if non_local else "")
    if bad.any():
        i, j = np.argwhere(bad)[0]
        w = st_.S32[i, j] * (st_.W[i, j] if non_local else 1.0)
        more = "extra" if A[i, j] else "missing"
        rec.fail(rule + "_" + more + "_link" + tag,
                 "pair (%d,%d): |S|=%r weighted=%r thr=%r lib=%d ref=%d" % (
                     i, j, float(st_.S32[i, j]), float(w), thr, A[i, j],
                     Aref[i, j]))
    rec.check(not A.diagonal().any(), "no_self_loops" + tag)
    rec.check(set(np.unique(A).tolist()) <= {0, 1}, "adjacency_binary" + tag)
    L = int(A.sum())
    sym_A = bool((A == A.T).all())
    if st_.symmetric and not masked:
        rec.check(sym_A, "symmetric_similarity_gives_symmetric_adjacency"
                  + tag)
    rec.check(bool(net.directed) == bool(st_.directed),
              "directed_flag_kept" + tag,
              "net.directed=%r" % (net.directed,))
    if st_.directed or sym_A:
        exp_links = L if st_.directed else L // 2
        rec.check(int(net.n_links) == exp_links, "n_links_consistent" + tag,
                  "n_links=%r adjacency has %d ordered pairs" % (
                      net.n_links, L))
        ok, g = rec.call("graph" + tag, lambda: (net.graph.ecount(),
                                                 net.graph.is_directed()))
        if ok:
            rec.check(g[0] == exp_links and g[1] == bool(st_.directed),
                      "graph_edge_count_consistent" + tag,
                      "igraph ecount=%r directed=%r, expected %d" % (
                          g[0], g[1], exp_links))
    else:
        rec.label("undirected_with_asymmetric_adjacency")
    rec.close(float(net.link_density), L / float(M),
              "link_density_consistent" + tag, rtol=1e-12)
    rec.check(bool(net.non_local()) == bool(non_local),
              "non_local_reported" + tag)
    ok, t = rec.call("threshold()" + tag, net.threshold)
    if ok:
        rec.check(float(t) == float(thr), "threshold_reported" + tag,
                  "threshold()=%r expected %r" % (t, thr))
    rec.check(int(net.N) == n, "node_count" + tag)
    # monotonicity against every earlier state with the same damping
    t_now = float(thr)
    ex_now = f32_exact(t_now)
    for (t_old, ex_old, nl_old, A_old, masked_old) in st_.history:
        if nl_old != non_local or masked_old != masked:
            continue
        lo, hi = (t_old, t_now) if t_old <= t_now else (t_now, t_old)
        if not (ex_now and ex_old):
            if hi - lo <= 4.0 * float(np.spacing(np.float32(abs(hi)))):
                continue
        A_lo, A_hi = (A_old, A) if t_old <= t_now else (A, A_old)
        if (A_hi > A_lo).any():
            i, j = np.argwhere(A_hi > A_lo)[0]
            rec.fail("raising_threshold_only_removes_links" + tag,
                     "thr %r -> %r adds link (%d,%d)" % (lo, hi, i, j))
            break
    st_.history.append((t_now, ex_now, non_local, A, masked))
    if 0 < L < M:
        st_.separating = True
    return A


def check_density(rec, net, st_, rho, non_local, A, tag=""):
    """Clauses about a requested link density; returns the reported
    threshold."""
    ok, thr = rec.call("threshold()_after_density" + tag, net.threshold)
    if not ok or A is None:
        return None
    M = st_.M
    L = int(A.sum())
    S32 = st_.S32
    t = float(thr)
    # how many diagonal entries do not exceed the selected value (the
    # documented quantile assumes none: "entries on the main diagonal ...
    # will not be included anyways")
    c = int((S32.diagonal().astype(np.float64) <= t).sum())
    # ... and is the selected value the one the code documents literally,
    # i.e. position int((1-rho)*(N*N-N)) among ALL N*N sorted entries?
    flat = np.sort(S32.astype(np.float64).ravel())
    literal = float(flat[min(int((1 - rho) * M), len(flat) - 1)])
    diag_case = c > 0 and t == literal
    sfx = "__diagonal_entry_at_or_below_selected_value" if diag_case else ""
    if diag_case:
        rec.label("density:diag_le_selected")
    else:
        rec.label("density:diag_above_selected")
    want = Fraction(float(rho)) * M
    # 1e-9 of a pair: a request like float(1/42) lies 1e-18 below 1/42 and
    # int((1-rho)*M) may floor either way there - not this property's bit
    rec.check(Fraction(L) <= want + Fraction(1, 10 ** 9),
              "density_not_exceeded" + sfx + tag,
              "requested rho=%r (%.6f of %d ordered pairs) realised %d "
              "pairs = %.6f, selected threshold %r" % (
                  rho, float(want), M, L, L / float(M), t))
    v, cands = quantile_candidates(S32, rho)
    okq = False
    for cnd in cands:
        if cnd is None:
            okq = okq or t >= float(v[-1])
        else:
            okq = okq or t == cnd
    rec.check(okq, "density_threshold_is_offdiagonal_quantile" + sfx + tag,
              "rho=%r selected %r, documented quantile of the off-diagonal "
              "values %r" % (rho, t, cands))
    if not non_local and st_.mask is None:
        ties = int((offdiag_sorted(S32) == t).sum())
        rec.check(Fraction(L) >= want - (ties + 1),
                  "density_shortfall_within_ties" + tag,
                  "requested %.6f of %d pairs, realised %d, %d pairs tied "
                  "at the selected value %r" % (float(want), M, L, ties, t))
        if ties > 1:
            rec.label("density:ties_at_selected")
    return thr


def prepare(rec, case):
    """-> (grid, S, State) or None."""
    # memory order / strides / float32 of the caller's matrix vary with it
    S = represent(sim_matrix(case))
    ok, grid = rec.call("grid", make_grid, case)
    if not ok:
        return None
    ok, d = rec.call("angular_distance", grid.angular_distance)
    if not ok:
        return None
    W = weights64(d)
    sym = bool((S == S.T).all())
    st_ = State(abs32(S), W, bool(case["directed"]), sym)
    rec.label("symmetric" if sym else "asymmetric")
    rec.label("directed" if case["directed"] else "undirected")
    rec.label("diag:" + case.get("diag", "?"))
    rec.label("kind:" + case.get("kind", "?"))
    if (S < 0).any():
        rec.label("has_negative")
    off = offdiag_sorted(st_.S32)
    if len(np.unique(off)) < len(off):
        rec.label("has_ties")
    n = st_.n
    offm = ~np.eye(n, dtype=bool)
    part = (W[offm] > 0.02) & (W[offm] < 0.98)
    if part.any():
        rec.label("grid:partially_damped_pairs")
    return grid, S, st_


# -------------------------------------------------------------------- oracles

def oracle_matrix(case, rec):
    prep = prepare(rec, case)
    if prep is None:
        return
    grid, S, st_ = prep
    nl = bool(case["non_local"])
    rec.label("non_local" if nl else "local_allowed")
    for k, spec in enumerate(case["thresholds"]):
        thr = thr_value(spec)
        rec.label("thr_type:" + spec["t"])
        ok, net = rec.call("construct_threshold", build_net, grid, S,
                           st_.directed, nl, threshold=thr)
        if not ok:
            continue
        rec.check(np.array_equal(net.similarity_measure(), st_.S32),
                  "similarity_is_abs_float32")
        check_state(rec, net, st_, thr, nl)
    interior = False
    for rho in case["densities"]:
        ok, net = rec.call("construct_density", build_net, grid, S,
                           st_.directed, nl, link_density=rho)
        if not ok:
            continue
        ok, thr = rec.call("threshold()", net.threshold)
        if not ok:
            continue
        A = check_state(rec, net, st_, thr, nl, tag="@density")
        check_density(rec, net, st_, rho, nl, A)
        # threshold_from_link_density is a pure query of the same quantile
        ok, t2 = rec.call("threshold_from_link_density",
                          net.threshold_from_link_density, rho)
        if ok:
            rec.check(float(t2) == float(thr),
                      "threshold_from_link_density_matches_set_link_density")
        if 0 < rho < 1:
            interior = True
    if st_.separating or interior:
        rec.nontrivial(True)


def apply_op(rec, net, st_, op, thr, nl, tag=""):
    """Interpret one setter; returns (ok, thr, nl, A)."""
    kind = op[0]
    if kind == "thr":
        new = thr_value(op[1])
        ok, _ = rec.call("set_threshold" + tag, net.set_threshold, new)
        if not ok:
            return False, thr, nl, None
        A = check_state(rec, net, st_, new, nl, tag)
        return True, new, nl, A
    if kind == "rho":
        rho = op[1]
        ok, _ = rec.call("set_link_density" + tag, net.set_link_density, rho)
        if not ok:
            return False, thr, nl, None
        ok, new = rec.call("threshold()" + tag, net.threshold)
        if not ok:
            return False, thr, nl, None
        A = check_state(rec, net, st_, new, nl, tag)
        check_density(rec, net, st_, rho, nl, A, tag)
        return True, new, nl, A
    if kind == "nl":
        b = bool(op[1])
        ok, _ = rec.call("set_non_local" + tag, net.set_non_local, b)
        if not ok:
            return False, thr, nl, None
        ok, t = rec.call("threshold()" + tag, net.threshold)
        if ok:
            rec.check(float(t) == float(thr),
                      "set_non_local_keeps_threshold" + tag,
                      "before %r after %r" % (thr, t))
        A = check_state(rec, net, st_, thr, b, tag)
        return True, thr, b, A
    raise ValueError(kind)


def oracle_history(case, rec):
    prep = prepare(rec, case)
    if prep is None:
        return
    grid, S, st_ = prep
    nl = bool(case["non_local"])
    init = case["init"]
    interior = False
    if init[0] == "thr":
        thr = thr_value(init[1])
        ok, net = rec.call("construct_threshold", build_net, grid, S,
                           st_.directed, nl, threshold=thr)
        if not ok:
            return
        check_state(rec, net, st_, thr, nl)
    else:
        ok, net = rec.call("construct_density", build_net, grid, S,
                           st_.directed, nl, link_density=init[1])
        if not ok:
            return
        ok, thr = rec.call("threshold()", net.threshold)
        if not ok:
            return
        A = check_state(rec, net, st_, thr, nl)
        check_density(rec, net, st_, init[1], nl, A)
        interior = 0 < init[1] < 1
    rec.label("ops:%d" % len(case["ops"]))
    for op in case["ops"]:
        rec.label("op:" + op[0])
        ok, thr, nl, A = apply_op(rec, net, st_, op, thr, nl, "@history")
        if not ok:
            return
        if op[0] == "rho" and 0 < op[1] < 1:
            interior = True
        # a freshly built network with the reported threshold and damping
        ok, twin = rec.call("construct_twin", build_net, grid, S,
                            st_.directed, nl, threshold=thr)
        if ok and A is not None:
            At = np.asarray(twin.adjacency)
            rec.check(np.array_equal(At, A), "history_equals_fresh_twin",
                      "after %r: %d entries differ" % (op, (At != A).sum()))
            rec.check(int(twin.n_links) == int(net.n_links) and
                      float(twin.link_density) == float(net.link_density),
                      "history_counts_equal_fresh_twin",
                      "n_links %r vs %r" % (net.n_links, twin.n_links))
    if st_.separating or interior:
        rec.nontrivial(True)


# ----------------------------------------------------- data-derived subclasses

DERIVED = ["tsonis", "spearman", "partial", "mutual_info", "havlin",
           "hilbert", "coupled_tsonis", "event_series", "rainfall"]


def _climate_data(case, key="data", nkey="n"):
    from pyunicorn.climate import ClimateData
    from pyunicorn.core import GeoGrid
    n, T = case[nkey], case["T"]
    obs = np.array(case[key], dtype=np.float64).reshape(T, n) / 8.0
    off = 0 if nkey == "n" else case["n"]
    lat = np.array(case["lat"][off:off + n], dtype=np.float64)
    lon = np.array(case["lon"][off:off + n], dtype=np.float64)
    grid = GeoGrid(np.arange(T, dtype=np.float64), lat, lon, silence_level=3)
    return ClimateData(obs, grid, time_cycle=case["time_cycle"],
                       silence_level=3)


def build_derived(case, threshold=None, link_density=None):
    import pyunicorn.climate as pc
    cls = case["cls"]
    nl = bool(case["non_local"])
    kw = dict(threshold=threshold, link_density=link_density, non_local=nl,
              silence_level=3)
    if cls == "event_series":
        from pyunicorn.climate.eventseries_climatenetwork import \
            EventSeriesClimateNetwork
        data = _climate_data(case)
        return EventSeriesClimateNetwork(
            data, method=case["method"], taumax=case["taumax"],
            symmetrization=case["symmetrization"], non_local=nl,
            silence_level=3)
    if cls == "coupled_tsonis":
        d1 = _climate_data(case)
        d2 = _climate_data(case, "data2", "n2")
        return pc.CoupledTsonisClimateNetwork(d1, d2, **kw)
    data = _climate_data(case)
    if cls == "tsonis":
        return pc.TsonisClimateNetwork(data, winter_only=case["winter"], **kw)
    if cls == "spearman":
        return pc.SpearmanClimateNetwork(data, winter_only=case["winter"],
                                         **kw)
    if cls == "partial":
        return pc.PartialCorrelationClimateNetwork(
            data, winter_only=case["winter"], **kw)
    if cls == "mutual_info":
        return pc.MutualInfoClimateNetwork(data, winter_only=case["winter"],
                                           **kw)
    if cls == "havlin":
        return pc.HavlinClimateNetwork(data, max_delay=case["max_delay"],
                                       **kw)
    if cls == "hilbert":
        return pc.HilbertClimateNetwork(data, directed=case["directed"], **kw)
    if cls == "rainfall":
        return pc.RainfallClimateNetwork(data, event_threshold=(0, 1), **kw)
    raise ValueError(cls)


def _derived_state(rec, net, directed):
    """Read the similarity back from the object; None if out of domain."""
    ok, S = rec.call("similarity_measure", lambda: np.array(
        net.similarity_measure()))
    if not ok:
        return None
    n = int(net.N)
    if S.shape != (n, n):
        rec.fail("similarity_shape", "shape %s, N=%d" % (S.shape, n))
        return None
    if not np.isfinite(S).all():
        rec.label("nonfinite_similarity_skipped")
        return None
    rec.check(S.dtype == np.float32 and (S >= 0).all(),
              "similarity_is_abs_float32",
              "dtype=%s min=%r" % (S.dtype, S.min()))
    ok, d = rec.call("angular_distance", net.grid.angular_distance)
    if not ok:
        return None
    S32 = abs32(S)
    return State(S32, weights64(d), directed, bool((S32 == S32.T).all()))


def _anomaly_degenerate(case, key, n):
    """Plain-numpy phase anomaly; True if some series (or its winter part)
    is constant, which makes correlations / normalisations undefined."""
    T, tc = case["T"], case["time_cycle"]
    obs = np.array(case[key], dtype=np.float64).reshape(T, n)
    an = np.zeros_like(obs)
    for i in range(tc):
        an[i::tc] = obs[i::tc] - obs[i::tc].mean(axis=0)
    if (an.std(axis=0) == 0).any():
        return True
    if tc == 12:
        idx = [t for t in range(T) if t % 12 in (0, 1, 11)]
        if (an[idx].std(axis=0) == 0).any():
            return True
    return False


def oracle_derived(case, rec):
    cls = case["cls"]
    rec.label("cls:" + cls)
    # domain: the similarity estimators need non-constant anomalies; an event
    # matrix must contain both 0 and 1 (documented IOError otherwise)
    if cls == "event_series":
        ev = np.array(case["data"]).reshape(case["T"], case["n"])
        # ... and every series needs an event (ES/ECA of an empty event
        # series is C16's business, not the thresholding's)
        if len(set(case["data"])) != 2 or (ev.sum(axis=0) == 0).any():
            rec.label("degenerate_data_skipped")
            return
    elif _anomaly_degenerate(case, "data", case["n"]) or (
            cls == "coupled_tsonis" and
            _anomaly_degenerate(case, "data2", case["n2"])):
        rec.label("degenerate_data_skipped")
        return
    nl = bool(case["non_local"])
    init = case["init"]
    directed = {"hilbert": bool(case.get("directed")),
                "event_series": case.get("symmetrization") == "directed"
                }.get(cls, False)
    if cls == "event_series":
        init = ["thr", {"v": 0, "t": "int"}]    # fixed by the class
    if init[0] == "thr":
        thr = thr_value(init[1])
        ok, net = rec.call("construct_threshold_" + cls, build_derived, case,
                           threshold=thr)
    else:
        ok, net = rec.call("construct_density_" + cls, build_derived, case,
                           link_density=init[1])
    if not ok:
        return
    st_ = _derived_state(rec, net, directed)
    if st_ is None:
        return
    rec.label("symmetric" if st_.symmetric else "asymmetric")
    hil_dir = cls == "hilbert" and directed

    def phase_mask():
        ok_, ph = rec.call("phase_shift", net.phase_shift)
        return (np.asarray(ph) > 0).astype(np.int8) if ok_ else None

    if hil_dir:
        # documented: "the phase is only used for directed Hilbert networks":
        # adjacency = threshold rule * (phase_shift > 0)
        st_.mask = phase_mask()
        if st_.mask is None:
            return
    interior = False
    if init[0] == "thr":
        A = check_state(rec, net, st_, thr, nl, "@" + cls)
    else:
        ok, thr = rec.call("threshold()", net.threshold)
        if not ok:
            return
        A = check_state(rec, net, st_, thr, nl, "@" + cls)
        check_density(rec, net, st_, init[1], nl, A, "@" + cls)
        interior = 0 < init[1] < 1
    if cls == "coupled_tsonis":
        _check_coupled(rec, net, A, case)
    for op in case["ops"]:
        rec.label("op:" + op[0])
        if op[0] in ("thr", "rho", "nl"):
            if hil_dir:
                # The inherited setters re-threshold without the phase
                # factor (a no-op set_non_local keeps it).  Whether the
                # direction information must survive a setter is not stated
                # by the property: accept the masked or the pure rule, count
                # the latter in the evidence.
                rec.label("hilbert_directed_setter")
                st_.mask_optional = True
            ok, thr, nl, A = apply_op(rec, net, st_, op, thr, nl, "@" + cls)
            if not ok:
                return
            if op[0] == "rho" and 0 < op[1] < 1:
                interior = True
        else:
            # class-specific regeneration: similarity changes, threshold and
            # damping are kept (``_regenerate_network`` passes the threshold)
            if op[0] == "winter" and cls in ("tsonis", "spearman", "partial",
                                             "mutual_info"):
                if cls == "mutual_info":
                    ok, _ = rec.call("set_winter_only@" + cls,
                                     net.set_winter_only, bool(op[1]),
                                     dump=False)
                else:
                    ok, _ = rec.call("set_winter_only@" + cls,
                                     net.set_winter_only, bool(op[1]))
            elif op[0] == "delay" and cls == "havlin":
                ok, _ = rec.call("set_max_delay@" + cls, net.set_max_delay,
                                 int(op[1]))
            elif op[0] == "dir" and cls == "hilbert":
                ok, _ = rec.call("set_directed@" + cls, net.set_directed,
                                 bool(op[1]))
                directed = bool(op[1])
                hil_dir = directed
            else:
                continue
            if not ok:
                return
            st2 = _derived_state(rec, net, directed)
            if st2 is None:
                return
            st2.separating = st_.separating
            st_ = st2
            if hil_dir:
                st_.mask = phase_mask()
                if st_.mask is None:
                    return
            A = check_state(rec, net, st_, thr, nl, "@" + cls + "_regenerated")
        if cls == "coupled_tsonis":
            _check_coupled(rec, net, A, case)
    if st_.separating or interior:
        rec.nontrivial(True)


def _check_coupled(rec, net, A, case):
    if A is None:
        return
    n1 = case["n"]
    ok, blocks = rec.call("coupled_blocks", lambda: (
        np.asarray(net.adjacency_1()), np.asarray(net.adjacency_2()),
        np.asarray(net.cross_layer_adjacency())))
    if not ok:
        return
    rec.check(np.array_equal(blocks[0], A[:n1, :n1]) and
              np.array_equal(blocks[1], A[n1:, n1:]) and
              np.array_equal(blocks[2], A[:n1, n1:]),
              "coupled_layer_blocks_follow_adjacency")


# ----------------------------------------------------------------- generators

KINDS = {"grid8": (8, -8, 8), "dyadic": (1 << 16, -(1 << 16), 1 << 16),
         "decimal": (20, -20, 20), "nonneg": (8, 0, 24)}


@st.composite
def coords(draw, n):
    lat0 = draw(st.integers(-80, 80))
    lon0 = draw(st.integers(-170, 350))
    lat, lon = [], []
    for _ in range(n):
        if draw(st.integers(0, 2)) > 0:      # cluster member: <= 4 degrees
            la = lat0 + draw(st.integers(-8, 8)) / 2.0
            lo = lon0 + draw(st.integers(-8, 8)) / 2.0
        else:
            la = float(draw(st.integers(-90, 90)))
            lo = float(draw(st.integers(-180, 360)))
        lat.append(max(-90.0, min(90.0, la)))
        lon.append(lo)
    return lat, lon


@st.composite
def matrices(draw, max_n=9):
    n = draw(st.integers(2, max_n))
    kind = draw(st.sampled_from(["grid8", "grid8", "dyadic", "decimal",
                                 "nonneg"]))
    den, lo, hi = KINDS[kind]
    num = np.array(draw(st.lists(st.integers(lo, hi), min_size=n * n,
                                 max_size=n * n))).reshape(n, n)
    sym = draw(st.integers(0, 2)) > 0
    if sym:
        num = np.triu(num) + np.triu(num, 1).T
    directed = True if not sym else draw(st.booleans())
    diag = draw(st.sampled_from(["dominant", "dominant", "zero", "free"]))
    if diag == "dominant":           # e.g. correlation: 1 on the diagonal
        np.fill_diagonal(num, int(np.abs(num).max()))
    elif diag == "zero":             # e.g. mutual information as stored
        np.fill_diagonal(num, 0)
    lat, lon = draw(coords(n))
    return {"n": n, "num": [int(v) for v in num.ravel()], "den": den,
            "kind": kind, "diag": diag, "directed": directed,
            "lat": lat, "lon": lon,
            "non_local": draw(st.integers(0, 2)) == 0}


def _abs_values(base):
    n = base["n"]
    return np.abs(np.array(base["num"], dtype=np.float64).reshape(n, n)
                  / base["den"])


@st.composite
def thresholds(draw, base):
    a = _abs_values(base)
    n = base["n"]
    how = draw(st.sampled_from(["value", "value", "value32", "mid", "special",
                                "free"]))
    i, j = draw(st.integers(0, n - 1)), draw(st.integers(0, n - 1))
    k, m = draw(st.integers(0, n - 1)), draw(st.integers(0, n - 1))
    if how == "value":               # as the user would type it
        v = float(a[i, j])
    elif how == "value32":           # exactly the stored float32 value
        v = float(np.float32(a[i, j]))
    elif how == "mid":
        v = float(np.float32((a[i, j] + a[k, m]) / 2.0))
    elif how == "special":
        v = draw(st.sampled_from([0.0, -0.25, 1.0, 0.5,
                                  float(a.max()) + 0.5]))
    else:
        v = draw(st.integers(-4, 48)) / 16.0
    if f32_exact(v):
        t = draw(st.sampled_from(["py", "py", "f32", "f64"]))
        if v == int(v) and draw(st.integers(0, 3)) == 0:
            t = "int"
    else:
        t = draw(st.sampled_from(["py", "py", "f64"]))
    return {"v": v, "t": t}


@st.composite
def densities(draw, base):
    n = base["n"]
    M = n * (n - 1)
    how = draw(st.sampled_from(["end", "ratio", "ratio", "ratio_eps",
                                "decimal", "float"]))
    if how == "end":
        return float(draw(st.sampled_from([0, 1])))
    if how == "ratio":
        return draw(st.integers(0, M)) / float(M)
    if how == "ratio_eps":
        r = draw(st.integers(0, M)) / float(M) + \
            draw(st.sampled_from([-1e-12, 1e-12, -1e-16, 1e-16]))
        return min(1.0, max(0.0, r))
    if how == "decimal":
        return draw(st.integers(0, 20)) / 20.0
    return draw(st.floats(0.0, 1.0, allow_nan=False))


@st.composite
def matrix_cases(draw):
    base = draw(matrices())
    base["thresholds"] = draw(st.lists(thresholds(base), min_size=1,
                                       max_size=4))
    base["densities"] = draw(st.lists(densities(base), min_size=1,
                                      max_size=3))
    return base


@st.composite
def ops(draw, base, extra=()):
    kind = draw(st.sampled_from(["thr", "thr", "rho", "rho", "nl"]
                                + list(extra)))
    if kind == "thr":
        return ["thr", draw(thresholds(base))]
    if kind == "rho":
        return ["rho", draw(densities(base))]
    if kind == "nl":
        return ["nl", draw(st.booleans())]
    if kind == "winter":
        return ["winter", draw(st.booleans())]
    if kind == "delay":
        return ["delay", draw(st.integers(0, 3))]
    return ["dir", draw(st.booleans())]


@st.composite
def history_cases(draw):
    base = draw(matrices(max_n=8))
    if draw(st.booleans()):
        base["init"] = ["thr", draw(thresholds(base))]
    else:
        base["init"] = ["rho", draw(densities(base))]
    base["ops"] = draw(st.lists(ops(base), min_size=1, max_size=8))
    return base


@st.composite
def derived_cases(draw):
    cls = draw(st.sampled_from(DERIVED))
    n = draw(st.integers(2, 6))
    case = {"cls": cls, "n": n, "non_local": draw(st.integers(0, 2)) == 0}
    monthly = cls in ("tsonis", "spearman", "partial", "mutual_info") and \
        draw(st.booleans())
    if monthly:
        case["time_cycle"] = 12
        T = 12 * draw(st.integers(2, 4))
    else:
        case["time_cycle"] = draw(st.sampled_from([1, 2, 4]))
        T = case["time_cycle"] * draw(st.integers(6, 12))
    if cls == "mutual_info":
        T = max(T, 36)
        if T % case["time_cycle"]:
            T += case["time_cycle"] - T % case["time_cycle"]
    case["T"] = T
    case["winter"] = monthly and draw(st.booleans())
    ntot = n
    if cls == "coupled_tsonis":
        case["n2"] = draw(st.integers(1, 4))
        ntot = n + case["n2"]
        case["data2"] = draw(st.lists(st.integers(-40, 40),
                                      min_size=T * case["n2"],
                                      max_size=T * case["n2"]))
    if cls == "event_series":
        case["data"] = [v * 8 for v in draw(st.lists(
            st.sampled_from([0, 0, 1]), min_size=T * n, max_size=T * n))]
        case["method"] = draw(st.sampled_from(["ES", "ECA"]))
        case["taumax"] = float(draw(st.integers(1, 4)))
        case["symmetrization"] = draw(st.sampled_from(
            ["directed", "mean", "max", "min"]))
    else:
        case["data"] = draw(st.lists(st.integers(-40, 40), min_size=T * n,
                                     max_size=T * n))
    lat, lon = draw(coords(ntot))
    case["lat"], case["lon"] = lat, lon
    if cls == "havlin":
        case["max_delay"] = draw(st.integers(0, 3))
    if cls == "hilbert":
        case["directed"] = draw(st.booleans())
    # thresholds for correlation-like similarities live in [0, 1]; MI and
    # Havlin strengths are larger: draw from k/16 up to 3
    pseudo = {"n": ntot, "num": [0] * (ntot * ntot), "den": 8}

    def thr_spec():
        v = draw(st.integers(-2, 48 if cls in ("mutual_info", "havlin")
                             else 18)) / 16.0
        return {"v": v, "t": draw(st.sampled_from(["py", "py", "f32",
                                                   "f64"]))}
    if draw(st.booleans()):
        case["init"] = ["thr", thr_spec()]
    else:
        case["init"] = ["rho", draw(densities(pseudo))]
    extra = {"tsonis": ["winter"], "spearman": ["winter"],
             "partial": ["winter"], "mutual_info": ["winter"],
             "havlin": ["delay"], "hilbert": ["dir"]}.get(cls, [])
    if extra == ["winter"] and not monthly:
        extra = []
    lst = []
    for _ in range(draw(st.integers(0, 4))):
        op = draw(ops(pseudo, extra))
        if op[0] == "thr":
            op = ["thr", thr_spec()]
        lst.append(op)
    if cls == "hilbert" and draw(st.integers(0, 2)) > 0:
        # the direction is toggled after construction in two thirds of the
        # Hilbert histories (and possibly back by a later drawn op)
        lst.insert(draw(st.integers(0, len(lst))),
                   ["dir", not case.get("directed")])
    case["ops"] = lst
    return case


SUBCHECKS = [
    SubCheck("matrix", oracle_matrix, gen=matrix_cases,
             quick=(6, 900), thorough=(16, 6000)),
    SubCheck("history", oracle_history, gen=history_cases,
             quick=(6, 250), thorough=(16, 2500)),
    SubCheck("derived", oracle_derived, gen=derived_cases,
             quick=(4, 120), thorough=(16, 1000)),
]
