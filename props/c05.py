"""C05 - all representations of a network agree, and survive save/Load.

The generated inputs (graph, node weights, one or two link attributes) are
the model.  Every construction path must yield the same network: N, n_links,
link_density, adjacency (binary, zero diagonal, symmetric when undirected),
sp_A, embedded igraph graph, node weights with total and mean, and every
link-attribute matrix.
"""
import os

import numpy as np
from hypothesis import strategies as st

from vp.pbt import SubCheck
from vp.gen import graphs as G

PROPERTY = "C05"
RULE = ("cases = (graph incl. edgeless / single link / isolated nodes / "
        "directed, node weights, up to two link-attribute matrices, "
        "coordinates for the spatial classes); each case is pushed through "
        "every construction path (dense list / ndarray of several dtypes, "
        "scipy.sparse csc/csr/coo/lil, edge list, igraph object, copy, "
        "undirected_copy, save->Load in graphml / graphmlz / pickle / gml, "
        "SpatialNetwork / GeoNetwork with grid files). Exhaustive part = "
        "all graphs on 2..4 nodes (undirected) / 2..3 nodes (directed). "
        "Non-trivial = the graph has >= 1 link or is edgeless by intent "
        "(degenerate sizes 0 and 1 are named by the property); distinct = "
        "hash of the whole case.")
ASSUMPTIONS = [
    "networks have >= 2 nodes (link_density = n_links/N/(N-1) is undefined "
    "for one node)",
    "edge lists hold each undirected edge once, as documented",
    "text formats (graphml, graphmlz, gml) are compared with 1e-12 relative "
    "tolerance on float attributes, pickle exactly",
    "node weights / link attributes are dyadic rationals (exact in text)",
]

TEXT_TOL = 1e-12


def model(case):
    g = case["g"]
    n = g["n"]
    A = G.adj(g).astype(int)
    w = np.array(case["w"], dtype=float) if case.get("w") is not None \
        else np.ones(n)
    attrs = {}
    if g["edges"]:
        for name in ("la", "lb"):
            if case.get(name) is not None:
                attrs[name] = np.array(case[name], dtype=float) * (A != 0)
    return g, n, A, w, attrs


def edge_set(graph, directed):
    es = graph.get_edgelist()
    if directed:
        return sorted((int(a), int(b)) for a, b in es)
    return sorted(tuple(sorted((int(a), int(b)))) for a, b in es)


def check_net(rec, net, path, g, n, A, w, attrs, tol=0.0, weights=True):
    """All observables of `net` against the model; clause names carry the
    construction path."""
    directed = g["directed"]
    E = len(g["edges"])
    rec.check(net.N == n, "%s_N" % path, "N=%s model=%s" % (net.N, n))
    rec.check(net.n_links == E, "%s_n_links" % path,
              "n_links=%s model=%s" % (net.n_links, E))
    dens = (E if directed else 2 * E) / float(n * (n - 1))
    rec.close(net.link_density, dens, "%s_link_density" % path, rtol=1e-12)
    rec.check(bool(net.directed) == directed, "%s_directed" % path)
    ok, adj = rec.call("%s_adjacency_raises" % path, lambda: net.adjacency)
    if ok:
        rec.equal(np.asarray(adj), A, "%s_adjacency" % path)
    rec.equal(np.asarray(net.sp_A.toarray()), A, "%s_sp_A" % path)
    ok, gr = rec.call("%s_graph_raises" % path, lambda: net.graph)
    if ok:
        exp = sorted((i, j) for i, j in map(tuple, g["edges"]))
        rec.check(gr.vcount() == n and bool(gr.is_directed()) == directed
                  and edge_set(gr, directed) == exp,
                  "%s_embedded_graph" % path,
                  "edges=%s model=%s" % (edge_set(gr, directed)[:6], exp[:6]))
    if weights:
        nw = net.node_weights
        ok = nw is not None and rec.close(np.asarray(nw, dtype=float), w,
                                          "%s_node_weights" % path,
                                          rtol=tol)
        if nw is None:
            rec.fail("%s_node_weights" % path, "node_weights is None")
        rec.close(net.total_node_weight, w.sum(),
                  "%s_total_node_weight" % path, rtol=max(tol, 1e-12))
        rec.close(net.mean_node_weight, w.mean(),
                  "%s_mean_node_weight" % path, rtol=max(tol, 1e-12))
    for name, Wm in attrs.items():
        ok, la = rec.call("%s_link_attribute_raises" % path,
                          net.link_attribute, name)
        if ok:
            rec.close(la, Wm, "%s_link_attribute" % path, rtol=tol)


def _roundtrips(rec, net, tag, g, n, A, w, attrs, formats):
    from pyunicorn.core import Network
    for fmt in formats:
        fn = "rt_%s_%s.%s" % (os.getpid(), tag, fmt)

        def rt(fmt=fmt, fn=fn):
            net.save(fn, fileformat=fmt)
            try:
                return Network.Load(fn, fileformat=fmt, silence_level=3)
            finally:
                if os.path.exists(fn):
                    os.remove(fn)
        ok, net2 = rec.call("%s_save_load_%s_raises" % (tag, fmt), rt)
        if ok:
            check_net(rec, net2, "%s_save_load_%s" % (tag, fmt), g, n, A, w,
                      attrs, tol=0.0 if fmt == "pickle" else TEXT_TOL)


def _with_stored_zeros(A, fmt):
    """The same 0/1 matrix, but with explicitly stored zeros on the diagonal
    and on every third non-link position."""
    import scipy.sparse as sp
    n = len(A)
    rows, cols, data = [], [], []
    k = 0
    for i in range(n):
        for j in range(n):
            if A[i, j]:
                rows.append(i); cols.append(j); data.append(1)
            else:
                k += 1
                if i == j or k % 3 == 0:
                    rows.append(i); cols.append(j); data.append(0)
    M = sp.coo_matrix((np.array(data, dtype=np.int8),
                       (np.array(rows, dtype=int), np.array(cols, dtype=int))),
                      shape=(n, n))
    if fmt == "coo":
        return M
    M = M.tocsr() if fmt == "csr" else M.tocsc()
    # tocsr()/tocsc() keep explicit zeros; make sure they are really stored
    assert M.nnz >= int(A.sum())
    return M


def _set_attrs(net, attrs):
    for name, Wm in attrs.items():
        net.set_link_attribute(name, Wm)
    return net


def oracle(case, rec):
    import igraph
    import scipy.sparse as sp
    from pyunicorn.core import Network
    g, n, A, w, attrs = model(case)
    directed = g["directed"]
    E = len(g["edges"])
    rec.label("directed" if directed else "undirected")
    rec.label("links=%s" % (E if E < 2 else ">=2"))
    if (A.sum(axis=0) + A.sum(axis=1) == 0).any():
        rec.label("has_isolated")
    rec.nontrivial(True)
    ww = case.get("w")

    def mk(adj=None, **kw):
        return _set_attrs(Network(adjacency=adj, directed=directed,
                                  node_weights=ww, silence_level=3, **kw),
                          attrs)

    paths = [
        ("dense_list", lambda: mk(A.tolist())),
        ("dense_int8", lambda: mk(A.astype(np.int8))),
        ("dense_int64", lambda: mk(A.astype(np.int64))),
        ("dense_bool", lambda: mk(A.astype(bool))),
        ("dense_float", lambda: mk(A.astype(float))),
        ("sparse_csc", lambda: mk(sp.csc_matrix(A))),
        ("sparse_csr", lambda: mk(sp.csr_matrix(A))),
        ("sparse_coo", lambda: mk(sp.coo_matrix(A))),
        ("sparse_lil", lambda: mk(sp.lil_matrix(A))),
        # sparse matrices may STORE zeros explicitly (after setdiag(0) or
        # S[i, j] = 0): such entries are not links
        ("sparse_csr_stored_zeros", lambda: mk(_with_stored_zeros(A, "csr"))),
        ("sparse_csc_stored_zeros", lambda: mk(_with_stored_zeros(A, "csc"))),
        ("sparse_coo_stored_zeros", lambda: mk(_with_stored_zeros(A, "coo"))),
        ("edge_list", lambda: _set_attrs(
            Network(edge_list=[list(e) for e in g["edges"]], n_nodes=n,
                    directed=directed, node_weights=ww, silence_level=3),
            attrs)),
        ("edge_list_array", lambda: _set_attrs(
            Network(edge_list=np.array(g["edges"], dtype=int).reshape(-1, 2),
                    n_nodes=n, directed=directed, node_weights=ww,
                    silence_level=3), attrs)),
    ]
    if g["edges"] and max(max(e) for e in g["edges"]) == n - 1:
        # documented: nodes are numbered 0..N-1 without gaps, so the list
        # alone fixes the size when the last node has a link
        paths.append(("edge_list_inferred_size", lambda: _set_attrs(
            Network(edge_list=[list(e) for e in g["edges"]],
                    directed=directed, node_weights=ww, silence_level=3),
            attrs)))

    # the caller keeps its buffers and reuses them for something else once
    # the network is built: the network is the one it was built as
    def keeps_buffers():
        bufs = [A.astype(np.int16), sp.csc_matrix(A.astype(np.int16))]
        wbuf = None if w is None else np.array(w, dtype=np.float64)
        abuf = {k: np.array(v, dtype=np.float64) for k, v in attrs.items()}
        nets = []
        for b in bufs:
            net = Network(adjacency=b, directed=directed, node_weights=wbuf,
                          silence_level=3)
            for k, v in abuf.items():
                net.set_link_attribute(k, v)
            nets.append(net)
        nets.append(nets[0].copy())
        bufs[0][...] = 1 - bufs[0]
        bufs[1].data[...] = 0
        if wbuf is not None:
            wbuf *= 2.0
            wbuf += 1.0
        for v in abuf.values():
            v *= -3.0
        return nets
    ok, nets = rec.call("caller_buffers_construct", keeps_buffers)
    if ok:
        for tag, net in zip(("dense", "csc", "copy"), nets):
            check_net(rec, net, "after_caller_reuses_buffers_" + tag, g, n, A,
                      w, attrs)
    if not directed and g["edges"]:
        # an undirected link may be written in either orientation and the
        # list in any order (a ring written head to tail, a list from
        # another tool)
        ek = list(case.get("ekeys") or []) or [0]
        el = [list(e) if (ek[k % len(ek)] + k) % 2 else [e[1], e[0]]
              for k, e in enumerate(g["edges"])]
        el = [el[i] for i in sorted(range(len(el)),
                                    key=lambda i: (ek[i % len(ek)], i))]
        ring = [[e[0], e[1]] if k % 2 == 0 else [e[1], e[0]]
                for k, e in enumerate(g["edges"])]
        paths += [
            ("edge_list_any_orientation", lambda: _set_attrs(
                Network(edge_list=el, n_nodes=n, directed=False,
                        node_weights=ww, silence_level=3), attrs)),
            ("edge_list_alternating_orientation", lambda: _set_attrs(
                Network(edge_list=np.array(ring), n_nodes=n, directed=False,
                        node_weights=ww, silence_level=3), attrs)),
        ]
        # every cycle of the graph written head to tail: first and second
        # column then hold every node equally often
        deg = A.sum(axis=1)
        if (deg == 2).all():
            walk, seen = [], set()
            for start in range(n):
                if start in seen:
                    continue
                prev, cur = None, start
                while cur not in seen:
                    seen.add(cur)
                    nxt = [int(v) for v in np.nonzero(A[cur])[0]
                           if v != prev]
                    nxt = nxt[0] if nxt else prev
                    walk.append([cur, nxt])
                    prev, cur = cur, nxt
            paths.append(("edge_list_cycles_head_to_tail", lambda: _set_attrs(
                Network(edge_list=walk, n_nodes=n, directed=False,
                        node_weights=ww, silence_level=3), attrs)))
    base = None
    for path, fn in paths:
        ok, net = rec.call("%s_construct" % path, fn)
        if ok:
            check_net(rec, net, path, g, n, A, w, attrs)
            if path == "dense_list":
                base = net
    # assigning a new adjacency / edge list to an existing object
    if base is not None:
        # start from a different graph with different (unit) weights
        ok, net = rec.call("reassign_construct", lambda: Network(
            adjacency=np.zeros((n, n), int) if E else 1 - np.eye(n, dtype=int),
            directed=directed, node_weights=[2.0] * n, silence_level=3))
        if ok:
            def reassign():
                net.adjacency = A
                net.node_weights = ww
                return _set_attrs(net, attrs)
            ok, net = rec.call("reassign_adjacency_raises", reassign)
            if ok:
                check_net(rec, net, "reassign_adjacency", g, n, A, w, attrs)
                _roundtrips(rec, net, "reassign_adjacency", g, n, A, w,
                            attrs, ("pickle", "graphml"))

            def reassign_keep_weights():
                # replace the links only: the node weights must survive,
                # also through save -> Load
                net.adjacency = np.zeros((n, n), int)
                net.adjacency = A
                return _set_attrs(net, attrs)
            ok, net = rec.call("relink_keep_weights_raises",
                               reassign_keep_weights)
            if ok:
                check_net(rec, net, "relink_keep_weights", g, n, A, w, attrs)
                _roundtrips(rec, net, "relink_keep_weights", g, n, A, w,
                            attrs, ("pickle", "gml"))

            def reedge():
                net.set_edge_list([list(e) for e in g["edges"]], n)
                net.node_weights = ww
                return _set_attrs(net, attrs)
            ok, net = rec.call("set_edge_list_raises", reedge)
            if ok:
                check_net(rec, net, "set_edge_list", g, n, A, w, attrs)
    # igraph object
    # igraph objects list their edges in ANY order (and undirected edges in
    # either orientation): the generated key list permutes / flips them
    keys = (list(case.get("ekeys") or []) + [0] * E)[:E]
    order = sorted(range(E), key=lambda i: (keys[i] // 2, i))
    el = []
    for i in order:
        a, b = g["edges"][i]
        el.append((b, a) if (not directed and keys[i] % 2) else (a, b))
    if el != [tuple(e) for e in g["edges"]]:
        rec.label("igraph_edges_unsorted")

    def mk_igraph():
        gr = igraph.Graph(n=n, edges=el, directed=directed)
        gr.vs["node_weight_nsi"] = list(w)
        for name, Wm in attrs.items():
            gr.es[name] = [float(Wm[e.tuple]) for e in gr.es]
        return gr

    def from_igraph():
        return Network.FromIGraph(mk_igraph(), silence_level=3)
    ok, net = rec.call("from_igraph_construct", from_igraph)
    if ok:
        check_net(rec, net, "from_igraph", g, n, A, w, attrs)
        ok, cp = rec.call("from_igraph_copy_raises", net.copy)
        if ok:
            check_net(rec, cp, "from_igraph_copy", g, n, A, w, attrs)
            _roundtrips(rec, cp, "from_igraph_copy", g, n, A, w, attrs,
                        ("graphml",))
    # files written by igraph itself (not by Network.save)
    for fmt in ("graphml", "pickle"):
        fn = "ig_%s.%s" % (os.getpid(), fmt)

        def load_foreign(fmt=fmt, fn=fn):
            mk_igraph().write(fn, format=fmt)
            try:
                return Network.Load(fn, fileformat=fmt, silence_level=3)
            finally:
                if os.path.exists(fn):
                    os.remove(fn)
        ok, net = rec.call("load_foreign_%s_raises" % fmt, load_foreign)
        if ok:
            check_net(rec, net, "load_foreign_%s" % fmt, g, n, A, w, attrs,
                      tol=0.0 if fmt == "pickle" else TEXT_TOL)
    if base is None:
        return
    ok, net = rec.call("copy_raises", base.copy)
    if ok:
        check_net(rec, net, "copy", g, n, A, w, attrs)
    if not directed:
        ok, net = rec.call("undirected_copy_raises", base.undirected_copy)
        if ok:
            check_net(rec, net, "undirected_copy", g, n, A, w, {})
    ok, net = rec.call("permuted_copy_identity_raises", base.permuted_copy,
                       list(range(n)))
    if ok:
        check_net(rec, net, "permuted_copy_identity", g, n, A, w, {})
    # save -> Load
    for fmt in ("graphml", "graphmlz", "pickle", "gml"):
        fn = "net_%s.%s" % (os.getpid(), fmt)

        def roundtrip(fmt=fmt, fn=fn):
            base.save(fn, fileformat=fmt)
            try:
                return Network.Load(fn, fileformat=fmt, silence_level=3)
            finally:
                if os.path.exists(fn):
                    os.remove(fn)
        ok, net = rec.call("save_load_%s_raises" % fmt, roundtrip)
        if ok:
            check_net(rec, net, "save_load_%s" % fmt, g, n, A, w, attrs,
                      tol=0.0 if fmt == "pickle" else TEXT_TOL)
    # a file history: save, load, change the node weights, save in another
    # format, load again - the second file holds the second weights
    w2 = w * 2.0 + 1.0
    for f1, f2 in (("gml", "graphml"), ("gml", "pickle"), ("graphml", "gml"),
                   ("pickle", "graphmlz")):
        fa = "chain_%s_a.%s" % (os.getpid(), f1)
        fb = "chain_%s_b.%s" % (os.getpid(), f2)

        def chain(f1=f1, f2=f2, fa=fa, fb=fb):
            try:
                base.save(fa, fileformat=f1)
                mid = Network.Load(fa, fileformat=f1, silence_level=3)
                mid.node_weights = w2.copy()
                mid.save(fb, fileformat=f2)
                return Network.Load(fb, fileformat=f2, silence_level=3)
            finally:
                for f in (fa, fb):
                    if os.path.exists(f):
                        os.remove(f)
        ok, net = rec.call("chain_%s_%s_raises" % (f1, f2), chain)
        if ok:
            check_net(rec, net, "chain_%s_then_%s" % (f1, f2), g, n, A, w2,
                      attrs, tol=TEXT_TOL)
    # the original must be unchanged by all of the above
    check_net(rec, base, "original_after_all_paths", g, n, A, w, attrs)


def oracle_spatial(case, rec):
    from pyunicorn.core import (SpatialNetwork, GeoNetwork, Grid, GeoGrid)
    g, n, A, w, attrs = model(case)
    directed = g["directed"]
    lat = np.array(case["lat"], dtype=float)
    lon = np.array(case["lon"], dtype=float)
    rec.nontrivial(True)
    rec.label("directed" if directed else "undirected")
    pid = os.getpid()

    # --- SpatialNetwork over a plain Grid
    def mk_spatial():
        grid = Grid(np.arange(3.0), np.vstack((lat, lon)), silence_level=3)
        net = SpatialNetwork(grid, adjacency=A, directed=directed,
                             silence_level=3)
        net.node_weights = case.get("w")
        return _set_attrs(net, attrs)
    ok, snet = rec.call("spatial_construct", mk_spatial)
    if ok:
        check_net(rec, snet, "spatial", g, n, A, w, attrs)
        for fmt in ("graphml", "pickle", "gml"):
            fnn, fng = "sn_%d.%s" % (pid, fmt), "sg_%d.pkl" % pid

            def rt(fmt=fmt, fnn=fnn, fng=fng):
                snet.save((fnn, fng), fileformat=fmt)
                try:
                    return SpatialNetwork.Load((fnn, fng), fileformat=fmt,
                                               silence_level=3)
                finally:
                    for f in (fnn, fng):
                        if os.path.exists(f):
                            os.remove(f)
            ok2, net2 = rec.call("spatial_save_load_%s_raises" % fmt, rt)
            if ok2:
                check_net(rec, net2, "spatial_save_load_%s" % fmt, g, n, A,
                          w, attrs, tol=0.0 if fmt == "pickle" else TEXT_TOL)
                rec.close(net2.grid.sequence(0), snet.grid.sequence(0),
                          "spatial_save_load_%s_grid" % fmt, rtol=0)
                rec.close(net2.grid.sequence(1), snet.grid.sequence(1),
                          "spatial_save_load_%s_grid" % fmt, rtol=0)
    # --- GeoNetwork with each weight type
    nwt = case["nwt"]
    ggrid = GeoGrid(np.arange(3.0), lat, lon, silence_level=3)
    cos = np.cos(np.float32(lat) * np.float32(np.pi / 180)).astype(float)
    wg = {"surface": cos, "irrigation": cos ** 2, None: np.ones(n)}[nwt]

    def mk_geo():
        return _set_attrs(GeoNetwork(ggrid, adjacency=A, directed=directed,
                                     node_weight_type=nwt, silence_level=3),
                          attrs)
    ok, gnet = rec.call("geo_construct", mk_geo)
    if not ok:
        return
    # geographic weights are float32 cosines: 1e-6 relative
    check_net(rec, gnet, "geo_%s" % nwt, g, n, A, wg, attrs, tol=2e-6)
    el = [list(e) for e in g["edges"]]
    ok, gnet2 = rec.call("geo_edge_list_construct", lambda: GeoNetwork(
        ggrid, edge_list=el if el else np.zeros((0, 2), int),
        directed=directed, node_weight_type=nwt, silence_level=3))
    if ok and el:
        check_net(rec, gnet2, "geo_edge_list", g, n, A, wg, {}, tol=2e-6)
    for fmt in ("graphml", "pickle", "gml"):
        fnn, fng = "gn_%d.%s" % (pid, fmt), "gg_%d.pkl" % pid

        def rt(fmt=fmt, fnn=fnn, fng=fng):
            gnet.save((fnn, fng), fileformat=fmt)
            try:
                return GeoNetwork.Load((fnn, fng), fileformat=fmt,
                                       silence_level=3)
            finally:
                for f in (fnn, fng):
                    if os.path.exists(f):
                        os.remove(f)
        ok2, net2 = rec.call("geo_save_load_%s_raises" % fmt, rt)
        if ok2:
            check_net(rec, net2, "geo_save_load_%s" % fmt, g, n, A, wg,
                      attrs, tol=2e-6)
            rec.close(net2.grid.lat_sequence(), gnet.grid.lat_sequence(),
                      "geo_save_load_%s_grid" % fmt, rtol=0)
            rec.close(net2.grid.lon_sequence(), gnet.grid.lon_sequence(),
                      "geo_save_load_%s_grid" % fmt, rtol=0)
    # ClimateNetwork: the same graph as the thresholded similarity matrix
    from pyunicorn.climate import ClimateNetwork
    S = 0.125 + 0.75 * (A != 0)
    np.fill_diagonal(S, 1.0)

    def mk_clim():
        return _set_attrs(ClimateNetwork(
            ggrid, S.copy(), threshold=0.5, directed=directed,
            node_weight_type=nwt, silence_level=3), attrs)
    ok, cnet = rec.call("climate_construct", mk_clim)
    if not ok:
        return
    check_net(rec, cnet, "climate_%s" % nwt, g, n, A, wg, attrs, tol=2e-6)
    for fmt in ("graphml", "pickle", "gml"):
        fns = ("cn_%d.%s" % (pid, fmt), "cg_%d.pkl" % pid, "cs_%d.npy" % pid)

        def rt(fmt=fmt, fns=fns):
            cnet.save(fns, fileformat=fmt)
            try:
                return ClimateNetwork.Load(fns, fileformat=fmt,
                                           silence_level=3)
            finally:
                for f in fns:
                    if os.path.exists(f):
                        os.remove(f)
        ok2, net2 = rec.call("climate_save_load_%s_raises" % fmt, rt)
        if ok2:
            check_net(rec, net2, "climate_save_load_%s" % fmt, g, n, A, wg,
                      attrs, tol=2e-6)
            rec.close(net2.similarity_measure(), cnet.similarity_measure(),
                      "climate_save_load_%s_similarity" % fmt, rtol=0)
            rec.close(net2.grid.lat_sequence(), cnet.grid.lat_sequence(),
                      "climate_save_load_%s_grid" % fmt, rtol=0)
    wc2 = np.asarray(wg, dtype=float) * 2.0 + 1.0
    for f1, f2 in (("gml", "graphml"), ("gml", "pickle"), ("graphml", "gml")):
        fa = ("cc_%d_a.%s" % (pid, f1), "cc_%d_ga.pkl" % pid,
              "cc_%d_sa.npy" % pid)
        fb = ("cc_%d_b.%s" % (pid, f2), "cc_%d_gb.pkl" % pid,
              "cc_%d_sb.npy" % pid)

        def cchain(f1=f1, f2=f2, fa=fa, fb=fb):
            try:
                cnet.save(fa, fileformat=f1)
                mid = ClimateNetwork.Load(fa, fileformat=f1, silence_level=3)
                mid.node_weights = wc2.copy()
                mid.save(fb, fileformat=f2)
                return ClimateNetwork.Load(fb, fileformat=f2,
                                           silence_level=3)
            finally:
                for f in fa + fb:
                    if os.path.exists(f):
                        os.remove(f)
        ok2, net2 = rec.call("climate_chain_%s_%s_raises" % (f1, f2), cchain)
        if ok2:
            check_net(rec, net2, "climate_chain_%s_then_%s" % (f1, f2), g, n,
                      A, wc2, attrs, tol=2e-6)


# -------------------------------------------------------------- generators

def _w(n, salt):
    return [((3 * i + salt) % 7 + 1) / 4.0 for i in range(n)]


def _attr(n, directed, salt):
    W = np.zeros((n, n))
    for i in range(n):
        for j in range(n):
            if i != j:
                a, b = (i, j) if directed or i < j else (j, i)
                W[i, j] = ((5 * a + 3 * b + salt) % 9 + 1) / 2.0
    return W.tolist()


def enum_small(tier):
    idx = 0
    for g in G.all_small_graphs(4, 3):
        n = g["n"]
        idx += 1
        yield {"g": g, "w": _w(n, idx % 5) if idx % 3 else None,
               "la": _attr(n, g["directed"], idx % 4),
               "lb": _attr(n, g["directed"], 2) if idx % 2 else None,
               "ekeys": [(7 * idx + 5 * k) % 11 for k in range(12)]}


@st.composite
def cases(draw, n_min=2, n_max=12):
    directed = draw(st.booleans())
    g = draw(G.graphs(n_min, n_max, directed))
    n = g["n"]
    return {"g": g, "w": draw(st.one_of(st.none(), G.node_weights(n))),
            "la": draw(st.one_of(st.none(), G.link_attr(n, directed))),
            # signed values and zeros: an attribute is any real matrix
            "lb": draw(st.one_of(st.none(), G.link_attr(n, directed, lo=-12,
                                                        hi=12))),
            "ekeys": draw(st.lists(st.integers(0, 15), max_size=70))}


@st.composite
def sparse_small(draw):
    """0- and 1-link networks with isolated nodes, over-represented."""
    directed = draw(st.booleans())
    n = draw(st.integers(2, 8))
    k = draw(st.integers(0, 1))
    edges = []
    if k:
        i = draw(st.integers(0, n - 1))
        j = draw(st.integers(0, n - 2))
        j = j if j < i else j + 1
        edges = [[i, j]] if directed else [sorted([i, j])]
    g = {"n": n, "directed": directed, "edges": edges}
    return {"g": g, "w": draw(st.one_of(st.none(), G.node_weights(n))),
            "la": draw(st.one_of(st.none(), G.link_attr(n, directed))),
            "lb": None}


@st.composite
def spatial_cases(draw, n_min=2, n_max=9):
    c = draw(st.one_of(cases(n_min, n_max), sparse_small()))
    n = c["g"]["n"]
    c["lat"] = draw(st.lists(st.integers(-17, 17).map(lambda k: 5.0 * k),
                             min_size=n, max_size=n))
    c["lon"] = draw(st.lists(st.integers(-35, 35).map(lambda k: 5.0 * k),
                             min_size=n, max_size=n))
    c["nwt"] = draw(st.sampled_from([None, "surface", "irrigation"]))
    return c


SUBCHECKS = [
    SubCheck("exhaustive_small", oracle, enum=enum_small, quick=(8, None),
             thorough=(8, None)),
    SubCheck("random", oracle, gen=cases, quick=(8, 80),
             thorough=(16, 1000)),
    SubCheck("degenerate", oracle, gen=sparse_small, quick=(2, 80),
             thorough=(8, 600)),
    SubCheck("spatial", oracle_spatial, gen=spatial_cases, quick=(4, 50),
             thorough=(8, 800)),
]
