"""C02 - node-splitting invariance of all n.s.i. measures.

Metamorphic relation: m(G) vs m(split(G, v, p)) where the split network is
built by the harness itself (Network.splitted_copy() is compared against it
as its own clause).  Global values must be equal, per-node values equal on
untouched nodes with both twins carrying v's value, pairwise values equal on
untouched pairs.
"""
import inspect
import itertools

import numpy as np
from hypothesis import strategies as st

from vp.pbt import SubCheck, HarnessError
from vp.gen import graphs as G

PROPERTY = "C02"
RULE = ("cases = (graph, positive node weights, link-attribute matrix, list "
        "of 1..3 (node, proportion) splits, typical weight, bipartition for "
        "the two-subnetwork variants); exhaustive part = every labelled "
        "undirected graph on 2..5 nodes and directed graph on 2..4 nodes x "
        "every node x proportions {1/8,1/2,7/8}; random part = graphs of "
        "6..14 nodes, random weights/nodes/proportions. Non-trivial = the "
        "split node has at least one neighbour (so the twins share links and "
        "every unweighted degree-type quantity changes under the split); "
        "distinct = hash of the whole case.")
ASSUMPTIONS = [
    "the split network is constructed by the harness: twins mutually linked, "
    "same neighbours, weights (1-p)w and pw, link attributes copied, the "
    "twin link carrying the (zero) self-loop attribute",
    "out of scope by their own documentation: nsi_degree_histogram, "
    "nsi_degree_cumulative_histogram (frequency histograms over nodes), "
    "nsi_laplacian (a matrix, not an invariant), nsi_spreading "
    "(documented EXPERIMENTAL)",
    "on directed graphs only the variants the property enumerates are "
    "checked (nsi in/out/bil/total degree, four n.s.i. motif clusterings)",
    "spectral measure (nsi_eigenvector_centrality) on connected graphs "
    "only, compared with 1e-6",
    "float64 pipelines compared with rtol 1e-9",
    "typical-weight corrected (quotient) measures are compared only where "
    "both values are finite and below 1e6 in magnitude: at a vanishing "
    "denominator the value is undefined and rounding decides between nan, "
    "inf and huge numbers (found by the thorough tier, see DESIGN 7.4)",
]

# ---- measure tables -------------------------------------------------------
# kind: 'node' per-node array, 'global' scalar, 'pair' N x N matrix
NET_UNDIRECTED = [
    ("nsi_degree", "node", {}),
    ("nsi_degree_tw", "node", {"typical_weight": 2.0}),
    ("nsi_degree_key", "node", {"key": "la"}),
    ("nsi_bildegree", "node", {}),
    ("nsi_average_neighbors_degree", "node", {}),
    ("nsi_max_neighbors_degree", "node", {}),
    ("nsi_local_clustering", "node", {}),
    ("nsi_local_clustering_tw", "node", {"typical_weight": 0.5}),
    ("nsi_global_clustering", "global", {}),
    ("nsi_transitivity", "global", {}),
    ("nsi_local_soffer_clustering", "node", {}),
    ("nsi_twinness", "pair", {}),
    ("nsi_average_path_length", "global", {}),
    ("nsi_closeness", "node", {}),
    ("nsi_harmonic_closeness", "node", {}),
    ("nsi_exponential_closeness", "node", {}),
    ("nsi_global_efficiency", "global", {}),
    ("nsi_betweenness", "node", {}),
    ("nsi_local_cyclemotif_clustering", "node", {}),
    ("nsi_local_midmotif_clustering", "node", {}),
    ("nsi_local_inmotif_clustering", "node", {}),
    ("nsi_local_outmotif_clustering", "node", {}),
    ("nsi_local_cyclemotif_clustering_tw", "node", {"typical_weight": 2.0}),
]
NET_UNDIRECTED_HEAVY = [
    ("nsi_newman_betweenness", "node", {}),
    ("nsi_newman_betweenness_ends", "node", {"add_local_ends": True}),
    ("nsi_arenas_betweenness", "node", {}),
    ("nsi_arenas_betweenness_incl", "node", {"exclude_neighbors": False}),
    ("nsi_arenas_betweenness_twinness", "node",
     {"stopping_mode": "twinness"}),
    ("nsi_eigenvector_centrality", "node", {}),
]
NET_DIRECTED = [
    ("nsi_degree", "node", {}),
    ("nsi_indegree", "node", {}),
    ("nsi_outdegree", "node", {}),
    ("nsi_indegree_tw", "node", {"typical_weight": 2.0}),
    ("nsi_outdegree_key", "node", {"key": "la"}),
    ("nsi_indegree_key", "node", {"key": "la"}),
    ("nsi_bildegree", "node", {}),
    ("nsi_local_cyclemotif_clustering", "node", {}),
    ("nsi_local_midmotif_clustering", "node", {}),
    ("nsi_local_inmotif_clustering", "node", {}),
    ("nsi_local_outmotif_clustering", "node", {}),
    ("nsi_local_cyclemotif_clustering_key", "node", {"key": "la"}),
    ("nsi_local_midmotif_clustering_key", "node", {"key": "la"}),
    ("nsi_local_inmotif_clustering_tw", "node", {"typical_weight": 2.0}),
    ("nsi_local_outmotif_clustering_tw", "node", {"typical_weight": 0.5}),
]
# two-subnetwork variants: kind 'node1' = per node of group 1,
# 'nodeall' = per node of the whole network
INTERACTING = [
    ("nsi_cross_degree", "node1", 2),
    ("nsi_cross_mean_degree", "global", 2),
    ("nsi_internal_degree", "node1", 1),
    ("nsi_cross_local_clustering", "node1", 2),
    ("nsi_cross_closeness_centrality", "node1", 2),
    ("nsi_internal_closeness_centrality", "node1", 1),
    ("nsi_cross_global_clustering", "global", 2),
    ("nsi_internal_local_clustering", "node1", 1),
    ("nsi_cross_betweenness", "nodeall", 2),
    ("nsi_cross_edge_density", "global", 2),
    ("nsi_cross_transitivity", "global", 2),
    ("nsi_cross_average_path_length", "global", 2),
]
OUT_OF_SCOPE = {"nsi_degree_histogram", "nsi_degree_cumulative_histogram",
                "nsi_laplacian", "nsi_spreading",
                "nsi_interregional_betweenness"}  # = nsi_cross_betweenness


def _base(name):
    for suf in ("_tw", "_key", "_ends", "_incl", "_twinness"):
        if name.endswith(suf) and name != "nsi_twinness":
            return name[:-len(suf)]
    return name


def completeness():
    """Every public nsi_* method must be in a table or explicitly out of
    scope; otherwise the harness (not the library) is at fault."""
    from pyunicorn.core import Network, InteractingNetworks
    have = {_base(n) for n, _, _ in NET_UNDIRECTED + NET_UNDIRECTED_HEAVY
            + NET_DIRECTED}
    have |= {n for n, _, _ in INTERACTING} | OUT_OF_SCOPE
    missing = []
    for cls in (Network, InteractingNetworks):
        for n, _ in inspect.getmembers(cls, callable):
            if n.startswith("nsi_") and n not in have:
                missing.append(n)
    if missing:
        raise HarnessError("nsi methods not classified: %s" % sorted(missing))


# ------------------------------------------------------------- split model

def split_inputs(A, w, W, v, p, directed):
    """Harness's own construction of the split network's inputs."""
    n = len(A)
    A2 = np.zeros((n + 1, n + 1), dtype=A.dtype)
    A2[:n, :n] = A
    A2[n, :n] = A[v, :]
    A2[:n, n] = A[:, v]
    A2[v, n] = A2[n, v] = 1
    w2 = np.zeros(n + 1)
    w2[:n] = w
    w2[n] = p * w[v]
    w2[v] = (1.0 - p) * w[v]
    W2 = None
    if W is not None:
        W2 = np.zeros((n + 1, n + 1))
        W2[:n, :n] = W
        W2[n, :n] = W[v, :]
        W2[:n, n] = W[:, v]
        W2[v, n] = W2[n, v] = 0.0   # no self-loop attribute exists
    return A2, w2, W2


def build(cls, A, w, W, directed, warm=None):
    """``warm`` (a list of (method, kwargs)): the object is first built with
    OTHER positive weights, the listed measures are evaluated, and only then
    the weights of the case are assigned through the public setter - a
    network "with positive node weights" all the same."""
    w0 = w if warm is None else 1.5 * np.asarray(w, float)[::-1] + 0.25
    net = cls(adjacency=G.represent_adj(A), directed=directed,
              node_weights=G.represent_weights(w0),
              silence_level=3)
    if W is not None:
        net.set_link_attribute("la", np.asarray(W, dtype=float))
    if warm is not None:
        for meth, kw in warm:
            try:
                getattr(net, meth)(**kw)
            except Exception:  # pylint: disable=broad-except
                pass           # judged on the final state below
        net.node_weights = G.represent_weights(w)
    return net


def _norm(x):
    return np.asarray(x, dtype=float)


def compare(rec, name, kind, a, b, parents, tol, floor=1.0):
    """a = value on G, b = value on the split network; parents[u] = node of
    G that node u of the split network descends from."""
    parents = np.asarray(parents)
    if name.endswith("_tw") and kind == "node":
        # typical-weight corrected measures are quotients whose denominator
        # (k(k-1), T - ksum/tw - bilk + 2) vanishes for particular weight
        # configurations: there the value is 0/0 or x/0 and rounding decides
        # between nan, inf and +-1e15.  Only well-conditioned entries are
        # compared (finite on both sides and of moderate size).
        a = _norm(a)[parents]
        b = _norm(b)
        if a.shape != b.shape:
            rec.close(b, a, name)       # reports the shape mismatch
            return
        with np.errstate(invalid="ignore"):
            okm = np.isfinite(a) & np.isfinite(b) & (np.abs(a) < 1e6) & \
                (np.abs(b) < 1e6)
        rec.close(b[okm], a[okm], name, rtol=max(tol, 1e-7), atol=1e-9)
        return
    if kind == "global":
        rec.close(b, a, name, rtol=tol, atol=tol * 1e-3)
    elif kind == "node":
        a = _norm(a)
        b = _norm(b)
        # entries are compared relative to the largest entry of the vector:
        # measures obtained from a matrix inverse (random-walk betweenness)
        # carry rounding noise proportional to it, and weights of any
        # magnitude (1e-6 .. 1e6) are generated
        with np.errstate(invalid="ignore"):
            fin = np.abs(np.concatenate([a[np.isfinite(a)], b[np.isfinite(b)],
                                         [1.0, floor]]))
        s_ = float(fin.max())
        rec.close(b / s_, a[parents] / s_, name, rtol=tol, atol=tol * 1e-3)
    elif kind == "pair":
        a = _norm(a)
        b = _norm(b)
        exp = a[np.ix_(parents, parents)]
        # pairs among descendants of one node (twins) are new: skip them
        mask = parents[:, None] != parents[None, :]
        mask |= np.eye(len(parents), dtype=bool)
        if b.shape != exp.shape:
            rec.close(b, exp, name)     # reports the shape mismatch
            return
        rec.close(b[mask], exp[mask], name, rtol=tol, atol=tol * 1e-3)


def _inputs(case):
    g = case["g"]
    A = G.adj(g).astype(int)
    n = g["n"]
    w = np.array(case["w"], dtype=float)
    W = None
    if case.get("W") is not None and g["edges"]:
        W = np.array(case["W"], dtype=float) * (A != 0)
    return g, A, n, w, W


def apply_splits(case, A, w, W, directed):
    parents = list(range(len(A)))
    groups = None
    for v, p in case["splits"]:
        v = v % len(A)
        A, w, W = split_inputs(A, w, W, v, p, directed)
        parents.append(parents[v])
    return A, w, W, parents


def oracle_network(case, rec):
    from pyunicorn.core import Network
    g, A, n, w, W = _inputs(case)
    directed = g["directed"]
    rec.label("directed" if directed else "undirected")
    rec.label("splits=%d" % len(case["splits"]))
    v0 = case["splits"][0][0] % n
    if (A[v0].sum() + A[:, v0].sum()) >= 1:
        rec.nontrivial(True)
    if W is not None:
        rec.label("with_link_attr")
    A2, w2, W2, parents = apply_splits(case, A, w, W, directed)
    from vp.pbt import case_hash
    hk = int(case_hash(case)[:8], 16)
    # a quarter of the cases: one of the two objects is long-lived (other
    # weights first, a share of the measures evaluated, then re-weighted)
    warm = [None, None]
    if hk % 4 == 0:
        tb = NET_DIRECTED if directed else list(NET_UNDIRECTED)
        warm[(hk >> 2) & 1] = [
            (_base(nm), kw) for i, (nm, _, kw) in enumerate(tb)
            if ((hk >> 3) + i) % 3 == 0 and not ("key" in kw and W is None)
            and "eigenvector" not in nm]
        rec.label("reweighted_long_lived_object")
    ok1, net = rec.call("construct", build, Network, A, w, W, directed,
                        warm[0])
    ok2, net2 = rec.call("construct_split", build, Network, A2, w2, W2,
                         directed, warm[1])
    if not (ok1 and ok2):
        return
    # splitted_copy() against the harness's own construction (first split)
    v, p = case["splits"][0]
    v = v % n
    ok, sc = rec.call("splitted_copy_raises", net.splitted_copy, v, p)
    if ok:
        A1, w1, W1 = split_inputs(A, w, W, v, p, directed)
        rec.equal(np.asarray(sc.adjacency), A1, "splitted_copy_adjacency")
        rec.close(sc.node_weights, w1, "splitted_copy_weights", rtol=1e-12)
        rec.check(sc.directed == directed, "splitted_copy_directed")
        if W is not None:
            ok, la = rec.call("splitted_copy_link_attr_raises",
                              sc.link_attribute, "la")
            if ok:
                rec.close(la, W1 * (A1 != 0), "splitted_copy_link_attr",
                          rtol=1e-12)
    table = NET_DIRECTED if directed else list(NET_UNDIRECTED)
    connected = G.is_connected(A)
    if not directed and case.get("heavy"):
        table = table + NET_UNDIRECTED_HEAVY
    # case-dependent order of the measure table (the same on both objects):
    # a measure that disturbs shared cached state then precedes its victims
    # in a share of the cases
    table = [table[i] for i in sorted(
        range(len(table)), key=lambda i: (hk * (2 * i + 1) + 7919 * i)
        % 1000003)]
    for name, kind, kw in table:
        if "key" in kw and W is None:
            continue
        if name == "nsi_eigenvector_centrality" and not (
                connected and g["edges"] and n >= 3):
            continue
        meth = _base(name)
        # ARPACK (eigsh, tol=1e-8 on the eigenvalue): vectors agree to ~1e-5
        tol = 1e-6 if "eigenvector" in name else 1e-9
        if "newman" in name or "arenas" in name:
            tol = 1e-7
        oka, a = rec.call(name + "_raises", getattr(net, meth), **kw)
        okb, b = rec.call(name + "_raises_split", getattr(net2, meth), **kw)
        if oka and okb:
            # random-walk betweenness comes out of an inverted matrix whose
            # entries are of the order (total weight)^2: its rounding noise
            # (also on entries that are exactly 0) scales with that
            floor = float(np.sum(w)) ** 2 if (
                "newman" in name or "arenas" in name) else 1.0
            compare(rec, name, kind, a, b, parents, tol, floor)
    if directed:
        # measures the library only offers for undirected networks: they are
        # refused (NotImplementedError, or the assert in nsi_betweenness) - or,
        # wherever a result comes
        # back, it is split-invariant like every other n.s.i. measure
        done = {t[0] for t in table}
        for name, kind, kw in NET_UNDIRECTED:
            if name in done or ("key" in kw and W is None):
                continue
            meth = _base(name)
            oka, a = rec.call(name + "_dir_raises", getattr(net, meth),
                              allowed=(NotImplementedError, AssertionError), **kw)
            okb, b = rec.call(name + "_dir_raises_split", getattr(net2, meth),
                              allowed=(NotImplementedError, AssertionError), **kw)
            if oka and okb and a is not None and b is not None:
                compare(rec, "dir_" + name, kind, a, b, parents, 1e-9)


def oracle_interacting(case, rec):
    from pyunicorn.core import InteractingNetworks
    g, A, n, w, W = _inputs(case)
    if g["directed"]:
        return
    side = [s % 2 for s in case["side"][:n]]
    g1 = [i for i in range(n) if side[i] == 0]
    g2 = [i for i in range(n) if side[i] == 1]
    if not g1 or not g2:
        rec.label("degenerate_partition")
        return
    A2, w2, W2, parents = apply_splits(case, A, w, W, False)
    side2 = [side[p] for p in parents]
    h1 = [i for i in range(len(A2)) if side2[i] == 0]
    h2 = [i for i in range(len(A2)) if side2[i] == 1]
    # arbitrary (generated) order of the node lists
    if case.get("rev"):
        g1, h1 = g1[::-1], h1[::-1]
    v0 = case["splits"][0][0] % n
    if A[v0].sum() >= 1:
        rec.nontrivial(True)
    rec.label("v_in_group%d" % (1 + side[v0]))
    ok1, net = rec.call("construct", build, InteractingNetworks, A, w, None,
                        False)
    ok2, net2 = rec.call("construct_split", build, InteractingNetworks, A2,
                         w2, None, False)
    if not (ok1 and ok2):
        return
    par = np.asarray(parents)
    from vp.ref import graph as R
    D = R.path_lengths(A)
    from vp.pbt import case_hash
    hk = int(case_hash(case)[:8], 16)
    itable = [INTERACTING[i] for i in sorted(
        range(len(INTERACTING)), key=lambda i: (hk * (2 * i + 1) + 7919 * i)
        % 1000003)]
    for name, kind, nargs in itable:
        for order in (0, 1):
            a1, a2 = (g1, g2) if order == 0 else (g2, g1)
            b1, b2 = (h1, h2) if order == 0 else (h2, h1)
            args_a = (a1, a2) if nargs == 2 else (a1,)
            args_b = (b1, b2) if nargs == 2 else (b1,)
            cl = name
            if "closeness" in name or "path_length" in name:
                # the library replaces an infinite distance by N-1, which
                # depends on N: separate signature (known finding KF-C02-2)
                tgt = a2 if nargs == 2 else a1
                if not np.isfinite(D[np.ix_(a1, tgt)]).all():
                    cl = name + "_unreachable_pairs"
            # an undefined value (0/0: no cross links at all) may be refused
            # on both sides, but never on one side only
            oka, a = rec.call(name + "_raises", getattr(net, name), *args_a,
                              allowed=(ZeroDivisionError,))
            okb, b = rec.call(name + "_raises_split", getattr(net2, name),
                              *args_b, allowed=(ZeroDivisionError,))
            if isinstance(a, ZeroDivisionError) or \
                    isinstance(b, ZeroDivisionError):
                rec.check(isinstance(a, ZeroDivisionError)
                          and isinstance(b, ZeroDivisionError),
                          name + "_undefined_on_one_side_only")
                continue
            if not (oka and okb):
                continue
            if kind == "global":
                rec.close(b, a, cl, rtol=1e-9, atol=1e-12)
            elif kind == "nodeall":
                rec.close(_norm(b), _norm(a)[par], cl, rtol=1e-9,
                          atol=1e-12)
            else:   # per node of the first list
                pos = {u: i for i, u in enumerate(a1)}
                exp = np.array([_norm(a)[pos[par[u]]] for u in b1])
                rec.close(_norm(b), exp, cl, rtol=1e-9, atol=1e-12)


# -------------------------------------------------------------- generators

PROPS = [0.125, 0.5, 0.875]


def _w(n, salt):
    return [((3 * i + salt) % 7 + 1) / 4.0 for i in range(n)]


def _attr(n, directed, salt):
    W = np.zeros((n, n))
    for i in range(n):
        for j in range(n):
            if i != j:
                a, b = (i, j) if directed or i < j else (j, i)
                W[i, j] = ((5 * a + 3 * b + salt) % 9 + 1) / 2.0
    return W.tolist()


def enum_network(tier):
    """thorough: every graph x every node x 3 proportions x 2 weight vectors.
    quick: every graph; every node for the small sizes, one node (cycling)
    for the two largest classes (5-node undirected, 4-node directed)."""
    idx = 0
    for g in G.all_small_graphs(5, 4):
        n = g["n"]
        big = (n == 5 and not g["directed"]) or (n == 4 and g["directed"])
        nodes = range(n) if tier == "thorough" or not big else [idx % n]
        for v in nodes:
            ps = PROPS if tier == "thorough" else [PROPS[idx % 3]]
            for p in ps:
                for ws in ((0, 3) if tier == "thorough" else (idx % 5,)):
                    yield {"g": g, "w": _w(n, ws),
                           "W": _attr(n, g["directed"], idx % 4),
                           "splits": [[v, p]],
                           "heavy": n <= 4 or idx % 4 == 0}
            idx += 1


def enum_interacting(tier):
    idx = 0
    for g in G.all_small_graphs(5, 0):
        n = g["n"]
        for bits in itertools.product((0, 1), repeat=n - 1):
            side = [0] + list(bits)
            if sum(side) == 0:
                continue
            idx += 1
            nodes = range(n) if tier == "thorough" else [idx % n]
            for v in nodes:
                yield {"g": g, "w": _w(n, idx % 5), "W": None,
                       "splits": [[v, PROPS[idx % 3]]], "side": side,
                       "rev": idx % 2 == 1}


@st.composite
def network_cases(draw, n_min=6, n_max=14):
    directed = draw(st.integers(0, 2)) == 0
    g = draw(G.graphs(n_min, n_max if not directed else 10, directed))
    n = g["n"]
    k = draw(st.integers(1, 3))
    splits = [[draw(st.integers(0, 63)),
               draw(st.sampled_from([0.125, 0.25, 0.5, 0.75, 0.875, 0.3, 0.9,
                                     0.01]))] for _ in range(k)]
    return {"g": g, "w": draw(G.node_weights_wide(n)),
            "W": draw(st.one_of(st.none(), G.link_attr(n, directed))),
            "splits": splits, "heavy": draw(st.integers(0, 2)) == 0}


@st.composite
def interacting_cases(draw, n_min=4, n_max=14):
    g = draw(G.graphs(n_min, n_max, False))
    n = g["n"]
    k = draw(st.integers(1, 2))
    splits = [[draw(st.integers(0, 63)),
               draw(st.sampled_from([0.125, 0.25, 0.5, 0.75, 0.875, 0.3]))]
              for _ in range(k)]
    side = draw(st.lists(st.integers(0, 1), min_size=n, max_size=n))
    return {"g": g, "w": draw(G.node_weights_wide(n)), "W": None,
            "splits": splits, "side": side, "rev": draw(st.booleans())}


def run_completeness(ctx):
    completeness()
    ctx.extra["completeness"] = "all public nsi_* methods classified"


SUBCHECKS = [
    SubCheck("completeness", run=run_completeness, quick=(1, None),
             thorough=(1, None)),
    SubCheck("exhaustive_network", oracle_network, enum=enum_network,
             quick=(12, None), thorough=(16, None), exhaustive=("thorough",)),
    SubCheck("exhaustive_interacting", oracle_interacting,
             enum=enum_interacting, quick=(6, None), thorough=(16, None),
             exhaustive=("thorough",)),
    SubCheck("random_network", oracle_network, gen=network_cases,
             quick=(8, 40), thorough=(16, 1200)),
    SubCheck("random_interacting", oracle_interacting, gen=interacting_cases,
             quick=(4, 100), thorough=(16, 1500)),
]
