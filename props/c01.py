"""C01 - results always reflect the object's current state (cache coherence).

Histories of public mutators interleaved with queries are generated AS DATA
and interpreted against (a) the long-lived library object and (b) a model =
the object's current primary inputs.  After every query the same query is
made on a FRESH TWIN built from the model (new id, no history); the two
results (or exception types) must agree.  The long-lived object is always
queried before its twin, and few argument patterns are used per step, so
that lru_cache eviction (maxsize 32 per method, shared by all instances)
cannot mask a stale entry.
"""
import os

import numpy as np
from hypothesis import strategies as st

from vp.pbt import (SubCheck, HarnessError, allclose, maxdiff,
                    seed_library_rngs)
from vp.gen import graphs as G

PROPERTY = "C01"
RULE = ("cases = (class family, initial inputs, history of 2..14 operations "
        "= mutators with generated arguments interleaved with queries with "
        "generated argument patterns). Families: Network / "
        "InteractingNetworks (adjacency dense/sparse, edge list, node "
        "weights, set/del link attribute, rewiring), GeoNetwork (+ node "
        "weight type), ClimateNetwork and TsonisClimateNetwork (threshold, "
        "link density, non_local, winter_only), RecurrencePlot / "
        "RecurrenceNetwork / JointRecurrenceNetwork / "
        "InterSystemRecurrenceNetwork (five threshold/rate setters), "
        "VisibilityGraph (weights, link attributes), ResNetwork "
        "(update_resistances), Surrogates (embedding, normalisation), "
        "ClimateData (set_window, set_global_window). "
        "Non-trivial = a query that was already issued with the same "
        "argument pattern before the most recent mutator and whose fresh-"
        "twin value differs from the value it had before; distinct = "
        "(family, query pattern, mutator).")
ASSUMPTIONS = [
    "the fresh twin is built from the model's current primary inputs "
    "through the public constructor; after a randomised mutator (rewiring) "
    "the model adopts the object's adjacency",
    "a query is compared where both objects return a value or both raise "
    "the same exception type",
    "assigning a new adjacency rebuilds the embedded graph, so link "
    "attributes do not survive it (model: attributes cleared)",
    "ARPACK-based measures are not part of the query tables; float64 "
    "pipelines 1e-9, float32 pipelines 1e-5",
    "ClimateData window histories: values against a numpy model are C13's; "
    "here every observable after every window change must equal that of a "
    "freshly constructed object with the same window",
]


# ----------------------------------------------------------------- engine

class Stop(Exception):
    pass


def same(a, b, tol):
    if hasattr(a, "toarray"):
        a = a.toarray()
    if hasattr(b, "toarray"):
        b = b.toarray()
    if isinstance(a, dict) and isinstance(b, dict):
        return set(a) == set(b) and all(same(a[k], b[k], tol) for k in a)
    if isinstance(a, (tuple, list)) and isinstance(b, (tuple, list)) and \
            len(a) == len(b) and len(a) and isinstance(
                a[0], (np.ndarray, tuple, list)):
        return all(same(x, y, tol) for x, y in zip(a, b))
    if a is None or b is None:
        return a is None and b is None
    try:
        return allclose(np.asarray(a, dtype=float),
                        np.asarray(b, dtype=float), rtol=tol,
                        atol=tol * 1e-3)
    except (TypeError, ValueError):
        return a == b


def run_history(family, case, rec):
    model = family.init_model(case)
    ok, obj = rec.call("%s_construct" % family.name, family.build, model)
    if not ok:
        return
    last_mut = "init"
    seen = {}       # query pattern -> (value before, mutation epoch)
    epoch = 0
    rec.label("family=%s" % family.name)
    for op in case["ops"]:
        kind, name = op[0], op[1]
        arg = op[2] if len(op) > 2 else None
        if kind == "m":
            fn = family.mutators[name]
            try:
                fn(obj, model, arg)
            except Stop:
                rec.label("mutator_not_applicable")
                continue
            except Exception as e:  # pylint: disable=broad-except
                # a mutator that refuses its argument ends the history
                rec.label("mutator_raised=%s" % type(e).__name__)
                rec.fail("%s/%s_raises" % (family.name, name),
                         "%s: %s" % (type(e).__name__, str(e)[:200]))
                return
            last_mut = name
            epoch += 1
            rec.label("mut=%s" % name)
            # the family's core state is compared after EVERY mutator (a
            # stale intermediate used by the mutator itself shows there even
            # when the query that exposed it is not asked again)
            for cname in getattr(family, "always", ()):
                try:
                    a = family.queries[cname](obj, model)
                    b = family.queries[cname](family.build(model), model)
                except Exception:  # pylint: disable=broad-except
                    continue       # judged by the ordinary queries
                if not same(a, b, family.tol.get(cname, 1e-9)):
                    rec.fail("%s_after_%s" % (cname, name),
                             "object=%s fresh=%s maxdiff=%s" % (
                                 _br(a), _br(b), _md(a, b)))
            continue
        q = family.queries[name]
        tol = family.tol.get(name, 1e-9)
        # long-lived object FIRST, then the fresh twin
        try:
            a = q(obj, model)
            ea = None
        except Exception as e:  # pylint: disable=broad-except
            a, ea = None, e
        try:
            twin = family.build(model)
            b = q(twin, model)
            eb = None
        except Exception as e:  # pylint: disable=broad-except
            b, eb = None, e
        clause = "%s_after_%s" % (name, last_mut)
        if isinstance(ea, AttributeError) and isinstance(eb, AttributeError) \
                and "object has no attribute '%s'" % name.lstrip(".") in \
                str(ea):
            raise HarnessError("query %s does not exist on %s" % (
                name, family.name))
        if ea is not None or eb is not None:
            if type(ea) is not type(eb):
                rec.fail(clause + "__raises_differ",
                         "object: %r fresh twin: %r" % (ea, eb))
            else:
                rec.label("both_raise:%s/%s:%s" % (family.name, name,
                                                   type(ea).__name__))
            continue
        if not same(a, b, tol):
            rec.fail(clause, "object=%s fresh=%s maxdiff=%s" % (
                _br(a), _br(b), _md(a, b)))
        prev = seen.get(name)
        if prev is not None and prev[1] < epoch and \
                not same(prev[0], b, tol):
            rec.nontrivial((family.name, name, last_mut))
        seen[name] = (b, epoch)


def _br(x):
    try:
        if hasattr(x, "toarray"):
            x = x.toarray()
        a = np.asarray(x, dtype=float)
        return np.array2string(a.ravel()[:8], precision=5)
    except Exception:  # pylint: disable=broad-except
        return repr(x)[:80]


def _md(a, b):
    try:
        return maxdiff(np.asarray(a, dtype=float), np.asarray(b, dtype=float))
    except Exception:  # pylint: disable=broad-except
        return "n/a"


class Family:
    name = ""
    mutators = {}
    queries = {}
    tol = {}


def call(name, *args, **kw):
    return lambda o, m: getattr(o, name)(*args, **kw)


def attr(name):
    return lambda o, m: getattr(o, name)


# ------------------------------------------------- Network / Interacting

NET_ZERO = [
    "degree", "indegree", "outdegree", "bildegree", "nsi_degree",
    "nsi_indegree", "nsi_outdegree", "nsi_bildegree", "degree_distribution",
    "degree_cdf", "average_neighbors_degree", "max_neighbors_degree",
    "nsi_average_neighbors_degree", "nsi_max_neighbors_degree",
    "local_clustering", "global_clustering", "transitivity",
    "local_cyclemotif_clustering", "local_midmotif_clustering",
    "local_inmotif_clustering", "local_outmotif_clustering",
    "nsi_local_cyclemotif_clustering", "nsi_local_outmotif_clustering",
    "nsi_local_clustering", "nsi_global_clustering", "nsi_transitivity",
    "nsi_local_soffer_clustering", "nsi_twinness", "path_lengths",
    "average_path_length", "nsi_average_path_length", "diameter",
    "matching_index", "link_betweenness", "betweenness",
    "interregional_betweenness", "nsi_betweenness", "closeness",
    "nsi_closeness", "nsi_harmonic_closeness", "nsi_exponential_closeness",
    "arenas_betweenness", "newman_betweenness", "nsi_newman_betweenness",
    "nsi_arenas_betweenness", "global_efficiency", "nsi_global_efficiency",
    "coreness", "laplacian", "nsi_laplacian", "undirected_adjacency",
    "sp_Aplus", "sp_diag_w", "sp_nsi_diag_k", "edge_list",
    "nsi_degree_histogram", "assortativity",
]


def _net_queries(interacting):
    q = {n: call(n) for n in NET_ZERO}
    for m in ("degree", "indegree", "outdegree", "bildegree", "nsi_degree",
              "nsi_indegree", "nsi_outdegree", "local_cyclemotif_clustering",
              "local_midmotif_clustering", "local_inmotif_clustering",
              "local_outmotif_clustering", "nsi_local_cyclemotif_clustering",
              "nsi_local_midmotif_clustering", "path_lengths",
              "average_path_length", "closeness", "global_efficiency",
              "link_attribute", "average_link_attribute"):
        q[m + "(la)"] = call(m, "la")
    q["degree(key=la)"] = call("degree", key="la")
    q["nsi_degree(key=la)"] = call("nsi_degree", key="la")
    q["nsi_degree(tw=2)"] = call("nsi_degree", typical_weight=2.0)
    q["nsi_degree(None,2)"] = call("nsi_degree", None, 2.0)
    q["nsi_degree(la,0.5)"] = call("nsi_degree", "la", 0.5)
    q["nsi_local_clustering(tw=.5)"] = call("nsi_local_clustering",
                                            typical_weight=0.5)
    q["nsi_local_cyclemotif(la,2)"] = call(
        "nsi_local_cyclemotif_clustering", "la", 2.0)
    q["local_cliquishness(4)"] = call("local_cliquishness", 4)
    q["local_vulnerability"] = call("local_vulnerability")
    for a in ("N", "n_links", "link_density", "total_node_weight",
              "mean_node_weight", "adjacency", "node_weights", "directed"):
        q["." + a] = attr(a)
    q["find_link_attribute(la)"] = call("find_link_attribute", "la")

    def nsi_ec(o, m):
        # defined (unique leading eigenvector) on connected undirected
        # networks only
        A = np.asarray(m["A"])
        if m.get("directed") or len(A) < 3 or not G.is_connected(
                ((A + A.T) != 0).astype(int)):
            return None
        return o.nsi_eigenvector_centrality()
    q["nsi_eigenvector_centrality"] = nsi_ec
    if interacting:
        def grp(m):
            n = m["n"]
            return list(range(0, n, 2)), list(range(1, n, 2))
        for nm in ("cross_degree", "cross_path_lengths", "nsi_cross_degree",
                   "cross_adjacency", "cross_local_clustering",
                   "cross_betweenness", "nsi_cross_local_clustering",
                   "cross_closeness", "nsi_cross_closeness_centrality",
                   "cross_average_path_length"):
            q[nm] = (lambda nm: lambda o, m: getattr(o, nm)(*grp(m)))(nm)
        for nm in ("internal_degree", "internal_adjacency",
                   "nsi_internal_degree", "internal_path_lengths",
                   "internal_betweenness"):
            q[nm] = (lambda nm: lambda o, m: getattr(o, nm)(grp(m)[0]))(nm)
        q["cross_degree(la)"] = lambda o, m: o.cross_degree(*grp(m), "la")
        # InteractingNetworks re-defines global_efficiency with node lists
        # (and thereby breaks the inherited local_vulnerability, which is
        # outside C01: dropped here)
        q["global_efficiency"] = lambda o, m: o.global_efficiency(*grp(m))
        q["global_efficiency(la)"] = \
            lambda o, m: o.global_efficiency(*grp(m), "la")
        q.pop("local_vulnerability", None)
        q["cross_link_attribute(la)"] = \
            lambda o, m: o.cross_link_attribute("la", *grp(m))
        q["internal_link_attribute(la)"] = \
            lambda o, m: o.internal_link_attribute("la", grp(m)[0])
    return q


class NetFamily(Family):
    def __init__(self, interacting):
        self.name = "InteractingNetworks" if interacting else "Network"
        self.interacting = interacting
        self.queries = _net_queries(interacting)
        self.tol = {k: 1e-7 for k in self.queries
                    if "newman" in k or "arenas" in k}
        self.mutators = {
            "adjacency_dense": self.m_adj_dense,
            "adjacency_sparse": self.m_adj_sparse,
            "set_edge_list": self.m_edge_list,
            "node_weights": self.m_weights,
            "set_link_attribute": self.m_set_attr,
            "del_link_attribute": self.m_del_attr,
            "randomly_rewire": self.m_rewire,
        }

    def init_model(self, case):
        g = case["g"]
        return {"n": g["n"], "directed": g["directed"],
                "A": G.adj(g).astype(int), "w": case["w"],
                "attrs": ({"la": np.array(case["W"], dtype=float)}
                          if case.get("W") is not None and g["edges"]
                          else {})}

    def build(self, m):
        from pyunicorn.core import Network, InteractingNetworks
        cls = InteractingNetworks if self.interacting else Network
        net = cls(adjacency=m["A"].copy(), directed=m["directed"],
                  node_weights=m["w"], silence_level=3)
        for k, W in m["attrs"].items():
            net.set_link_attribute(k, W)
        return net

    def _graph(self, m, arg):
        g = dict(arg, directed=m["directed"])
        A = G.adj(g).astype(int)
        if A.shape[0] != m["n"]:
            raise Stop()
        return g, A

    def m_adj_dense(self, o, m, arg):
        g, A = self._graph(m, arg)
        o.adjacency = A
        m["A"], m["attrs"] = A, {}

    def m_adj_sparse(self, o, m, arg):
        import scipy.sparse as sp
        g, A = self._graph(m, arg)
        o.adjacency = sp.csr_matrix(A)
        m["A"], m["attrs"] = A, {}

    def m_edge_list(self, o, m, arg):
        g, A = self._graph(m, arg)
        o.set_edge_list(np.array(g["edges"], dtype=int).reshape(-1, 2),
                        m["n"])
        m["A"], m["attrs"] = A, {}

    def m_weights(self, o, m, arg):
        if arg is None:          # documented: back to unit weights
            o.node_weights = None
            m["w"] = None
            return
        w = (list(arg) * m["n"])[:m["n"]]
        o.node_weights = w
        m["w"] = w

    def m_set_attr(self, o, m, arg):
        if not m["A"].any():
            raise Stop()
        n = m["n"]
        W = np.zeros((n, n))
        vals = (list(arg) * (n * n))[:n * n]
        W[:] = np.array(vals, dtype=float).reshape(n, n)
        if not m["directed"]:
            W = np.triu(W, 1) + np.triu(W, 1).T
        o.set_link_attribute("la", W)
        m["attrs"] = {"la": W}

    def m_del_attr(self, o, m, arg):
        o.del_link_attribute("la")
        m["attrs"] = {}

    def m_rewire(self, o, m, arg):
        if m["directed"] or m["A"].sum() < 4:
            raise Stop()
        seed_library_rngs(arg[1], arg[2])
        o.randomly_rewire(int(arg[0]))
        m["A"], m["attrs"] = np.asarray(o.adjacency).astype(int), {}


class VisFamily(NetFamily):
    """VisibilityGraph: Network-level mutators that keep the series."""

    def __init__(self):
        NetFamily.__init__(self, True)
        self.name = "VisibilityGraph"
        for k in ("adjacency_dense", "adjacency_sparse", "set_edge_list",
                  "randomly_rewire"):
            del self.mutators[k]
        for nm in ("retarded_degree", "advanced_degree",
                   "retarded_local_clustering", "advanced_local_clustering",
                   "retarded_closeness", "boundary_corrected_degree"):
            self.queries[nm] = call(nm)

    def init_model(self, case):
        from pyunicorn.timeseries import VisibilityGraph
        x = np.array(case["x"], dtype=float)
        vg = VisibilityGraph(x, silence_level=3)
        return {"n": len(x), "directed": False, "x": x,
                "A": np.asarray(vg.adjacency).astype(int), "w": None,
                "attrs": {}}

    def build(self, m):
        from pyunicorn.timeseries import VisibilityGraph
        vg = VisibilityGraph(m["x"].copy(), silence_level=3)
        if m["w"] is not None:
            vg.node_weights = m["w"]
        for k, W in m["attrs"].items():
            vg.set_link_attribute(k, W)
        return vg


# ------------------------------------------------------------- GeoNetwork

class GeoFamily(Family):
    name = "GeoNetwork"

    def __init__(self):
        names = ["degree", "nsi_degree", "nsi_local_clustering",
                 "nsi_average_path_length", "nsi_closeness",
                 "nsi_betweenness", "area_weighted_connectivity",
                 "inarea_weighted_connectivity",
                 "outarea_weighted_connectivity",
                 "average_neighbor_area_weighted_connectivity",
                 "average_link_distance", "total_link_distance",
                 "connectivity_weighted_distance", "max_link_distance",
                 "local_geographical_clustering", "distance",
                 "average_distance_weighted_path_length",
                 "distance_weighted_closeness", "path_lengths",
                 "betweenness", "local_clustering", "nsi_transitivity"]
        self.queries = {n: call(n) for n in names}
        for a in ("N", "n_links", "link_density", "total_node_weight",
                  "mean_node_weight", "adjacency", "node_weights",
                  "node_weight_type"):
            self.queries["." + a] = attr(a)
        self.queries["average_link_distance(True)"] = \
            call("average_link_distance", True)
        self.tol = {k: 1e-5 for k in self.queries}
        self.mutators = {"set_node_weight_type": self.m_nwt,
                         "adjacency_dense": self.m_adj,
                         "node_weights": self.m_weights,
                         "rewire_geomodel": self.m_geomodel,
                         "set_random_links_by_distance": self.m_bydist}

    def init_model(self, case):
        g = case["g"]
        return {"n": g["n"], "directed": g["directed"],
                "A": G.adj(g).astype(int), "lat": case["lat"],
                "lon": case["lon"], "nwt": case["nwt"], "w": None}

    def build(self, m):
        from pyunicorn.core import GeoNetwork, GeoGrid
        grid = GeoGrid(np.arange(2.0), np.array(m["lat"], dtype=float),
                       np.array(m["lon"], dtype=float), silence_level=3)
        net = GeoNetwork(grid, adjacency=m["A"].copy(),
                         directed=m["directed"], node_weight_type=m["nwt"],
                         silence_level=3)
        if m["w"] is not None:
            net.node_weights = m["w"]
        return net

    def m_nwt(self, o, m, arg):
        o.set_node_weight_type(arg)
        m["nwt"], m["w"] = arg, None

    def m_adj(self, o, m, arg):
        g = dict(arg, directed=m["directed"])
        A = G.adj(g).astype(int)
        if A.shape[0] != m["n"]:
            raise Stop()
        o.adjacency = A
        m["A"] = A

    def m_weights(self, o, m, arg):
        w = (list(arg) * m["n"])[:m["n"]]
        o.node_weights = w
        m["w"] = w

    def m_geomodel(self, o, m, arg):
        """randomly_rewire_geomodel_I/II/III with a tolerance that admits
        every structurally possible swap (termination: C17's precondition,
        and the reverse of a swap is always admissible again); afterwards
        the model adopts the object's adjacency, as for randomly_rewire."""
        from props.c17 import swap_needs, eligible_count
        if m["directed"]:
            raise Stop()
        model = ("I", "II", "III")[int(arg[0]) % 3]
        D = np.array(o.grid.distance(), dtype=float)
        A = m["A"]
        # the kernel draws pairs of links in the orientation of the embedded
        # graph's edge list: the precondition is evaluated on exactly that
        edges = [tuple(e) for e in o.graph.get_edgelist()]
        if eligible_count(swap_needs(A, D, model, edges), 1e9) == 0:
            raise Stop()
        seed_library_rngs(arg[1], arg[2])
        getattr(o, "randomly_rewire_geomodel_" + model)(
            distance_matrix=D, iterations=1 + int(arg[0]) // 3 % 3,
            inaccuracy=1e9)
        m["A"] = np.asarray(o.adjacency).astype(int)

    def m_bydist(self, o, m, arg):
        if m["directed"]:
            raise Stop()
        seed_library_rngs(arg[1], arg[2])
        o.set_random_links_by_distance(a=(-2.0, 0.0, 1.0)[int(arg[0]) % 3],
                                       b=(-1.0, -0.25)[int(arg[0]) // 3 % 2])
        m["A"] = np.asarray(o.adjacency).astype(int)


# --------------------------------------------------------- ClimateNetwork

class ClimateFamily(Family):
    name = "ClimateNetwork"
    always = (".adjacency",)

    def __init__(self):
        names = ["degree", "nsi_degree", "local_clustering", "transitivity",
                 "betweenness", "path_lengths", "closeness",
                 "average_path_length", "nsi_local_clustering",
                 "area_weighted_connectivity", "average_link_distance",
                 "threshold", "non_local", "similarity_measure",
                 "correlation_distance", "inv_correlation_distance",
                 "link_density_function_n20" if False else "coreness",
                 "nsi_betweenness", "matching_index",
                 "local_correlation_distance_weighted_vulnerability"
                 if False else "global_clustering"]
        self.queries = {n: call(n) for n in names}
        for a in ("N", "n_links", "link_density", "total_node_weight",
                  "mean_node_weight", "adjacency", "directed"):
            self.queries["." + a] = attr(a)
        self.queries["correlation_distance_weighted_closeness"] = \
            call("correlation_distance_weighted_closeness")
        self.queries["local_correlation_distance_weighted_vulnerability"] = \
            call("local_correlation_distance_weighted_vulnerability")
        self.tol = {k: 1e-5 for k in self.queries}
        self.mutators = {"set_threshold": self.m_thr,
                         "set_link_density": self.m_rho,
                         "set_non_local": self.m_nl}

    def init_model(self, case):
        n = len(case["lat"])
        S = np.array(case["S"], dtype=float).reshape(n, n)
        S = np.triu(S, 1) + np.triu(S, 1).T + np.eye(n)
        return {"n": n, "S": S, "lat": case["lat"], "lon": case["lon"],
                "thr": case["thr"], "nl": bool(case["nl"]),
                "nwt": case["nwt"]}

    def build(self, m):
        from pyunicorn.core import GeoGrid
        from pyunicorn.climate import ClimateNetwork
        grid = GeoGrid(np.arange(2.0), np.array(m["lat"], dtype=float),
                       np.array(m["lon"], dtype=float), silence_level=3)
        return ClimateNetwork(grid, m["S"].copy(), threshold=m["thr"],
                              non_local=m["nl"], node_weight_type=m["nwt"],
                              silence_level=3)

    def m_thr(self, o, m, arg):
        o.set_threshold(arg)
        m["thr"] = arg

    def m_rho(self, o, m, arg):
        o.set_link_density(arg)
        m["thr"] = float(o.threshold())   # quantile correctness: C09

    def m_nl(self, o, m, arg):
        o.set_non_local(bool(arg))
        m["nl"] = bool(arg)


class CoupledClimateFamily(ClimateFamily):
    """CoupledClimateNetwork built from one similarity matrix over two
    grids (the first n1 nodes form layer 1): the threshold / density /
    non_local setters against the per-layer and cross-layer accessors."""
    name = "CoupledClimateNetwork"

    def __init__(self):
        ClimateFamily.__init__(self)
        for k in ("area_weighted_connectivity", "average_link_distance",
                  "nsi_betweenness", "matching_index", "coreness",
                  "local_correlation_distance_weighted_vulnerability"):
            self.queries.pop(k, None)
        for n in ("adjacency_1", "adjacency_2", "cross_layer_adjacency",
                  "number_cross_layer_links", "number_internal_links",
                  "cross_link_density", "internal_link_density",
                  "cross_degree", "internal_degree",
                  "cross_global_clustering", "cross_transitivity",
                  "internal_global_clustering", "cross_local_clustering",
                  "cross_path_lengths", "cross_closeness",
                  "cross_betweenness", "similarity_measure_1",
                  "cross_similarity_measure", "cross_average_path_length"):
            self.queries[n] = call(n)
            self.tol[n] = 1e-5

    def init_model(self, case):
        m = ClimateFamily.init_model(self, case)
        m["n1"] = max(1, min(m["n"] - 1, int(case.get("n1", m["n"] // 2))))
        return m

    def build(self, m):
        from pyunicorn.core import GeoGrid
        from pyunicorn.climate import CoupledClimateNetwork
        lat = np.array(m["lat"], dtype=float)
        lon = np.array(m["lon"], dtype=float)
        k = m["n1"]
        g1 = GeoGrid(np.arange(2.0), lat[:k], lon[:k], silence_level=3)
        g2 = GeoGrid(np.arange(2.0), lat[k:], lon[k:], silence_level=3)
        return CoupledClimateNetwork(g1, g2, m["S"].copy(),
                                     threshold=m["thr"], non_local=m["nl"],
                                     node_weight_type=m["nwt"],
                                     silence_level=3)


class TsonisFamily(ClimateFamily):
    name = "TsonisClimateNetwork"

    def __init__(self):
        ClimateFamily.__init__(self)
        self.queries["correlation"] = call("correlation")
        self.queries["winter_only"] = call("winter_only")
        for n in ("correlation_weighted_average_path_length",
                  "correlation_weighted_closeness",
                  "local_correlation_weighted_vulnerability"):
            self.queries[n] = call(n)
            self.tol[n] = 1e-5
        self.mutators["set_winter_only"] = self.m_winter
        self.mutators["data_window_then_set_winter_only"] = self.m_rewindow

    def init_model(self, case):
        return {"n": len(case["lat"]), "data": case["data"],
                "lat": case["lat"], "lon": case["lon"], "thr": case["thr"],
                "nl": bool(case["nl"]), "nwt": case["nwt"],
                "winter": bool(case["winter"]), "twin": None}

    @staticmethod
    def _window(m):
        t0, t1 = m["twin"]
        return {"time_min": float(t0), "time_max": float(t1),
                "lat_min": float(min(m["lat"])),
                "lat_max": float(max(m["lat"])),
                "lon_min": float(min(m["lon"])),
                "lon_max": float(max(m["lon"]))}

    def m_rewindow(self, o, m, arg):
        """The network's ClimateData gets another time window (same nodes)
        and the network is regenerated from it the documented way: by
        set_winter_only - with the value the flag already has."""
        T = len(m["data"])
        k = int(arg) % 3
        m["twin"] = None if k == 2 or T < 24 else \
            ((0, T // 2 - 1) if k == 0 else (T // 2, T - 1))
        if m["twin"] is None:
            o.data.set_global_window()
        else:
            o.data.set_window(self._window(m))
        self.m_winter(o, m, m["winter"])

    def build(self, m):
        from pyunicorn.core import GeoGrid
        from pyunicorn.climate import ClimateData, TsonisClimateNetwork
        X = np.array(m["data"], dtype=float)
        grid = GeoGrid(np.arange(float(len(X))),
                       np.array(m["lat"], dtype=float),
                       np.array(m["lon"], dtype=float), silence_level=3)
        data = ClimateData(observable=X, grid=grid, time_cycle=12,
                           silence_level=3)
        if m.get("twin"):
            data.set_window(self._window(m))
        return TsonisClimateNetwork(data, threshold=m["thr"],
                                    non_local=m["nl"],
                                    node_weight_type=m["nwt"],
                                    winter_only=m["winter"],
                                    silence_level=3)

    def m_winter(self, o, m, arg):
        o.set_winter_only(bool(arg))
        m["winter"] = bool(arg)



class DerivedClimateFamily(TsonisFamily):
    """Data-derived climate networks: Spearman, MutualInfo, Hilbert
    (directed / undirected), Havlin, PartialCorrelation, Rainfall."""

    def __init__(self, kind):
        TsonisFamily.__init__(self)
        self.kind = kind
        self.name = kind + "ClimateNetwork"
        self.queries.pop("correlation", None)
        self.queries.pop("winter_only", None)
        for n in ("correlation_weighted_average_path_length",
                  "correlation_weighted_closeness",
                  "local_correlation_weighted_vulnerability"):
            self.queries.pop(n, None)
        # (MutualInfoClimateNetwork's three mutual_information_weighted_*
        # measures always raise - they call mutual_information() without
        # data, the file-cache path of KF-C01-1 - and are left out)
        extra = {"Havlin": ["correlation_strength_weighted_average_path_"
                            "length", "correlation_strength_weighted_"
                            "closeness",
                            "correlation_lag_weighted_average_path_length",
                            "correlation_lag_weighted_closeness",
                            "local_correlation_strength_weighted_"
                            "vulnerability",
                            "local_correlation_lag_weighted_vulnerability",
                            "get_max_delay"],
                 "Spearman": ["correlation_weighted_average_path_length",
                              "correlation_weighted_closeness"],
                 "PartialCorrelation": [
                     "correlation_weighted_average_path_length",
                     "correlation_weighted_closeness"]}
        for n in extra.get(kind, []):
            self.queries[n] = call(n)
            self.tol[n] = 1e-5
        del self.mutators["set_winter_only"]
        self.mutators.pop("data_window_then_set_winter_only", None)
        if kind in ("Spearman", "MutualInfo", "PartialCorrelation"):
            self.mutators["set_winter_only"] = self.m_winter
            self.queries["winter_only"] = call("winter_only")
        if kind == "MutualInfo":
            # the default dump=True writes a file cache into the cwd; it is
            # a separate mutator so that its failure has its own signature
            self.mutators["set_winter_only"] = self.m_winter_nodump
            self.mutators["set_winter_only_dump_default"] = self.m_winter
        if kind == "Hilbert":
            self.mutators["set_directed"] = self.m_directed
            self.queries["phase_shift"] = call("phase_shift")
            self.queries["coherence"] = call("coherence")
        if kind == "Havlin":
            self.mutators["set_max_delay"] = self.m_delay
            self.queries["correlation_lag"] = call("correlation_lag")
            self.queries["correlation_strength"] = \
                call("correlation_strength")

    def init_model(self, case):
        m = TsonisFamily.init_model(self, case)
        m["directed"] = bool(case.get("directed", False))
        m["delay"] = int(case.get("delay", 2))
        return m

    def build(self, m):
        from pyunicorn.core import GeoGrid
        from pyunicorn import climate
        X = np.array(m["data"], dtype=float)
        grid = GeoGrid(np.arange(float(len(X))),
                       np.array(m["lat"], dtype=float),
                       np.array(m["lon"], dtype=float), silence_level=3)
        data = climate.ClimateData(observable=X, grid=grid, time_cycle=12,
                                   silence_level=3)
        cls = getattr(climate, self.kind + "ClimateNetwork")
        kw = dict(threshold=m["thr"], non_local=m["nl"],
                  node_weight_type=m["nwt"], silence_level=3)
        if self.kind in ("Spearman", "MutualInfo", "PartialCorrelation"):
            kw["winter_only"] = m["winter"]
        if self.kind == "Hilbert":
            kw["directed"] = m["directed"]
        if self.kind == "Havlin":
            kw["max_delay"] = m["delay"]
        return cls(data, **kw)

    def m_winter_nodump(self, o, m, arg):
        o.set_winter_only(bool(arg), dump=False)
        m["winter"] = bool(arg)

    def m_directed(self, o, m, arg):
        o.set_directed(bool(arg))
        m["directed"] = bool(arg)

    def m_delay(self, o, m, arg):
        o.set_max_delay(int(arg))
        m["delay"] = int(arg)


# ------------------------------------------------------ recurrence family

RP_MODES = ["threshold", "threshold_std", "recurrence_rate",
            "local_recurrence_rate", "adaptive_neighborhood_size"]
RP_SETTERS = {"threshold": "set_fixed_threshold",
              "threshold_std": "set_fixed_threshold_std",
              "recurrence_rate": "set_fixed_recurrence_rate",
              "local_recurrence_rate": "set_fixed_local_recurrence_rate",
              "adaptive_neighborhood_size": "set_adaptive_neighborhood_size"}
RQA = ["recurrence_matrix", "recurrence_rate", "diagline_dist",
       "vertline_dist", "white_vertline_dist", "determinism", "laminarity",
       "max_diaglength", "average_diaglength", "diag_entropy",
       "trapping_time", "max_vertlength", "mean_recurrence_time",
       "rqa_summary"]
NETQ = ["transitivity_dim_single_scale", "local_clustering_dim_single_scale",
        "degree", "local_clustering", "transitivity", "betweenness",
        "path_lengths", "nsi_degree", "average_path_length", "coreness",
        "closeness", "global_clustering", "nsi_local_clustering"]


class RPFamily(Family):
    always = ("recurrence_matrix",)

    def __init__(self, kind):
        self.kind = kind
        self.name = kind
        names = list(RQA)
        if kind != "RecurrencePlot":
            names += NETQ
        self.queries = {n: call(n) for n in names}
        if kind != "RecurrencePlot":
            for a in ("N", "n_links", "link_density", "adjacency",
                      "directed"):
                self.queries["." + a] = attr(a)
        else:
            self.queries[".N"] = attr("N")
        self.queries["distance_matrix"] = \
            lambda o, m: o.distance_matrix(m["metric"])
        self.tol = {}
        self.mutators = {"set_" + k: (lambda k: lambda o, m, a:
                                      self.m_set(o, m, k, a))(k)
                         for k in RP_MODES}
        self.mutators["assign_embedding"] = self.m_embedding
        self.mutators["assign_embedding_only"] = self.m_embedding_only
        # after a bare assignment of the embedding the recurrence matrix
        # still belongs to the old trajectory (by design, until the next
        # setter): only what is computed from the embedding is compared
        fresh = {"distance_matrix", ".N"}
        for k in list(self.queries):
            if k not in fresh:
                self.queries[k] = (lambda f: lambda o, m: None if m.get(
                    "stale_R") else f(o, m))(self.queries[k])

    def _val(self, m, mode, a):
        n = m["nstates"]
        if mode == "adaptive_neighborhood_size":
            k = 1 + int(a * 10) % max(1, (n - 1) // 2)
            if 2 * k > n - 1:
                raise Stop()
            return k
        if mode in ("recurrence_rate", "local_recurrence_rate"):
            return min(0.95, max(0.05, a))
        return 0.25 + 2.0 * a

    def init_model(self, case):
        x = np.array(case["x"], dtype=float)
        dim, tau = case.get("dim", 1), case.get("tau", 1)
        n = len(x) - (dim - 1) * tau
        m = {"x": x, "metric": case["metric"], "dim": dim, "tau": tau,
             "nstates": n, "mode": None, "val": None}
        m["mode"] = case["mode"]
        try:
            m["val"] = self._val(m, case["mode"], case["val"])
        except Stop:
            m["mode"], m["val"] = "threshold", 1.0
        return m

    def build(self, m):
        from pyunicorn.timeseries import RecurrencePlot, RecurrenceNetwork
        cls = {"RecurrencePlot": RecurrencePlot,
               "RecurrenceNetwork": RecurrenceNetwork}[self.kind]
        kw = {m["mode"]: m["val"]}
        if m["dim"] > 1:
            kw.update(dim=m["dim"], tau=m["tau"])
        return cls(m["x"].copy(), metric=m["metric"], normalize=False,
                   silence_level=3, **kw)

    def m_set(self, o, m, mode, a):
        v = self._val(m, mode, a)
        getattr(o, RP_SETTERS[mode])(v)
        m["mode"], m["val"] = mode, v
        m["stale_R"] = False

    def m_embedding_only(self, o, m, a):
        x2 = -np.roll(m["x"], 1 + int(a * 10) % 3) + 2 * m["x"].mean()
        o.embedding = np.array(self.build(dict(m, x=x2)).embedding)
        m["x"] = x2
        m["stale_R"] = True

    def m_embedding(self, o, m, a):
        """Another trajectory is assigned through the public `embedding`
        attribute and the plot re-thresholded with its current setting: the
        object is then the plot of the new series."""
        # a cyclic shift of the series followed by a reflection: another
        # trajectory with the same standard deviation (set_fixed_threshold_std
        # reads the std of `time_series`, which an assigned embedding does
        # not replace)
        x2 = -np.roll(m["x"], 1 + int(a * 10) % 3) + 2 * m["x"].mean()
        m2 = dict(m, x=x2)
        o.embedding = np.array(self.build(m2).embedding)
        m["x"] = x2
        getattr(o, RP_SETTERS[m["mode"]])(m["val"])
        m["stale_R"] = False


class SeqRPFamily(Family):
    """RecurrencePlot in the memory-saving sequential mode (sparse_rqa=True):
    no matrix is stored, the line distributions are computed from the time
    series and the public attribute `threshold` at query time - assigning
    that attribute is the only way to change the threshold of such a plot
    (the library's own cache keys list it)."""
    name = "SequentialRecurrencePlot"

    def __init__(self):
        names = ["diagline_dist", "vertline_dist", "determinism",
                 "laminarity", "max_diaglength", "average_diaglength",
                 "diag_entropy", "trapping_time", "max_vertlength"]
        self.queries = {n: call(n) for n in names}
        self.tol = {}
        self.mutators = {"assign_threshold": self.m_thr}

    def init_model(self, case):
        return {"x": np.array(case["x"], dtype=float),
                "val": 0.25 + 2.0 * case["val"]}

    def build(self, m):
        from pyunicorn.timeseries import RecurrencePlot
        return RecurrencePlot(m["x"].copy(), metric="supremum",
                              normalize=False, threshold=m["val"],
                              sparse_rqa=True, silence_level=3)

    def m_thr(self, o, m, a):
        o.threshold = 0.25 + 2.0 * a
        m["val"] = 0.25 + 2.0 * a


class CrossRPFamily(Family):
    """CrossRecurrencePlot: threshold / rate setters and the public
    x_embedded / y_embedded attributes (distance matrices are memoised)."""
    name = "CrossRecurrencePlot"
    always = ("recurrence_matrix",)

    def __init__(self):
        names = ["recurrence_matrix", "cross_recurrence_rate",
                 "manhattan_distance_matrix", "euclidean_distance_matrix",
                 "supremum_distance_matrix", "balance"]
        self.queries = {n: call(n) for n in names}
        self.queries["distance_matrix"] = \
            lambda o, m: o.distance_matrix(m["metric"])
        self.tol = {}
        self.mutators = {"set_threshold": self.m_thr,
                         "set_recurrence_rate": self.m_rate,
                         "assign_x_embedded": self.m_x,
                         "assign_y_embedded": self.m_y}

    def init_model(self, case):
        return {"x": np.array(case["x"], dtype=float),
                "y": np.array(case["y"], dtype=float),
                "metric": case["metric"], "mode": "threshold",
                "val": 0.25 + 2.0 * case["val"]}

    def build(self, m):
        from pyunicorn.timeseries import CrossRecurrencePlot
        return CrossRecurrencePlot(m["x"].copy(), m["y"].copy(),
                                   metric=m["metric"], normalize=False,
                                   silence_level=3, **{m["mode"]: m["val"]})

    def _again(self, o, m):
        if m["mode"] == "threshold":
            o.set_fixed_threshold(m["val"])
        else:
            o.set_fixed_recurrence_rate(m["val"])

    def m_thr(self, o, m, a):
        m["mode"], m["val"] = "threshold", 0.25 + 2.0 * a
        self._again(o, m)

    def m_rate(self, o, m, a):
        m["mode"], m["val"] = "recurrence_rate", min(0.95, max(0.05, a))
        self._again(o, m)

    def m_x(self, o, m, a):
        x2 = np.roll(m["x"], 1 + int(a * 10) % 3) * (1.0 + int(a * 20) % 2)
        o.x_embedded = np.array(self.build(dict(m, x=x2)).x_embedded)
        m["x"] = x2
        self._again(o, m)

    def m_y(self, o, m, a):
        y2 = np.roll(m["y"], 1 + int(a * 10) % 3) * (1.0 + int(a * 20) % 2)
        o.y_embedded = np.array(self.build(dict(m, y=y2)).y_embedded)
        m["y"] = y2
        self._again(o, m)


class InterSystemFamily(Family):
    """InterSystemRecurrenceNetwork: the two public setters (three
    thresholds / three rates) against the matrix, the rates and the
    network measures of a newly built object."""
    name = "InterSystemRecurrenceNetwork"
    always = (".adjacency",)

    def __init__(self):
        names = ["inter_system_recurrence_matrix",
                 "internal_recurrence_rates", "cross_recurrence_rate",
                 "cross_global_clustering_xy", "cross_global_clustering_yx",
                 "cross_transitivity_xy", "cross_transitivity_yx", "degree",
                 "local_clustering", "path_lengths"]
        self.queries = {n: call(n) for n in names}
        for a in ("N", "n_links", "link_density", "adjacency", "threshold"):
            self.queries["." + a] = attr(a)
        self.tol = {}
        self.mutators = {"set_threshold": self.m_thr,
                         "set_recurrence_rate": self.m_rate}

    def init_model(self, case):
        return {"x": np.array(case["x"], dtype=float),
                "y": np.array(case["y"], dtype=float),
                "metric": case["metric"], "mode": "threshold",
                "val": self._thr(case["val"])}

    @staticmethod
    def _thr(a):
        v = 0.25 + 2.0 * a
        return (v, 1.25 * v, 0.75 * v)

    @staticmethod
    def _rate(a):
        r = min(0.9, max(0.05, a))
        return (r, min(0.95, 1.1 * r), 0.9 * r)

    def build(self, m):
        from pyunicorn.timeseries import InterSystemRecurrenceNetwork
        return InterSystemRecurrenceNetwork(
            m["x"].copy(), m["y"].copy(), metric=m["metric"],
            normalize=False, silence_level=3, **{m["mode"]: m["val"]})

    def m_thr(self, o, m, a):
        m["mode"], m["val"] = "threshold", self._thr(a)
        o.set_fixed_threshold(m["val"])

    def m_rate(self, o, m, a):
        m["mode"], m["val"] = "recurrence_rate", self._rate(a)
        o.set_fixed_recurrence_rate(m["val"])


class JointFamily(RPFamily):
    def __init__(self):
        RPFamily.__init__(self, "RecurrenceNetwork")
        self.kind = self.name = "JointRecurrenceNetwork"
        for k in ("set_local_recurrence_rate",
                  "set_adaptive_neighborhood_size", "assign_embedding",
                  "assign_embedding_only"):
            self.mutators.pop(k, None)
        self.queries.pop("distance_matrix", None)
        self.queries.pop("white_vertline_dist", None)
        self.queries.pop("transitivity_dim_single_scale", None)
        self.queries.pop("local_clustering_dim_single_scale", None)

    def _val(self, m, mode, a):
        v = RPFamily._val(self, m, mode, a)
        return (v, v * 1.25) if mode != "recurrence_rate" else \
            (v, min(0.95, v * 1.1))

    def init_model(self, case):
        m = RPFamily.init_model(self, dict(case, dim=1, tau=1))
        if m["mode"] not in ("threshold", "threshold_std",
                             "recurrence_rate"):
            m["mode"] = "threshold"
            m["val"] = (1.0, 1.25)
        elif not isinstance(m["val"], tuple):
            m["val"] = (m["val"], m["val"])
        m["y"] = np.array(case["y"], dtype=float)[:len(m["x"])]
        m["x"] = m["x"][:len(m["y"])]
        m["lag"] = case.get("lag", 0)
        m["nstates"] = len(m["x"]) - abs(m["lag"])
        return m

    def build(self, m):
        from pyunicorn.timeseries import JointRecurrenceNetwork
        return JointRecurrenceNetwork(
            m["x"].copy(), m["y"].copy(), metric=(m["metric"], m["metric"]),
            normalize=False, lag=m["lag"], silence_level=3,
            **{m["mode"]: m["val"]})


# ------------------------------------------------------------- ResNetwork

class ResFamily(Family):
    name = "ResNetwork"

    def __init__(self):
        names = ["admittive_degree", "average_neighbors_admittive_degree",
                 "local_admittive_clustering", "global_admittive_clustering",
                 "average_effective_resistance",
                 "diameter_effective_resistance",
                 "edge_current_flow_betweenness", "get_admittance", "get_R",
                 "admittance_lapacian", "degree", "nsi_degree"]
        self.queries = {n: call(n) for n in names}
        self.queries["effective_resistance(0,n-1)"] = \
            lambda o, m: o.effective_resistance(0, m["n"] - 1)
        self.queries["vertex_current_flow_betweenness(0)"] = \
            call("vertex_current_flow_betweenness", 0)
        self.queries["effective_resistance_closeness_centrality(0)"] = \
            call("effective_resistance_closeness_centrality", 0)
        self.queries[".resistances"] = attr("resistances")
        self.tol = {k: 1e-4 for k in self.queries}
        self.mutators = {"update_resistances": self.m_upd}

    def init_model(self, case):
        g = case["g"]
        A = G.adj(g).astype(int)
        return {"n": g["n"], "A": A,
                "R": np.array(case["R"], dtype=float) * (A != 0)}

    def build(self, m):
        from pyunicorn.core import ResNetwork
        return ResNetwork(m["R"].copy(), adjacency=m["A"].copy(),
                          silence_level=3)

    def m_upd(self, o, m, arg):
        n = m["n"]
        vals = (list(arg) * (n * n))[:n * n]
        R = np.array(vals, dtype=float).reshape(n, n)
        R = (np.triu(R, 1) + np.triu(R, 1).T) * (m["A"] != 0)
        if int(round(sum(arg) * 4)) % 2:
            # the caller edits the array the object hands out (or was given)
            # in place and passes the same object back
            held = o.resistances
            held[...] = R
            o.update_resistances(held)
        else:
            o.update_resistances(R.copy())
        m["R"] = R


# ------------------------------------------------------------- Surrogates

class SurFamily(Family):
    name = "Surrogates"

    def __init__(self):
        self.queries = {
            "original_data_fft": call("original_data_fft"),
            "twins(1.0,1)": call("twins", 1.0, 1),
            "twins(0.5,min_dist=2)": call("twins", 0.5, min_dist=2),
            ".embedding": attr("embedding"),
            ".original_data": attr("original_data"),
        }
        self.tol = {}
        self.mutators = {"embedding": self.m_emb,
                         "twin_surrogates": self.m_twin,
                         "normalize_original_data": self.m_norm}

    def init_model(self, case):
        X = np.array(case["X"], dtype=float)
        return {"X": X, "emb": None, "normalized": False}

    def build(self, m):
        from pyunicorn.timeseries import Surrogates
        s = Surrogates(m["X"].copy(), silence_level=3)
        if m["normalized"]:
            s.normalize_original_data()
        if m["emb"] is not None:
            s.embedding = m["emb"].copy()
        return s

    @staticmethod
    def _embed(m, dim, tau):
        """(N, n_time, dim) delay embedding of the model's current data."""
        X = m["X"]
        if m["normalized"]:
            X = (X - X.mean(axis=1, keepdims=True)) \
                / X.std(axis=1, keepdims=True)
        n = X.shape[1] - (dim - 1) * tau
        if n < 3:
            raise Stop()
        return np.stack([X[:, i * tau:i * tau + n] for i in range(dim)],
                        axis=2)

    def m_emb(self, o, m, arg):
        emb = self._embed(m, int(arg[0]), int(arg[1]))
        o.embedding = emb.copy()
        m["emb"] = emb

    def m_twin(self, o, m, arg):
        #  twin_surrogates() (re-)embeds the *current* data as a documented
        #  step of the algorithm: afterwards the object's embedding and its
        #  twins are those of a new object given that embedding
        dim, tau = int(arg[0]), int(arg[1])
        emb = self._embed(m, dim, tau)
        seed_library_rngs(dim, tau)
        o.twin_surrogates(dim, tau, float(arg[2]), min_dist=1)
        m["emb"] = emb

    def m_norm(self, o, m, arg):
        if m["normalized"] or (m["X"].std(axis=1) == 0).any():
            raise Stop()
        o.normalize_original_data()
        m["normalized"] = True



# ------------------------------------------------------------ ClimateData

class DataFamily(Family):
    """ClimateData / Data: window changes (values against a numpy model are
    decided by C13; here: equality with a freshly constructed object)."""
    name = "ClimateData"

    def __init__(self):
        names = ["observable", "anomaly", "phase_mean", "phase_indices",
                 "window", "shuffled_anomaly" if False else "observable"]
        self.queries = {n: call(n) for n in set(names)}
        self.queries["grid.time"] = lambda o, m: o.grid.grid()["time"]
        self.queries["grid.lat"] = lambda o, m: o.grid.lat_sequence()
        self.queries["grid.lon"] = lambda o, m: o.grid.lon_sequence()
        self.queries["grid.N"] = lambda o, m: o.grid.N
        self.queries["grid.distance"] = lambda o, m: o.grid.distance()
        self.queries["anomaly_selected_months([0,1])"] = \
            call("anomaly_selected_months", [0, 1])
        self.tol = {"grid.distance": 1e-6}
        self.mutators = {"set_window": self.m_win,
                         "set_global_window": self.m_glob}

    def init_model(self, case):
        X = np.array(case["X"], dtype=float)
        return {"X": X, "lat": case["lat"], "lon": case["lon"],
                "cycle": case["cycle"], "anom": bool(case["anom"]),
                "win": None}

    def build(self, m):
        from pyunicorn.core import GeoGrid
        from pyunicorn.climate import ClimateData
        X = m["X"]
        grid = GeoGrid(np.arange(float(len(X))),
                       np.array(m["lat"], dtype=float),
                       np.array(m["lon"], dtype=float), silence_level=3)
        return ClimateData(observable=X.copy(), grid=grid,
                           time_cycle=m["cycle"], anomalies=m["anom"],
                           window=m["win"], silence_level=3)

    def m_win(self, o, m, arg):
        T = len(m["X"])
        lat = sorted(m["lat"])
        lon = sorted(m["lon"])
        t0 = int(arg[0]) % T
        t1 = min(T - 1, t0 + 1 + int(arg[1]) % T)
        a = int(arg[2]) % len(lat)
        b = int(arg[3]) % len(lon)
        win = {"time_min": float(t0), "time_max": float(t1),
               "lat_min": float(lat[0]), "lat_max": float(lat[a]),
               "lon_min": float(lon[0]), "lon_max": float(lon[b])}
        la, lo = np.asarray(m["lat"]), np.asarray(m["lon"])
        if not ((la <= win["lat_max"]) & (lo <= win["lon_max"])).any():
            # no node inside: set_window refuses such a window (ValueError)
            raise Stop()
        o.set_window(win)
        m["win"] = win

    def m_glob(self, o, m, arg):
        o.set_global_window()
        m["win"] = None


FAMILIES = {}


def fam(name):
    if name not in FAMILIES:
        FAMILIES[name] = {
            "Network": lambda: NetFamily(False),
            "InteractingNetworks": lambda: NetFamily(True),
            "VisibilityGraph": VisFamily,
            "GeoNetwork": GeoFamily,
            "ClimateNetwork": ClimateFamily,
            "TsonisClimateNetwork": TsonisFamily,
            "CoupledClimateNetwork": CoupledClimateFamily,
            "RecurrencePlot": lambda: RPFamily("RecurrencePlot"),
            "RecurrenceNetwork": lambda: RPFamily("RecurrenceNetwork"),
            "JointRecurrenceNetwork": JointFamily,
            "SequentialRecurrencePlot": SeqRPFamily,
            "CrossRecurrencePlot": CrossRPFamily,
            "InterSystemRecurrenceNetwork": InterSystemFamily,
            "ResNetwork": ResFamily,
            "Surrogates": SurFamily,
            "ClimateData": DataFamily,
            "SpearmanClimateNetwork":
                lambda: DerivedClimateFamily("Spearman"),
            "MutualInfoClimateNetwork":
                lambda: DerivedClimateFamily("MutualInfo"),
            "HilbertClimateNetwork":
                lambda: DerivedClimateFamily("Hilbert"),
            "HavlinClimateNetwork":
                lambda: DerivedClimateFamily("Havlin"),
            "PartialCorrelationClimateNetwork":
                lambda: DerivedClimateFamily("PartialCorrelation"),
            "RainfallClimateNetwork":
                lambda: DerivedClimateFamily("Rainfall"),
        }[name]()
    return FAMILIES[name]


def oracle(case, rec):
    # cases are independent: MutualInfoClimateNetwork keeps a file cache
    # (mutual_information_*.data) in the working directory, and the failing
    # dump of KF-C01-1 leaves a truncated one behind
    import glob
    for f in glob.glob("*.data"):
        os.remove(f)
    run_history(fam(case["family"]), case, rec)


# -------------------------------------------------------------- generators

def ops_strategy(family_name, mut_args, n_min=3, n_max=14, max_q=4):
    """History: queries drawn from the family's table; at most `max_q`
    distinct patterns per history so that repeated patterns around mutators
    are frequent."""
    f = fam(family_name)
    qnames = sorted(f.queries)

    @st.composite
    def s(draw):
        pats = draw(st.lists(st.sampled_from(qnames), min_size=1,
                             max_size=max_q, unique=True))
        n = draw(st.integers(n_min, n_max))
        ops = []
        last = {}   # a mutator is often called again with the argument it
        #             had before (memos keyed on arguments, not on state)
        for _ in range(n):
            if draw(st.integers(0, 2)) == 0:
                mname = draw(st.sampled_from(sorted(mut_args)))
                if mname in last and draw(st.integers(0, 2)) == 0:
                    arg = last[mname]
                else:
                    arg = draw(mut_args[mname])
                last[mname] = arg
                ops.append(["m", mname, arg])
            else:
                ops.append(["q", draw(st.sampled_from(pats))])
        return ops
    return s()


def _graph_arg(n, directed):
    return G.random_graph(n, n, directed)


@st.composite
def net_cases(draw, family):
    directed = draw(st.integers(0, 2)) == 0 and family != "VisibilityGraph"
    n = draw(st.integers(4, 9))
    g = draw(G.graphs(n, n, directed))
    vals = st.lists(st.integers(1, 12).map(lambda k: k / 4.0), min_size=4,
                    max_size=12)
    margs = {
        "adjacency_dense": _graph_arg(n, directed),
        "adjacency_sparse": _graph_arg(n, directed),
        "set_edge_list": _graph_arg(n, directed),
        "node_weights": st.one_of(vals, vals, vals, st.none()),
        "set_link_attribute": vals,
        "del_link_attribute": st.none(),
        "randomly_rewire": st.tuples(st.integers(1, 5), st.integers(0, 999),
                                     st.integers(0, 999)).map(list),
    }
    if family == "VisibilityGraph":
        margs = {k: margs[k] for k in ("node_weights", "set_link_attribute",
                                       "del_link_attribute")}
        x = draw(st.lists(st.integers(0, 9), min_size=5, max_size=10))
        return {"family": family, "x": x,
                "ops": draw(ops_strategy(family, margs))}
    return {"family": family, "g": g, "w": draw(G.node_weights(n)),
            "W": draw(st.one_of(st.none(), G.link_attr(n, directed))),
            "ops": draw(ops_strategy(family, margs))}


def _coords(n):
    return (st.lists(st.integers(-17, 17).map(lambda k: 5.0 * k),
                     min_size=n, max_size=n),
            st.lists(st.integers(-35, 35).map(lambda k: 5.0 * k),
                     min_size=n, max_size=n))


@st.composite
def geo_cases(draw, rewire=False):
    n = draw(st.integers(5, 8) if rewire else st.integers(3, 8))
    directed = draw(st.integers(0, 3)) == 0 and not rewire
    g = draw(G.random_graph(n, n, False) if rewire
             else G.graphs(n, n, directed))
    la, lo = _coords(n)
    nwts = st.sampled_from([None, "surface", "irrigation"])
    rnd = st.tuples(st.integers(0, 17), st.integers(0, 2 ** 31 - 1),
                    st.integers(0, 2 ** 31 - 1)).map(list)
    margs = {"set_node_weight_type": nwts,
             "adjacency_dense": _graph_arg(n, directed),
             "node_weights": st.lists(st.integers(1, 12).map(
                 lambda k: k / 4.0), min_size=3, max_size=8),
             "rewire_geomodel": rnd, "set_random_links_by_distance": rnd}
    if rewire:      # histories of the randomising mutators ...
        margs = {k: margs[k] for k in ("rewire_geomodel", "rewire_geomodel",
                                       "set_random_links_by_distance")}
    else:           # ... and of the deterministic ones, kept apart
        margs = {k: margs[k] for k in ("set_node_weight_type",
                                       "adjacency_dense", "node_weights")}
    return {"family": "GeoNetwork", "g": g, "lat": draw(la),
            "lon": draw(lo), "nwt": draw(nwts),
            "ops": draw(ops_strategy("GeoNetwork", margs))}


@st.composite
def climate_cases(draw):
    n = draw(st.integers(3, 7))
    la, lo = _coords(n)
    S = draw(st.lists(st.integers(0, 20).map(lambda k: k / 20.0),
                      min_size=n * n, max_size=n * n))
    thr = st.integers(0, 19).map(lambda k: k / 20.0 + 0.025)
    margs = {"set_threshold": thr,
             "set_link_density": st.integers(1, 9).map(lambda k: k / 10.0),
             "set_non_local": st.booleans()}
    return {"family": "ClimateNetwork", "S": S, "lat": draw(la),
            "lon": draw(lo), "thr": draw(thr), "nl": draw(st.booleans()),
            "nwt": draw(st.sampled_from([None, "surface", "irrigation"])),
            "ops": draw(ops_strategy("ClimateNetwork", margs))}


@st.composite
def coupled_climate_cases(draw):
    case = draw(climate_cases())
    n = len(case["lat"])
    case["family"] = "CoupledClimateNetwork"
    case["n1"] = draw(st.integers(1, n - 1))
    thr = st.integers(0, 19).map(lambda k: k / 20.0 + 0.025)
    margs = {"set_threshold": thr,
             "set_link_density": st.integers(1, 9).map(lambda k: k / 10.0),
             "set_non_local": st.booleans()}
    case["ops"] = draw(ops_strategy("CoupledClimateNetwork", margs))
    return case


@st.composite
def tsonis_cases(draw):
    n = draw(st.integers(3, 5))
    T = 24
    la, lo = _coords(n)
    data = draw(st.lists(st.lists(st.integers(-8, 8).map(lambda k: k / 4.0),
                                  min_size=n, max_size=n),
                         min_size=T, max_size=T))
    thr = st.integers(0, 19).map(lambda k: k / 20.0 + 0.025)
    margs = {"set_threshold": thr,
             "set_link_density": st.integers(1, 9).map(lambda k: k / 10.0),
             "set_non_local": st.booleans(),
             "set_winter_only": st.booleans(),
             "data_window_then_set_winter_only": st.integers(0, 2)}
    return {"family": "TsonisClimateNetwork", "data": data, "lat": draw(la),
            "lon": draw(lo), "thr": draw(thr), "nl": draw(st.booleans()),
            "nwt": draw(st.sampled_from([None, "surface"])),
            "winter": draw(st.booleans()),
            "ops": draw(ops_strategy("TsonisClimateNetwork", margs,
                                     n_max=10))}


@st.composite
def rp_cases(draw, kind):
    n = draw(st.integers(7, 16))
    x = draw(st.lists(st.integers(-12, 12).map(lambda k: k / 4.0),
                      min_size=n, max_size=n))
    a = st.integers(0, 19).map(lambda k: k / 20.0 + 0.02)
    modes = RP_MODES if kind != "JointRecurrenceNetwork" else RP_MODES[:3]
    margs = {"set_" + k: a for k in modes}
    if kind != "JointRecurrenceNetwork":
        margs["assign_embedding"] = a
        margs["assign_embedding_only"] = a
    c = {"family": kind, "x": x,
         "metric": draw(st.sampled_from(["supremum", "euclidean",
                                         "manhattan"])),
         "mode": draw(st.sampled_from(modes)), "val": draw(a),
         "ops": draw(ops_strategy(kind, margs))}
    if kind == "JointRecurrenceNetwork":
        c["y"] = draw(st.lists(st.integers(-12, 12).map(lambda k: k / 4.0),
                               min_size=n, max_size=n))
        c["lag"] = draw(st.integers(-2, 2))
    elif draw(st.integers(0, 3)) == 0:
        c["dim"], c["tau"] = 2, draw(st.integers(1, 2))
    return c


@st.composite
def cross_rp_cases(draw):
    n = draw(st.integers(5, 12))
    k = draw(st.integers(4, 10))
    vals = st.integers(-12, 12).map(lambda v: v / 4.0)
    a = st.integers(0, 19).map(lambda v: v / 20.0 + 0.02)
    margs = {"set_threshold": a, "set_recurrence_rate": a,
             "assign_x_embedded": a, "assign_y_embedded": a}
    return {"family": "CrossRecurrencePlot",
            "x": draw(st.lists(vals, min_size=n, max_size=n)),
            "y": draw(st.lists(vals, min_size=k, max_size=k)),
            "metric": draw(st.sampled_from(["supremum", "euclidean",
                                            "manhattan"])),
            "val": draw(a),
            "ops": draw(ops_strategy("CrossRecurrencePlot", margs))}


@st.composite
def inter_system_cases(draw):
    n = draw(st.integers(5, 12))
    k = draw(st.integers(4, 10))
    vals = st.integers(-12, 12).map(lambda v: v / 4.0)
    a = st.integers(0, 19).map(lambda v: v / 20.0 + 0.02)
    margs = {"set_threshold": a, "set_recurrence_rate": a}
    return {"family": "InterSystemRecurrenceNetwork",
            "x": draw(st.lists(vals, min_size=n, max_size=n)),
            "y": draw(st.lists(vals, min_size=k, max_size=k)),
            "metric": draw(st.sampled_from(["supremum", "euclidean",
                                            "manhattan"])),
            "val": draw(a),
            "ops": draw(ops_strategy("InterSystemRecurrenceNetwork", margs))}


@st.composite
def seq_rp_cases(draw):
    n = draw(st.integers(7, 18))
    x = draw(st.lists(st.integers(-12, 12).map(lambda k: k / 4.0),
                      min_size=n, max_size=n))
    a = st.integers(0, 19).map(lambda k: k / 20.0 + 0.02)
    return {"family": "SequentialRecurrencePlot", "x": x, "val": draw(a),
            "ops": draw(ops_strategy("SequentialRecurrencePlot",
                                     {"assign_threshold": a}))}


@st.composite
def res_cases(draw):
    g = draw(G.connected_graph(3, 7))
    n = g["n"]
    vals = st.lists(st.integers(1, 16).map(lambda k: k / 4.0), min_size=5,
                    max_size=12)
    return {"family": "ResNetwork", "g": g,
            "R": draw(G.link_attr(n, False, lo=1, hi=16)),
            "ops": draw(ops_strategy("ResNetwork",
                                     {"update_resistances": vals}))}


@st.composite
def sur_cases(draw):
    N = draw(st.integers(1, 2))
    T = draw(st.integers(8, 16))
    X = draw(st.lists(st.lists(st.integers(-12, 12).map(lambda k: k / 4.0),
                               min_size=T, max_size=T, unique=True),
                      min_size=N, max_size=N))
    margs = {"embedding": st.tuples(st.integers(1, 3),
                                    st.integers(1, 2)).map(list),
             "twin_surrogates": st.tuples(
                 st.integers(1, 3), st.integers(1, 2),
                 st.sampled_from([0.5, 1.0, 2.0])).map(list),
             "normalize_original_data": st.none()}
    return {"family": "Surrogates", "X": X,
            "ops": draw(ops_strategy("Surrogates", margs))}



@st.composite
def data_cases(draw):
    n = draw(st.integers(2, 5))
    T = draw(st.integers(6, 24))
    la, lo = _coords(n)
    X = draw(st.lists(st.lists(st.integers(-8, 8).map(lambda k: k / 4.0),
                               min_size=n, max_size=n),
                      min_size=T, max_size=T))
    margs = {"set_window": st.tuples(*[st.integers(0, 30)] * 4).map(list),
             "set_global_window": st.none()}
    return {"family": "ClimateData", "X": X, "lat": draw(la),
            "lon": draw(lo), "cycle": draw(st.sampled_from([1, 2, 3, 12])),
            "anom": draw(st.integers(0, 3)) == 0,
            "ops": draw(ops_strategy("ClimateData", margs))}



@st.composite
def derived_cases(draw):
    kind = draw(st.sampled_from(["Spearman", "MutualInfo", "Hilbert",
                                 "Havlin", "PartialCorrelation", "Rainfall"]))
    fam_name = kind + "ClimateNetwork"
    n = draw(st.integers(3, 5))
    T = 24
    la, lo = _coords(n)
    # distinct, non-constant columns (degenerate data is C10's business)
    data = draw(st.lists(st.lists(st.integers(-40, 40).map(
        lambda k: k / 8.0), min_size=n, max_size=n), min_size=T, max_size=T))
    for t in range(T):
        for i in range(n):
            data[t][i] += ((7 * t + 3 * i) % 5) / 64.0 + (t % 12) / 8.0
    thr = st.integers(0, 19).map(lambda k: k / 20.0 + 0.025)
    margs = {"set_threshold": thr,
             "set_link_density": st.integers(1, 9).map(lambda k: k / 10.0),
             "set_non_local": st.booleans()}
    if kind in ("Spearman", "MutualInfo", "PartialCorrelation"):
        margs["set_winter_only"] = st.booleans()
    if kind == "MutualInfo" and draw(st.integers(0, 7)) == 0:
        margs["set_winter_only_dump_default"] = st.booleans()
    if kind == "Hilbert":
        margs["set_directed"] = st.booleans()
    if kind == "Havlin":
        margs["set_max_delay"] = st.integers(1, 4)
    return {"family": fam_name, "data": data, "lat": draw(la),
            "lon": draw(lo), "thr": draw(thr), "nl": draw(st.booleans()),
            "nwt": draw(st.sampled_from([None, "surface"])),
            "winter": draw(st.booleans()), "directed": draw(st.booleans()),
            "delay": draw(st.integers(1, 3)),
            "ops": draw(ops_strategy(fam_name, margs, n_max=10))}


def _sub(name, gen, q, t):
    return SubCheck(name, oracle, gen=gen, quick=q, thorough=t)


SUBCHECKS = [
    _sub("network", lambda: net_cases("Network"), (8, 120), (16, 1500)),
    _sub("interacting", lambda: net_cases("InteractingNetworks"), (4, 100),
         (8, 1200)),
    _sub("visibility", lambda: net_cases("VisibilityGraph"), (2, 60),
         (4, 800)),
    _sub("geo", geo_cases, (3, 100), (8, 1000)),
    _sub("geo_rewire", lambda: geo_cases(rewire=True), (3, 80), (8, 800)),
    _sub("climate", climate_cases, (4, 120), (8, 1200)),
    _sub("tsonis", tsonis_cases, (3, 60), (8, 600)),
    _sub("coupled_climate", coupled_climate_cases, (3, 60), (8, 600)),
    _sub("recurrence_plot", lambda: rp_cases("RecurrencePlot"), (3, 120),
         (8, 1200)),
    _sub("recurrence_network", lambda: rp_cases("RecurrenceNetwork"),
         (4, 100), (8, 1200)),
    _sub("joint_recurrence_network",
         lambda: rp_cases("JointRecurrenceNetwork"), (3, 80), (8, 800)),
    _sub("sequential_recurrence_plot", seq_rp_cases, (2, 80), (4, 800)),
    _sub("cross_recurrence_plot", cross_rp_cases, (2, 80), (4, 800)),
    _sub("inter_system_recurrence_network", inter_system_cases, (2, 80),
         (4, 800)),
    _sub("resistive", res_cases, (2, 80), (8, 800)),
    _sub("surrogates", sur_cases, (4, 150), (8, 2000)),
    _sub("climate_data", data_cases, (2, 100), (4, 1500)),
    _sub("derived_climate", derived_cases, (4, 40), (8, 500)),
]


# ---------------------------------------------------------------------------
# systematic pair coverage: every (mutator, query pattern) of every family in
# a short canonical history  q, m, q, m', q  on fixed base objects

def _ring(n, extra, directed=False):
    e = [[i, (i + 1) % n] for i in range(n)] + extra
    if not directed:
        e = sorted({tuple(sorted(x)) for x in e})
    return {"n": n, "directed": directed, "edges": [list(x) for x in e]}


_G6 = _ring(6, [[0, 3], [1, 4]])
_G6B = {"n": 6, "directed": False,
        "edges": [[0, 1], [0, 2], [1, 2], [2, 3], [3, 4]]}
_D5 = {"n": 5, "directed": True,
       "edges": [[0, 1], [1, 0], [1, 2], [2, 3], [3, 1], [3, 4], [4, 0]]}
_D5B = {"n": 5, "directed": True,
        "edges": [[0, 2], [2, 0], [1, 2], [2, 4], [4, 3], [3, 0]]}
_W6 = [1.0, 0.5, 2.0, 1.5, 0.75, 1.25]
_VALS = [[0.5, 1.25, 2.0, 0.75, 3.0, 1.5, 2.5], [2.0, 0.25, 1.0, 1.75]]


def _attr6(n, directed, salt):
    W = np.zeros((n, n))
    for i in range(n):
        for j in range(n):
            if i != j:
                a, b = (i, j) if directed or i < j else (j, i)
                W[i, j] = ((5 * a + 3 * b + salt) % 9 + 1) / 2.0
    return W.tolist()


def _pair_bases():
    lat6 = [-60.0, -30.0, 0.0, 20.0, 45.0, 75.0]
    lon6 = [-150.0, -80.0, -10.0, 40.0, 100.0, 170.0]
    S6 = [((7 * i + 3) % 20) / 20.0 for i in range(36)]
    x12 = [0.0, 1.0, 2.5, 1.5, 0.5, -1.0, -2.0, -0.5, 1.0, 2.0, 0.25, -1.5]
    y12 = [1.0, 0.0, -1.0, 0.5, 2.0, 1.5, -0.5, -2.0, 0.0, 1.0, 2.5, 0.75]
    data = [[((3 * t + 5 * i) % 11 - 5) / 4.0 + (t % 12) / 6.0
             for i in range(4)] for t in range(24)]
    out = []
    for fam_name, g1, g2 in (("Network", _G6, _G6B), ("Network", _D5, _D5B),
                             ("InteractingNetworks", _G6, _G6B)):
        n, d = g1["n"], g1["directed"]
        margs = {"adjacency_dense": [g2, g1], "adjacency_sparse": [g2, g1],
                 "set_edge_list": [g2, g1], "node_weights": [None] + _VALS,
                 "set_link_attribute": _VALS, "del_link_attribute": [None],
                 "randomly_rewire": [[3, 5, 7], [2, 11, 13]]}
        out.append(({"family": fam_name, "g": g1, "w": _W6[:n],
                     "W": _attr6(n, d, 1)}, margs))
    out.append(({"family": "VisibilityGraph",
                 "x": [3, 1, 4, 1, 5, 9, 2, 6]},
                {"node_weights": _VALS, "set_link_attribute": _VALS,
                 "del_link_attribute": [None]}))
    out.append(({"family": "GeoNetwork", "g": _G6, "lat": lat6, "lon": lon6,
                 "nwt": "surface"},
                {"set_node_weight_type": [None, "irrigation", "surface"],
                 "adjacency_dense": [_G6B, _G6], "node_weights": _VALS}))
    out.append(({"family": "ClimateNetwork", "S": S6, "lat": lat6,
                 "lon": lon6, "thr": 0.425, "nl": False, "nwt": "surface"},
                {"set_threshold": [0.625, 0.225], "set_link_density":
                 [0.3, 0.7], "set_non_local": [True, False]}))
    out.append(({"family": "TsonisClimateNetwork", "data": data,
                 "lat": lat6[:4], "lon": lon6[:4], "thr": 0.325, "nl": False,
                 "nwt": "surface", "winter": False},
                {"set_threshold": [0.525, 0.125], "set_link_density":
                 [0.4, 0.8], "set_non_local": [True, False],
                 "set_winter_only": [True, False],
                 "data_window_then_set_winter_only": [0, 2]}))
    for kind in ("RecurrencePlot", "RecurrenceNetwork",
                 "JointRecurrenceNetwork"):
        modes = RP_MODES if kind != "JointRecurrenceNetwork" else RP_MODES[:3]
        c = {"family": kind, "x": x12, "metric": "supremum",
             "mode": "threshold", "val": 0.3}
        if kind == "JointRecurrenceNetwork":
            c.update(y=y12, lag=1)
        mm = {"set_" + k: [0.62, 0.27] for k in modes}
        if kind != "JointRecurrenceNetwork":
            mm["assign_embedding"] = [0.31, 0.77]
            mm["assign_embedding_only"] = [0.52, 0.13]
        out.append((c, mm))
    out.append(({"family": "CrossRecurrencePlot", "x": x12, "y": y12[:9],
                 "metric": "supremum", "val": 0.3},
                {"set_threshold": [0.62, 0.27],
                 "set_recurrence_rate": [0.4, 0.7],
                 "assign_x_embedded": [0.31, 0.77],
                 "assign_y_embedded": [0.52, 0.13]}))
    out.append(({"family": "SequentialRecurrencePlot", "x": x12, "val": 0.3},
                {"assign_threshold": [0.62, 0.27]}))
    out.append(({"family": "ResNetwork", "g": _G6,
                 "R": _attr6(6, False, 2)},
                {"update_resistances": _VALS}))
    out.append(({"family": "ClimateData", "X": data, "lat": lat6[:4],
                 "lon": lon6[:4], "cycle": 12, "anom": False},
                {"set_window": [[2, 9, 1, 2], [0, 30, 2, 1]],
                 "set_global_window": [None]}))
    out.append(({"family": "Surrogates", "X": [x12, y12]},
                {"embedding": [[2, 1], [3, 2]],
                 "twin_surrogates": [[2, 1, 1.0], [3, 2, 0.5]],
                 "normalize_original_data": [None]}))
    return out


def enum_pairs(tier):
    for base, margs in _pair_bases():
        f = fam(base["family"])
        mnames = sorted(margs)
        for q in sorted(f.queries):
            for i, m in enumerate(mnames):
                a = margs[m]
                m2 = mnames[(i + 1) % len(mnames)]
                a2 = margs[m2]
                ops = [["q", q], ["m", m, a[0]], ["q", q],
                       ["m", m2, a2[-1]], ["q", q],
                       ["m", m, a[-1]], ["q", q]]
                yield dict(base, ops=ops)


SUBCHECKS.append(SubCheck("pairs", oracle, enum=enum_pairs, quick=(12, None),
                          thorough=(12, None)))


def enum_returns(tier):
    """m(a), q, m'(a'), m(a) again, q - for every ordered pair of distinct
    mutators and every query: a mutator called again with the arguments it
    had before must take the state changed in between into account."""
    for base, margs in _pair_bases():
        f = fam(base["family"])
        mnames = sorted(margs)
        for q in sorted(f.queries):
            for m in mnames:
                for m2 in mnames:
                    if m2 == m:
                        continue
                    for a in (margs[m][0], margs[m][-1]):
                        ops = [["m", m, a], ["q", q], ["m", m2, margs[m2][0]],
                               ["m", m, a], ["q", q]]
                        yield dict(base, ops=ops)
                        if tier == "quick":
                            break


SUBCHECKS.append(SubCheck("returns", oracle, enum=enum_returns,
                          quick=(12, None), thorough=(12, None)))
