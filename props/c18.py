"""C18 - resistive-network quantities obey circuit laws.

Reference (vp/ref/circuits.py): Kirchhoff's laws solved on the *grounded*
admittance Laplacian (one node removed, plain ``numpy.linalg.solve``; exact
``fractions`` elimination for the series-parallel circuits), never a
pseudo-inverse.  The current-flow betweenness sums are evaluated from the node
potentials of every unit current s -> t exactly as the docstrings define them.

Tolerances: float64 quantities (effective resistance, admittance, degree,
clustering) 1e-9 relative to max(1, |value|, largest effective resistance in
the network) - the library forms R_aa - R_ab - R_ba + R_bb from a
pseudo-inverse whose entries are of the size of the largest effective
resistance.  Current-flow betweenness goes through float32 copies of the
admittance and of R: 1e-4 relative (DESIGN 2.9 / C18) plus the analytic
cancellation term 2e-6 * max|ER| * (admittive degree).
"""
import numpy as np
from hypothesis import strategies as st

from vp.pbt import SubCheck
from vp.ref import circuits as C

PROPERTY = "C18"
RULE = ("network: connected graph on 2..10 nodes built as a random spanning "
        "tree plus extra links under a random relabelling, symmetric "
        "positive resistances (dyadic k/4 in [0.25, 16], floats in "
        "[0.1, 20], or all equal), adjacency passed explicitly or derived "
        "from the resistances; series_parallel: a random series-parallel "
        "expression tree (<= 8 resistors) realised as a graph, two-terminal "
        "resistance evaluated exactly from the tree; complex: the same "
        "graphs with impedances Re > 0, Im of either sign; history: 1-5 "
        "update_resistances calls (new values or a global scale factor) on "
        "one object, each followed by a drawn sequence of queries that is "
        "also run on a freshly built twin. NON-TRIVIAL = the graph has a "
        "cycle and the resistances are not all equal (series_parallel: the "
        "tree contains a parallel node); distinct = hash of the whole case.")
ASSUMPTIONS = [
    "graphs are connected, undirected, simple; resistance matrices are "
    "symmetric and positive exactly on the links (update_resistances keeps "
    "the support: the adjacency is fixed at construction)",
    "complex impedances have positive real part (passive elements), so the "
    "grounded Laplacian is non-singular; 'metric' clauses and the compiled "
    "betweenness kernels (float32 real input) are only required for real "
    "resistances",
    "vertex current-flow betweenness: the reading consistent with the "
    "documented example values is used (pairs with i = s or i = t contribute "
    "nothing)",
    "float32 kernels: 1e-4 relative plus 2e-6*max|ER|*admittive degree",
]

VCFB_RTOL = 1e-4


# ------------------------------------------------------------------ building

def z_matrix(case, values=None, imag=None):
    n = case["n"]
    vals = case["r"] if values is None else values
    im = case.get("x") if imag is None else imag
    cx = im is not None
    Z = np.zeros((n, n), dtype=complex if cx else float)
    for k, (i, j) in enumerate(case["edges"]):
        v = vals[k] / float(case["den"]) if case["den"] else float(vals[k])
        if cx:
            v = complex(v, im[k] / 4.0)
            # purely reactive elements (ideal capacitor / inductor): no
            # real part at all
            if k in (case.get("reactive") or ()) and im[k] != 0:
                v = complex(0.0, im[k] / 4.0)
        Z[i, j] = Z[j, i] = v
    return Z


def adjacency_of(case):
    n = case["n"]
    A = np.zeros((n, n), dtype=np.int8)
    for i, j in case["edges"]:
        A[i, j] = A[j, i] = 1
    return A


def build(case, Z):
    from pyunicorn.core import ResNetwork
    if case.get("explicit_adjacency"):
        return ResNetwork(Z, adjacency=adjacency_of(case), silence_level=3)
    return ResNetwork(Z, silence_level=3)


def with_candidates(case, Z):
    """The matrix a caller holds when `adjacency=` selects the built lines
    among candidate lines: non-zero resistances also on node pairs that are
    not links (ignored by the circuit - the adjacency says what is linked)."""
    if not (case.get("explicit_adjacency") and case.get("offlink")):
        return Z
    A = adjacency_of(case)
    Z2 = Z.copy()
    links = Z[A != 0]
    v = links.flat[0] if links.size else 1.0
    off = (A == 0) & ~np.eye(case["n"], dtype=bool)
    Z2[off] = v * 0.75
    return Z2


def has_cycle(case):
    return len(case["edges"]) > case["n"] - 1


def er_all(net, n):
    return np.array([[net.effective_resistance(a, b) for b in range(n)]
                     for a in range(n)])


def scale_of(ER):
    return float(max(1.0, np.abs(ER).max()))


def close_scaled(rec, a, b, clause, scale, rtol=1e-9, detail=""):
    """|a-b| <= rtol*max(1,|a|,|b|,scale)."""
    return rec.close(a, b, clause, rtol=rtol, atol=rtol * scale,
                     detail=detail)


# -------------------------------------------------------------------- oracles

def check_real_network(rec, net, case, Z, tag="", deep=True):
    """All clauses for one real network state; returns the reference ER."""
    n = case["n"]
    A = adjacency_of(case)
    Y = C.admittance(Z)
    ER = C.effective_resistance_matrix(Y)
    sc = scale_of(ER)
    ok, adm = rec.call("get_admittance" + tag, net.get_admittance)
    if ok:
        rec.close(adm, Y, "admittance_is_reciprocal_resistance" + tag,
                  rtol=1e-12)
    ok, lib = rec.call("effective_resistance" + tag, er_all, net, n)
    if not ok:
        return ER
    lib = np.asarray(lib, dtype=float)
    close_scaled(rec, lib, ER, "effective_resistance_equals_grounded_solve"
                 + tag, sc)
    tol = 1e-9 * sc
    rec.check(np.abs(lib - lib.T).max() <= tol,
              "effective_resistance_symmetric" + tag)
    rec.check((np.diag(lib) == 0).all(), "effective_resistance_zero_on_diag"
              + tag)
    off = ~np.eye(n, dtype=bool)
    rec.check((lib[off] > 0).all(),
              "effective_resistance_positive_between_distinct_nodes" + tag,
              "min=%r" % (lib[off].min(),))
    # triangle inequality
    worst = 0.0
    for a in range(n):
        for b in range(n):
            for c in range(n):
                worst = max(worst, lib[a, c] - lib[a, b] - lib[b, c])
    rec.check(worst <= tol, "triangle_inequality" + tag,
              "worst excess %r" % worst)
    # Rayleigh monotonicity: never above the cheapest connecting path
    D = C.cheapest_path_resistance(Z)
    rec.check((lib <= D + tol).all(),
              "effective_resistance_at_most_cheapest_path" + tag,
              "max excess %r" % float((lib - D).max()))
    # Foster's theorem
    foster = sum(lib[i, j] / Z[i, j] for i, j in case["edges"])
    close_scaled(rec, foster, float(n - 1), "foster_theorem" + tag,
                 sc * np.abs(Y).max())
    # derived scalars
    ok, avg = rec.call("average_effective_resistance" + tag,
                       net.average_effective_resistance)
    if ok:
        close_scaled(rec, avg, ER[off].mean(),
                     "average_effective_resistance_def" + tag, sc)
    ok, dia = rec.call("diameter_effective_resistance" + tag,
                       net.diameter_effective_resistance)
    if ok:
        close_scaled(rec, dia, ER.max(), "diameter_effective_resistance_def"
                     + tag, sc)
    a0 = case.get("node", 0) % n
    ok, cc = rec.call("effective_resistance_closeness_centrality" + tag,
                      net.effective_resistance_closeness_centrality, a0)
    if ok:
        rec.close(cc, (n - 1) / ER[a0].sum(),
                  "effective_resistance_closeness_def" + tag, rtol=1e-9)
    if not deep:
        return ER
    # pseudo-inverse maintained by update_R
    ok, R = rec.call("get_R" + tag, net.get_R)
    if ok:
        L = C.laplacian(Y)
        s2 = sc * max(1.0, np.abs(L).max()) ** 2
        rec.check(np.abs(L.dot(R).dot(L) - L).max() <= 1e-9 * s2 and
                  np.abs(R.dot(L).dot(R) - R).max() <= 1e-9 * s2 * sc and
                  np.abs(R - R.T).max() <= 1e-9 * sc,
                  "get_R_is_pseudoinverse_of_admittance_laplacian" + tag)
    check_sums(rec, net, case, Y, A, ER, tag)
    return ER


def check_sums(rec, net, case, Y, A, ER, tag="", nodes=None):
    n = case["n"]
    ok, ad = rec.call("admittive_degree" + tag, net.admittive_degree)
    ad_ref = C.admittive_degree(Y)
    if ok:
        rec.close(ad, ad_ref, "admittive_degree_def" + tag, rtol=1e-12)
    ok, ac = rec.call("local_admittive_clustering" + tag,
                      net.local_admittive_clustering)
    if ok:
        ref = C.local_admittive_clustering(Y, A)
        rec.close(ac, ref, "local_admittive_clustering_def" + tag, rtol=1e-9)
        ok, g = rec.call("global_admittive_clustering" + tag,
                         net.global_admittive_clustering)
        if ok:
            rec.close(g, ref.mean(), "global_admittive_clustering_def" + tag,
                      rtol=1e-9)
    if np.iscomplexobj(Y):
        return
    ok, an = rec.call("average_neighbors_admittive_degree" + tag,
                      net.average_neighbors_admittive_degree)
    if ok:
        rec.close(an, C.average_neighbors_admittive_degree(Y, A),
                  "average_neighbors_admittive_degree_def" + tag, rtol=1e-9)
    # float32 kernels
    cancel = 2e-6 * float(np.abs(ER).max())
    for i in (range(n) if nodes is None else nodes):
        ok, v = rec.call("vertex_current_flow_betweenness" + tag,
                         net.vertex_current_flow_betweenness, int(i))
        if ok:
            rec.close(v, C.vertex_current_flow_betweenness(Y, i),
                      "vertex_current_flow_betweenness_def" + tag,
                      rtol=VCFB_RTOL, atol=cancel * float(ad_ref[i]),
                      detail="node %d" % i)
    ok, e = rec.call("edge_current_flow_betweenness" + tag,
                     net.edge_current_flow_betweenness)
    if ok:
        ref = C.edge_current_flow_betweenness(Y)
        e = np.asarray(e, dtype=float)
        if e.shape != ref.shape:
            rec.fail("edge_current_flow_betweenness_shape" + tag,
                     str(e.shape))
        else:
            bound = VCFB_RTOL * np.maximum(1.0, np.abs(ref)) + cancel * Y
            bad = np.abs(e - ref) > bound
            if bad.any():
                i, j = np.argwhere(bad)[0]
                rec.fail("edge_current_flow_betweenness_def" + tag,
                         "link (%d,%d): lib=%r ref=%r" % (i, j, e[i, j],
                                                          ref[i, j]))
            rec.check(np.abs(e - e.T).max() <= 2 * bound.max(),
                      "edge_current_flow_betweenness_symmetric" + tag)
            rec.check((e[A == 0] == 0).all(),
                      "edge_current_flow_betweenness_zero_off_links" + tag)


def classify(rec, case, Z):
    n = case["n"]
    rec.label("n:%d" % n if n <= 4 else "n:5-10")
    rec.label("cyclic" if has_cycle(case) else "tree")
    vals = [Z[i, j] for i, j in case["edges"]]
    uniform = len(set(vals)) <= 1
    rec.label("uniform_resistances" if uniform else "nonuniform_resistances")
    rec.label("kind:" + case.get("kind", "?"))
    rec.label("explicit_adjacency" if case.get("explicit_adjacency")
              else "adjacency_from_resistances")
    if has_cycle(case) and not uniform:
        rec.nontrivial(True)


def oracle_network(case, rec):
    Z = z_matrix(case)
    classify(rec, case, Z)
    if case.get("explicit_adjacency") and case.get("offlink"):
        rec.label("resistances_on_non_links")
    ok, net = rec.call("construct", build, case, with_candidates(case, Z))
    if not ok:
        return
    ER = check_real_network(rec, net, case, Z)
    # linear scaling: all resistances times c -> all effective resistances
    # times c (fresh object)
    c = case["scale"]
    ok, net2 = rec.call("construct_scaled", build, case,
                        with_candidates(case, Z * c))
    if ok:
        ok, lib2 = rec.call("effective_resistance_scaled", er_all, net2,
                            case["n"])
        if ok:
            close_scaled(rec, np.asarray(lib2, dtype=float), c * ER,
                         "effective_resistance_scales_linearly",
                         scale_of(c * ER), detail="c=%r" % c)
        # current distributions are scale invariant
        ok, e1 = rec.call("ecfb", net.edge_current_flow_betweenness)
        ok2, e2 = rec.call("ecfb_scaled", net2.edge_current_flow_betweenness)
        if ok and ok2:
            cancel = 4e-6 * float(np.abs(ER).max()) * \
                float(C.admittance(Z).max())
            rec.close(e2, e1, "edge_current_flow_betweenness_scale_invariant",
                      rtol=2 * VCFB_RTOL, atol=cancel)


def oracle_sp(case, rec):
    """Series and parallel laws on constructed two-terminal circuits."""
    tree = case["tree"]
    n, edges = C.sp_build(tree)
    perm = case["perm"][:]
    # perm is a permutation of range(len(perm)); restrict to n labels
    order = [p for p in perm if p < n] + \
        [k for k in range(n) if k not in perm]
    lab = {old: new for new, old in enumerate(order)}
    Zf = np.zeros((n, n))
    fr_edges = []
    for u, v, r in edges:
        Zf[lab[u], lab[v]] = Zf[lab[v], lab[u]] = float(r)
        fr_edges.append((lab[u], lab[v], r))
    kinds = _tree_kinds(tree)
    rec.label("sp:" + ("+".join(sorted(kinds)) if kinds else "single"))
    rec.label("n:%d" % n if n <= 4 else "n:5+")
    if "p" in kinds:
        rec.nontrivial(True)
    from pyunicorn.core import ResNetwork
    ok, net = rec.call("construct", ResNetwork, Zf, silence_level=3)
    if not ok:
        return
    s, t = lab[0], lab[1]
    want = C.sp_value(tree)
    ok, got = rec.call("effective_resistance", net.effective_resistance, s, t)
    if ok:
        name = {frozenset("s"): "series_law", frozenset("p"): "parallel_law",
                frozenset(): "single_resistor"}.get(frozenset(kinds),
                                                    "series_parallel_law")
        rec.close(got, float(want), name, rtol=1e-9,
                  detail="terminals %d,%d exact %s" % (s, t, want))
    # every other pair: exact rational elimination
    sc = None
    for a in range(n):
        for b in range(a + 1, n):
            ex = C.exact_effective_resistance(n, fr_edges, a, b)
            ok, got = rec.call("effective_resistance", net.effective_resistance,
                               a, b)
            if ok:
                if sc is None:
                    sc = float(max(1, max(float(r) for _, _, r in fr_edges)
                                   * n))
                close_scaled(rec, got, float(ex),
                             "effective_resistance_equals_exact_elimination",
                             sc, detail="pair %d,%d" % (a, b))
    ok, f = rec.call("foster", lambda: sum(
        net.effective_resistance(u, v) / float(r) for u, v, r in fr_edges))
    if ok:
        rec.close(f, float(n - 1), "foster_theorem", rtol=1e-8)


def _tree_kinds(tree):
    if tree[0] == "r":
        return set()
    return {tree[0]} | _tree_kinds(tree[1]) | _tree_kinds(tree[2])


def oracle_complex(case, rec):
    Z = z_matrix(case)
    n = case["n"]
    rec.label("cyclic" if has_cycle(case) else "tree")
    if has_cycle(case) and len({Z[i, j] for i, j in case["edges"]}) > 1:
        rec.nontrivial(True)
    ok, net = rec.call("construct", build, case, Z)
    if not ok:
        return
    rec.check(bool(net.flagComplex), "complex_flag_set")
    steps = [None] + list(case.get("updates", []))
    for k, upd in enumerate(steps):
        tag = "" if upd is None else "@after_update"
        if upd is not None:
            Z = z_matrix(case, upd["r"], upd["x"])
            ok, _ = rec.call("update_resistances", net.update_resistances,
                             with_candidates(case, Z))
            if not ok:
                return
        A = adjacency_of(case)
        Y = C.admittance(Z)
        ER = C.effective_resistance_matrix(Y)
        sc = scale_of(ER)
        ok, adm = rec.call("get_admittance" + tag, net.get_admittance)
        if ok:
            rec.close(adm, Y, "complex_admittance_is_reciprocal_impedance"
                      + tag, rtol=1e-12)
        ok, lib = rec.call("effective_resistance" + tag, er_all, net, n)
        if ok:
            lib = np.asarray(lib, dtype=complex)
            close_scaled(rec, lib, ER,
                         "complex_effective_impedance_equals_grounded_solve"
                         + tag, sc, rtol=1e-8)
            rec.check(np.abs(lib - lib.T).max() <= 1e-8 * sc and
                      (np.diag(lib) == 0).all(),
                      "complex_effective_impedance_symmetric_zero_diag" + tag)
            foster = sum(lib[i, j] / Z[i, j] for i, j in case["edges"])
            close_scaled(rec, foster, complex(n - 1),
                         "complex_foster_theorem" + tag,
                         sc * np.abs(Y).max(), rtol=1e-8)
        ok, avg = rec.call("average_effective_resistance" + tag,
                           net.average_effective_resistance)
        if ok:
            off = ~np.eye(n, dtype=bool)
            close_scaled(rec, avg, ER[off].mean(),
                         "complex_average_effective_impedance_def" + tag, sc,
                         rtol=1e-8)
        check_sums(rec, net, case, Y, A, ER, tag="@complex" + tag)
    # scaling by a real factor and a series check on the first link
    c = case["scale"]
    ok, net2 = rec.call("construct_scaled", build, case, Z * c)
    if ok:
        ok, lib2 = rec.call("effective_resistance_scaled", er_all, net2, n)
        if ok:
            ER = C.effective_resistance_matrix(C.admittance(Z))
            close_scaled(rec, np.asarray(lib2, dtype=complex), c * ER,
                         "complex_effective_impedance_scales_linearly",
                         scale_of(c * ER), rtol=1e-8)


QUERIES = ["er", "avg", "diam", "ercc", "vcfb", "ecfb", "deg", "clust", "R",
           "adm"]


def run_query(rec, q, net, twin, case, Z, ref, tag, stale=False):
    """One query on the long-lived object, its fresh twin and the reference.
    ``ref`` caches (Y, ER)."""
    n = case["n"]
    Y, ER = ref
    sc = scale_of(ER)
    node = case.get("node", 0) % n
    A = adjacency_of(case)

    def both(name, fn_name, *args):
        ok1, a = rec.call(name + tag, getattr(net, fn_name), *args)
        ok2, b = rec.call(name + "@twin", getattr(twin, fn_name), *args)
        return ok1 and ok2, a, b

    if q == "er":
        ok1, a = rec.call("effective_resistance" + tag, er_all, net, n)
        ok2, b = rec.call("effective_resistance@twin", er_all, twin, n)
        if ok1:
            close_scaled(rec, np.asarray(a, dtype=float), ER,
                         "effective_resistance_follows_update", sc)
        if ok1 and ok2:
            close_scaled(rec, a, b, "effective_resistance_equals_fresh_twin",
                         sc)
    elif q == "avg":
        ok, a, b = both("average_effective_resistance",
                        "average_effective_resistance")
        if ok:
            off = ~np.eye(n, dtype=bool)
            close_scaled(rec, a, ER[off].mean(),
                         "average_effective_resistance_follows_update", sc)
            close_scaled(rec, a, b,
                         "average_effective_resistance_equals_fresh_twin", sc)
    elif q == "diam":
        ok, a, b = both("diameter_effective_resistance",
                        "diameter_effective_resistance")
        if ok:
            # region of KF-C18-1: the hidden store of all pairs was filled
            # (average_/diameter_effective_resistance) before the latest
            # update_resistances and not refilled since
            sfx = "__values_stored_before_update" if stale else ""
            close_scaled(rec, a, ER.max(),
                         "diameter_effective_resistance_follows_update" + sfx,
                         sc)
            close_scaled(rec, a, b,
                         "diameter_effective_resistance_equals_fresh_twin"
                         + sfx, sc)
    elif q == "ercc":
        ok, a, b = both("effective_resistance_closeness_centrality",
                        "effective_resistance_closeness_centrality", node)
        if ok:
            rec.close(a, (n - 1) / ER[node].sum(),
                      "effective_resistance_closeness_follows_update",
                      rtol=1e-9)
    elif q == "vcfb":
        ok, a, b = both("vertex_current_flow_betweenness",
                        "vertex_current_flow_betweenness", node)
        if ok:
            cancel = 2e-6 * float(np.abs(ER).max()) * \
                float(C.admittive_degree(Y)[node])
            rec.close(a, C.vertex_current_flow_betweenness(Y, node),
                      "vertex_current_flow_betweenness_follows_update",
                      rtol=VCFB_RTOL, atol=cancel)
            rec.close(a, b, "vertex_current_flow_betweenness_equals_fresh_twin",
                      rtol=VCFB_RTOL, atol=cancel)
    elif q == "ecfb":
        ok, a, b = both("edge_current_flow_betweenness",
                        "edge_current_flow_betweenness")
        if ok:
            cancel = 2e-6 * float(np.abs(ER).max()) * float(Y.max())
            rec.close(a, C.edge_current_flow_betweenness(Y),
                      "edge_current_flow_betweenness_follows_update",
                      rtol=VCFB_RTOL, atol=cancel)
            rec.close(a, b, "edge_current_flow_betweenness_equals_fresh_twin",
                      rtol=VCFB_RTOL, atol=cancel)
    elif q == "deg":
        ok, a, b = both("admittive_degree", "admittive_degree")
        if ok:
            rec.close(a, C.admittive_degree(Y),
                      "admittive_degree_follows_update", rtol=1e-12)
    elif q == "clust":
        ok, a, b = both("local_admittive_clustering",
                        "local_admittive_clustering")
        if ok:
            rec.close(a, C.local_admittive_clustering(Y, A),
                      "local_admittive_clustering_follows_update", rtol=1e-9)
    elif q == "R":
        ok, a, b = both("get_R", "get_R")
        if ok:
            close_scaled(rec, a, b, "get_R_equals_fresh_twin", sc)
    elif q == "adm":
        ok, a, b = both("get_admittance", "get_admittance")
        if ok:
            rec.close(a, Y, "admittance_follows_update", rtol=1e-12)


def oracle_history(case, rec):
    Z = z_matrix(case)
    classify(rec, case, Z)
    held = Z.copy()       # the array object the library currently holds
    ok, net = rec.call("construct", build, case, held)
    if not ok:
        return
    Y = C.admittance(Z)
    ref = (Y, C.effective_resistance_matrix(Y))
    ok, twin = rec.call("construct_twin", build, case, Z)
    if not ok:
        return
    store = None          # None | "current" | "stale"
    for q in case["queries0"]:
        rec.label("q0:" + q)
        run_query(rec, q, net, twin, case, Z, ref, "@initial")
        if q in ("avg", "diam"):
            store = "current"
    rec.label("updates:%d" % len(case["steps"]))
    for step in case["steps"]:
        if "scale" in step:
            Z = Z * step["scale"]
            rec.label("step:scale")
        else:
            Z = z_matrix(case, step["r"])
            rec.label("step:new_values")
        if step.get("inplace"):
            # the caller edits the array it handed over earlier and passes
            # the SAME object again: the update must still take effect
            rec.label("step:same_array_object_edited_in_place")
            held[...] = Z
        else:
            held = Z.copy()
        ok, _ = rec.call("update_resistances", net.update_resistances, held)
        if not ok:
            return
        ok, twin = rec.call("construct_twin", build, case, Z)
        if not ok:
            return
        Y = C.admittance(Z)
        ref = (Y, C.effective_resistance_matrix(Y))
        if store is not None:
            store = "stale"
        for q in step["queries"]:
            rec.label("q:" + q)
            if q == "diam" and store == "stale":
                rec.label("diam_with_values_stored_before_update")
            run_query(rec, q, net, twin, case, Z, ref, "@after_update",
                      stale=(store == "stale"))
            if q == "avg" or (q == "diam" and store is None):
                store = "current"
    # the caller works on what the getters handed out (they return dense
    # copies of the stored sparse matrices): the circuit is not affected
    for gname in ("get_admittance", "get_R", "admittance_lapacian"):
        okg, v = rec.call(gname, getattr(net, gname))
        if okg and isinstance(v, np.ndarray) and v.flags.writeable:
            v *= 3.0
            np.fill_diagonal(v, 1.0)
    for q in (case["queries0"] or ["er"])[:3] + ["vcfb", "adm"]:
        if q in ("avg", "diam") and store == "stale":
            continue
        run_query(rec, q, net, twin, case, Z, ref,
                  "@after_caller_edited_getter_results")


# ----------------------------------------------------------------- generators

@st.composite
def graphs(draw, max_n=10):
    n = draw(st.integers(2, max_n))
    perm = draw(st.permutations(list(range(n))))
    es = set()
    for k in range(1, n):
        p = draw(st.integers(0, k - 1))
        a, b = perm[k], perm[p]
        es.add((min(a, b), max(a, b)))
    extra = draw(st.integers(0, min(8, n * (n - 1) // 2 - (n - 1))))
    for _ in range(extra):
        a = draw(st.integers(0, n - 1))
        b = draw(st.integers(0, n - 1))
        if a != b:
            es.add((min(a, b), max(a, b)))
    return n, [list(e) for e in sorted(es)]


@st.composite
def resist(draw, m, kind):
    if kind == "uniform":
        v = draw(st.integers(1, 64))
        return [v] * m
    if kind == "dyadic":
        return draw(st.lists(st.integers(1, 64), min_size=m, max_size=m))
    return draw(st.lists(st.floats(0.1, 20.0, allow_nan=False), min_size=m,
                         max_size=m))


@st.composite
def base_cases(draw, max_n=10):
    n, edges = draw(graphs(max_n))
    kind = draw(st.sampled_from(["dyadic", "dyadic", "float", "uniform"]))
    case = {"n": n, "edges": edges, "kind": kind,
            "den": 0 if kind == "float" else 4,
            "r": draw(resist(len(edges), kind)), "x": None,
            "explicit_adjacency": draw(st.booleans()),
            "offlink": draw(st.booleans()),
            "node": draw(st.integers(0, n - 1)),
            "scale": draw(st.sampled_from([0.5, 2.0, 3.0, 0.125, 10.0, 1e-6, 1e-3,
                                            1e3, 1e6, 1e8, 1e9]))}
    return case


@st.composite
def complex_cases(draw):
    case = draw(base_cases(max_n=8))
    m = len(case["edges"])
    if case["den"] == 0:
        case["den"] = 4
        case["kind"] = "dyadic"
        case["r"] = draw(resist(m, "dyadic"))
    case["x"] = draw(st.lists(st.integers(-64, 64), min_size=m, max_size=m))
    case["reactive"] = sorted(set(draw(st.lists(st.integers(0, m - 1),
                                               max_size=3)))) if m else []
    ups = []
    for _ in range(draw(st.integers(0, 2))):
        ups.append({"r": draw(resist(m, "dyadic")),
                    "x": draw(st.lists(st.integers(-64, 64), min_size=m,
                                       max_size=m))})
    case["updates"] = ups
    return case


@st.composite
def sp_trees(draw):
    leaves = draw(st.integers(1, 8))
    shape = draw(st.sampled_from(["mixed", "mixed", "series", "parallel"]))

    def mk(k):
        if k == 1:
            return ["r", draw(st.integers(1, 64)), 4]
        j = draw(st.integers(1, k - 1))
        kind = {"series": "s", "parallel": "p"}.get(shape) or \
            draw(st.sampled_from(["s", "p"]))
        return [kind, mk(j), mk(k - j)]

    return {"tree": mk(leaves),
            "perm": draw(st.permutations(list(range(12))))}


@st.composite
def history_cases(draw):
    case = draw(base_cases(max_n=8))
    m = len(case["edges"])
    qs = st.lists(st.sampled_from(QUERIES + ["avg", "diam", "diam"]),
                  min_size=1, max_size=5)
    case["queries0"] = draw(st.lists(st.sampled_from(QUERIES + ["avg"]),
                                     min_size=0, max_size=4))
    steps = []
    for _ in range(draw(st.integers(1, 5))):
        if draw(st.integers(0, 3)) == 0:
            step = {"scale": draw(st.sampled_from([0.5, 2.0, 4.0, 0.25, 1e4,
                                                     1e-4]))}
        else:
            kind = "float" if case["den"] == 0 else draw(
                st.sampled_from(["dyadic", "uniform"]))
            step = {"r": draw(resist(m, kind))}
        step["queries"] = draw(qs)
        step["inplace"] = draw(st.integers(0, 2)) == 0
        steps.append(step)
    case["steps"] = steps
    return case


# ------------------------------------------------------------ large hubs

def big_edges(kind, n, extra):
    """Connected networks on 66..100 nodes with a node of degree > 64."""
    edges = {(0, j) for j in range(1, n)}                  # hub = node 0
    if kind == "wheel":
        edges |= {(j, j + 1) for j in range(1, n - 1)} | {(1, n - 1)}
    for a, b in extra:
        a, b = 1 + a % (n - 1), 1 + b % (n - 1)
        if a != b:
            edges.add((min(a, b), max(a, b)))
    return sorted(edges)


def oracle_big(case, rec):
    """Sizes the small-graph generators never reach: the float32 kernels
    and any fixed-capacity scratch space see degrees of 65..99."""
    n = case["n"]
    edges = big_edges(case["kind"], n, case["extra"])
    c = {"n": n, "edges": edges, "den": 4, "x": None,
         "r": [case["r"][k % len(case["r"])] for k in range(len(edges))]}
    Z = z_matrix(c)
    rec.label("kind:" + case["kind"])
    ok, net = rec.call("construct", build, c, Z)
    if not ok:
        return
    rec.nontrivial(True)
    Y = C.admittance(Z)
    ER = C.effective_resistance_matrix(Y)
    ad_ref = C.admittive_degree(Y)
    ok, ad = rec.call("admittive_degree", net.admittive_degree)
    if ok:
        rec.close(ad, ad_ref, "big_admittive_degree_def", rtol=1e-9)
    cancel = 2e-6 * float(np.abs(ER).max())
    for i in (0, 1 + case["node"] % (n - 1)):
        ok, v = rec.call("vertex_current_flow_betweenness",
                         net.vertex_current_flow_betweenness, int(i))
        if ok:
            rec.close(v, C.vertex_current_flow_betweenness(Y, i),
                      "big_vertex_current_flow_betweenness_def",
                      rtol=10 * VCFB_RTOL, atol=cancel * float(ad_ref[i]),
                      detail="node %d of %d" % (i, n))
        for j in (n - 1, n // 2):
            if j == i:
                continue
            ok, v = rec.call("effective_resistance",
                             net.effective_resistance, int(i), int(j))
            if ok:
                rec.close(v, ER[i, j], "big_effective_resistance",
                          rtol=1e-4, atol=cancel)


@st.composite
def big_cases(draw):
    return {"n": draw(st.integers(66, 100)),
            "kind": draw(st.sampled_from(["star", "wheel", "wheel"])),
            "extra": draw(st.lists(st.tuples(st.integers(0, 200),
                                             st.integers(0, 200)).map(list),
                                   max_size=40)),
            "r": draw(st.lists(st.integers(1, 16), min_size=3, max_size=9)),
            "node": draw(st.integers(0, 200))}


SUBCHECKS = [
    SubCheck("big_hubs", oracle_big, gen=big_cases,
             quick=(4, 6), thorough=(8, 40)),
    SubCheck("network", oracle_network, gen=base_cases,
             quick=(8, 250), thorough=(16, 1600)),
    SubCheck("series_parallel", oracle_sp, gen=sp_trees,
             quick=(2, 300), thorough=(8, 1500)),
    SubCheck("complex", oracle_complex, gen=complex_cases,
             quick=(2, 200), thorough=(8, 800)),
    SubCheck("history", oracle_history, gen=history_cases,
             quick=(4, 200), thorough=(16, 800)),
]
