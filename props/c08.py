"""C08 - RQA line statistics are exact run-length counts of the matrix.

Oracle (vp/ref/rqa.py): loop-level run-length count of
``recurrence_matrix()`` along rows (vertical / white vertical lines) and
along the off-main diagonals, with the documented missing-value rule (a run
never contains a missing cell; a run directly preceded or followed along its
line by a missing cell is not counted).  Scalars are recomputed from the
library's own histograms with the formulas of the docstrings.  The
sequential (``sparse_rqa``) mode is compared with the matrix mode bit for
bit (library against library).

Reading of "vertical": the library's (and Marwan 2007's) ``R[i, j..j+v-1]``,
i.e. a run over the second index at fixed first index.  For the asymmetric
local-rate matrices this is what makes rows and columns differ; the diagonal
histogram is compared for symmetric matrices only (the library documents that
it counts one triangle and doubles it).
"""
import itertools
import math

import numpy as np
from hypothesis import strategies as st

from vp.pbt import SubCheck, represent
from vp.ref import recurrence as rref
from vp.ref import rqa

PROPERTY = "C08"
RULE = ("cases = (series as float32-exact literals with None for missing "
        "samples, embedding, metric, construction mode and parameter, "
        "missing_values flag, l_min/v_min/w_min). Exhaustive part: every "
        "symmetric 0/1 matrix with unit diagonal of size 1..5 realised by a "
        "crafted series in R^(n(n-1)/2) under the supremum metric at "
        "threshold 1.5 (one coordinate per non-recurrent pair), in both "
        "storage modes and for all l_min/v_min/w_min in 1..5; a second "
        "enumeration crosses every such matrix of size <= 4 with every "
        "missing-sample mask (size 5: masks with <= 1 missing sample in the "
        "quick tier, all masks in the thorough tier). Random part: series of "
        "length 1..60 on integer / dyadic / piecewise-linear / float32 "
        "grids, 1-3 columns or delay embedding, three metrics, thresholds "
        "drawn at random, on an actual pairwise distance and on its two "
        "float64 neighbours, fixed / local rates, adaptive neighbourhoods, "
        "missing masks. Non-trivial = the black histograms hold >= 2 "
        "different line lengths, or a line ends at the matrix border without "
        "filling its row/diagonal, or a line is adjacent to a missing cell; "
        "distinct = hash of the whole case.")
ASSUMPTIONS = [
    "series values are float32-exact, so the library and the check agree "
    "about the input",
    "the matrix under test is the library's own recurrence_matrix(); that it "
    "is the right matrix is C07's business",
    "'vertical line at time i' = run over j of R[i, j] (Marwan 2007 eq. 51 "
    "and the kernel's reading); the diagonal histogram is compared on "
    "symmetric matrices only (documented doubling of one triangle)",
    "white vertical lines are not offered by the sequential mode "
    "(recurrence_matrix() is documented to be unavailable there); only the "
    "black histograms are compared between the storage modes",
    "scalar measures are compared with 1e-6 relative tolerance because every "
    "denominator is regularised by +1e-8 in the library",
]

LMINS = (1, 2, 3, 4, 5)


# ------------------------------------------------------------- construction

def series_array(case):
    rows = []
    for r in case["series"]:
        if not isinstance(r, (list, tuple)):
            r = [r]
        rows.append([np.nan if v is None else float(v) for v in r])
    return represent(
        np.array(rows, dtype=np.float64).reshape((len(rows), -1)))


def build(case, sparse=False, cls=None):
    from pyunicorn.timeseries import RecurrencePlot
    cls = cls or RecurrencePlot
    kw = {case["mode"]: case["param"]}
    if case.get("dim") is not None:
        kw["dim"] = int(case["dim"])
        kw["tau"] = int(case["tau"])
    if sparse:
        kw["sparse_rqa"] = True
    return cls(series_array(case), metric=case["metric"],
               missing_values=bool(case.get("mv")), silence_level=3, **kw)


def f32_boundary(case):
    """Region of the known finding KF-C08-1: some pair of non-missing state
    vectors whose supremum distance compares differently with the threshold
    in single and in double precision."""
    if case["mode"] != "threshold" or case["metric"] != "supremum":
        return False
    V = rref.states(case["series"], case.get("dim"), case.get("tau"))
    D = rref.distance_matrix(V, None, "supremum")
    thr = float(case["param"])
    with np.errstate(all="ignore"):
        d32 = D.astype(np.float32)
        t32 = np.float32(thr)
        a = d32 < t32
        b = D < thr
    ok = ~np.isnan(D)
    return bool(np.any((a != b) & ok))


# ------------------------------------------------------------------- oracle

def oracle_rqa(case, rec):
    n_series = len(case["series"])
    mv = bool(case.get("mv"))
    mode = case["mode"]
    metric = case["metric"]
    tag = "_missing" if mv else ""
    rec.label("mode=" + mode)
    rec.label("metric=" + metric)
    rec.label("missing" if mv else "complete")
    rec.label("embedded" if case.get("dim") is not None else "plain")

    # The adaptive-neighbourhood kernel raises IndexError as soon as a state
    # is already linked to every other one (C07's business, reported there);
    # such a case offers no matrix to quantify.
    allowed = (IndexError,) if mode == "adaptive_neighborhood_size" else ()
    ok, rp = rec.call("construct" + tag, build, case, allowed=allowed)
    if not ok:
        if allowed:
            rec.label("adaptive_construct_refused")
        return
    R = np.asarray(rp.recurrence_matrix())
    n = R.shape[0]
    rec.check(R.shape == (n, n) and n == rp.N, "matrix_square_N",
              "shape=%s N=%s" % (R.shape, rp.N))
    rec.label("n<=5" if n <= 5 else "n<=20" if n <= 20 else "n>20")
    V = rref.states(case["series"], case.get("dim"), case.get("tau"))
    miss = rref.missing_states(V) if mv else None
    Rl = R.tolist()
    symmetric = bool(np.array_equal(R, R.T))
    rec.label("symmetric" if symmetric else "asymmetric")
    ones = int(R.sum())
    rec.label("all_white" if ones == 0 else
              "all_black" if ones == n * n else "mixed")

    # ---- histograms = run-length counts
    ref_v = rqa.vertline_hist(Rl, True, miss)
    ref_w = rqa.vertline_hist(Rl, False, miss)
    ref_d = rqa.diagline_hist(Rl, miss)
    okv, Pv = rec.call("vertline_dist" + tag, rp.vertline_dist)
    okw, Pw = rec.call("white_vertline_dist" + tag, rp.white_vertline_dist)
    okd, Pd = rec.call("diagline_dist" + tag, rp.diagline_dist)
    if okv:
        rec.equal(Pv, ref_v, "vertline_runlength" + tag)
    if okw:
        rec.equal(Pw, ref_w, "white_vertline_runlength" + tag)
    if okd and symmetric:
        rec.equal(Pd, ref_d, "diagline_runlength" + tag)
    elif okd:
        rec.check(len(Pd) == n and int(np.min(Pd, initial=0)) >= 0,
                  "diagline_shape_asymmetric")

    # ---- accounting: every point exactly once (no missing-value handling)
    if not mv:
        if okv:
            rec.check(rqa.weighted_sum(Pv) == ones,
                      "accounting_black_points_vertical",
                      "sum l*P(l)=%d ones=%d" % (rqa.weighted_sum(Pv), ones))
        if okw:
            rec.check(rqa.weighted_sum(Pw) == n * n - ones,
                      "accounting_white_points_vertical",
                      "sum l*P(l)=%d zeros=%d" % (
                          rqa.weighted_sum(Pw), n * n - ones))
        if okv and okw:
            rec.check(rqa.weighted_sum(Pv) + rqa.weighted_sum(Pw) == n * n,
                      "accounting_every_cell_once")
        if okd and symmetric:
            off = ones - int(np.trace(R))
            rec.check(rqa.weighted_sum(Pd) == off,
                      "accounting_black_points_diagonal",
                      "sum l*P(l)=%d off-diagonal ones=%d" % (
                          rqa.weighted_sum(Pd), off))

    # ---- non-triviality (design NT)
    border, contact = rqa.border_or_missing_contact(Rl, miss)
    lengths = {l for l, c in enumerate(ref_v) if c} | \
        {-l - 1 for l, c in enumerate(ref_d) if c}
    two = sum(1 for c in ref_v if c) >= 2 or sum(1 for c in ref_d if c) >= 2
    if two:
        rec.label("nt:two_lengths")
    if border:
        rec.label("nt:border")
    if contact:
        rec.label("nt:missing_contact")
    if two or border or contact:
        rec.nontrivial(True)
    del lengths

    # ---- scalars = stated functions of the (library's own) histograms
    hv = [int(v) for v in Pv] if okv else ref_v
    hw = [int(v) for v in Pw] if okw else ref_w
    hd = [int(v) for v in Pd] if okd else ref_d
    tol = dict(rtol=1e-6)  # +1e-8 regularisation of every denominator
    _, v = rec.call("max_diaglength", rp.max_diaglength)
    if _:
        rec.check(int(v) == rqa.max_length(hd), "max_diaglength_formula",
                  "lib=%s ref=%s" % (v, rqa.max_length(hd)))
    _, v = rec.call("max_vertlength", rp.max_vertlength)
    if _:
        rec.check(int(v) == rqa.max_length(hv), "max_vertlength_formula",
                  "lib=%s ref=%s" % (v, rqa.max_length(hv)))
    _, v = rec.call("max_white_vertlength", rp.max_white_vertlength)
    if _:
        rec.check(int(v) == rqa.max_length(hw),
                  "max_white_vertlength_formula",
                  "lib=%s ref=%s" % (v, rqa.max_length(hw)))
    _, v = rec.call("recurrence_rate", rp.recurrence_rate)
    if _ and n:
        rec.close(v, ones / float(n * n), "recurrence_rate_formula",
                  rtol=1e-12)
    for lmin in case.get("lmins") or [case.get("lmin", 2)]:
        for name, hist, fn in (
                ("determinism", hd, rqa.points_ratio),
                ("average_diaglength", hd, rqa.average_length),
                ("diag_entropy", hd, rqa.entropy),
                ("laminarity", hv, rqa.points_ratio),
                ("average_vertlength", hv, rqa.average_length),
                ("trapping_time", hv, rqa.average_length),
                ("vert_entropy", hv, rqa.entropy),
                ("average_white_vertlength", hw, rqa.average_length),
                ("mean_recurrence_time", hw, rqa.average_length),
                ("white_vert_entropy", hw, rqa.entropy)):
            okc, v = rec.call(name, getattr(rp, name), lmin)
            if okc:
                rec.close(v, fn(hist, lmin), name + "_formula",
                          detail="min=%d" % lmin, **tol)
        # the two minimal lengths of the summary are independent arguments
        for vmin in (lmin, (lmin % 5) + 1):
            okc, s = rec.call("rqa_summary", rp.rqa_summary, lmin, vmin)
            if okc:
                want = {"RR": ones / float(n * n) if n else float("nan"),
                        "DET": rqa.points_ratio(hd, lmin),
                        "L": rqa.average_length(hd, lmin),
                        "LAM": rqa.points_ratio(hv, vmin)}
                rec.check(sorted(s) == sorted(want), "rqa_summary_keys",
                          str(s))
                for k in want:
                    if k in s:
                        rec.close(s[k], want[k], "rqa_summary_" + k + (
                            "" if vmin == lmin else "_vmin_differs"),
                            detail="l_min=%d v_min=%d" % (lmin, vmin), **tol)
    # defaults: l_min = v_min = 2, w_min = 1 (documented signature)
    for name, hist, fn, dflt in (
            ("determinism", hd, rqa.points_ratio, 2),
            ("laminarity", hv, rqa.points_ratio, 2),
            ("average_white_vertlength", hw, rqa.average_length, 1),
            ("white_vert_entropy", hw, rqa.entropy, 1)):
        okc, v = rec.call(name, getattr(rp, name))
        if okc:
            rec.close(v, fn(hist, dflt), name + "_default_min", **tol)

    # ---- sequential mode == matrix mode (library vs library, exact)
    if mode == "threshold" and metric == "supremum":
        rec.label("sequential_compared")
        reg = "_f32boundary" if f32_boundary(case) else ""
        if reg:
            rec.label("f32_boundary")
        oks, sp = rec.call("construct_sequential" + tag, build, case, True)
        if not oks:
            return
        rec.check(sp.recurrence_matrix() is None,
                  "sequential_stores_no_matrix")
        o1, Sv = rec.call("sequential_vertline_dist" + tag, sp.vertline_dist)
        o2, Sd = rec.call("sequential_diagline_dist" + tag, sp.diagline_dist)
        if o1 and okv:
            rec.equal(Sv, Pv, "sequential_equals_matrix_vert" + tag + reg)
        if o2 and okd:
            rec.equal(Sd, Pd, "sequential_equals_matrix_diag" + tag + reg)
        if not mv and not reg:
            # RR of the sequential mode is sum l*P_vert(l) / N^2
            o3, v = rec.call("sequential_recurrence_rate", sp.recurrence_rate)
            if o3 and n:
                rec.close(v, ones / float(n * n),
                          "sequential_recurrence_rate", rtol=1e-12)
        if o1 and o2:
            # scalars of the sequential object: the same stated functions of
            # its own histograms
            hv = [int(v) for v in Sv]
            hd = [int(v) for v in Sd]
            lmin = (case.get("lmins") or [case.get("lmin", 2)])[0]
            for name, hist, fn in (
                    ("determinism", hd, rqa.points_ratio),
                    ("average_diaglength", hd, rqa.average_length),
                    ("diag_entropy", hd, rqa.entropy),
                    ("laminarity", hv, rqa.points_ratio),
                    ("trapping_time", hv, rqa.average_length),
                    ("vert_entropy", hv, rqa.entropy)):
                okc, v = rec.call("sequential_" + name, getattr(sp, name),
                                  lmin)
                if okc:
                    rec.close(v, fn(hist, lmin), "sequential_" + name + tag,
                              detail="min=%d" % lmin, **tol)
            okc, v = rec.call("sequential_max_diaglength", sp.max_diaglength)
            if okc:
                rec.check(int(v) == rqa.max_length(hd),
                          "sequential_max_diaglength" + tag)
            okc, v = rec.call("sequential_max_vertlength", sp.max_vertlength)
            if okc:
                rec.check(int(v) == rqa.max_length(hv),
                          "sequential_max_vertlength" + tag)
        # the same two objects at another threshold: the matrix object through
        # its setter, the sequential one through its threshold attribute (it
        # stores nothing else); only for series on the 1/8 grid, where the
        # new threshold cannot coincide with a distance
        vals = [v for row in case["series"]
                for v in (row if isinstance(row, (list, tuple)) else [row])
                if v is not None]
        if not reg and not mv and all(float(v) * 8 == int(float(v) * 8)
                                      for v in vals):
            t2 = (0.37, 0.87, 1.37, 2.37)[
                int(abs(float(case["param"])) * 8) % 4]
            ok1, _ = rec.call("matrix_set_fixed_threshold",
                              rp.set_fixed_threshold, t2)
            sp.threshold = t2
            o1, Sv = rec.call("sequential_vertline_dist_rethresholded",
                              sp.vertline_dist)
            o2, Sd = rec.call("sequential_diagline_dist_rethresholded",
                              sp.diagline_dist)
            if ok1 and o1 and o2:
                rec.equal(Sv, rp.vertline_dist(),
                          "sequential_equals_matrix_vert_rethresholded")
                rec.equal(Sd, rp.diagline_dist(),
                          "sequential_equals_matrix_diag_rethresholded")
    del n_series


# ------------------------------------------------------- exhaustive section

def crafted_series(n, bits):
    """Series in R^(n(n-1)/2) whose supremum-metric recurrence matrix at
    threshold 1.5 is the symmetric unit-diagonal matrix coded by ``bits``
    (bit p set = pair p recurrent, pairs in itertools.combinations order).
    Coordinate p is +1 at i, -1 at j, 0 elsewhere when pair p = (i, j) is NOT
    recurrent, so d(i, j) = 2 there and every other distance is <= 1."""
    pairs = list(itertools.combinations(range(n), 2))
    width = max(1, len(pairs))
    x = [[0.0] * width for _ in range(n)]
    for p, (i, j) in enumerate(pairs):
        if not (bits >> p) & 1:
            x[i][p] = 1.0
            x[j][p] = -1.0
    return x


def matrix_of(n, bits):
    R = np.eye(n, dtype=np.int8)
    for p, (i, j) in enumerate(itertools.combinations(range(n), 2)):
        if (bits >> p) & 1:
            R[i, j] = R[j, i] = 1
    return R


def _enum_case(n, bits, mask):
    x = crafted_series(n, bits)
    if mask:
        for i in range(n):
            if (mask >> i) & 1:
                x[i] = [None] * len(x[i])
    return {"series": x, "metric": "supremum", "mode": "threshold",
            "param": 1.5, "dim": None, "tau": None, "mv": bool(mask),
            "lmins": list(LMINS), "n": n, "bits": bits, "mask": mask}


def enum_matrices(tier):
    for n in range(1, 6):
        for bits in range(1 << (n * (n - 1) // 2)):
            yield _enum_case(n, bits, 0)


def enum_matrices_missing(tier):
    for n in range(1, 6):
        for bits in range(1 << (n * (n - 1) // 2)):
            for mask in range(1, 1 << n):
                if n == 5 and tier == "quick" and bin(mask).count("1") > 1:
                    continue
                yield _enum_case(n, bits, mask)


def oracle_enum(case, rec):
    """Exhaustive part: first make sure the crafted series realises exactly
    the intended matrix (else the enumeration would not be what it claims),
    then the common oracle."""
    n, bits, mask = case["n"], case["bits"], case["mask"]
    want = matrix_of(n, bits)
    for i in range(n):
        if (mask >> i) & 1:
            want[i, :] = 0
            want[:, i] = 0
    ok, rp = rec.call("construct", build, case)
    if ok:
        rec.equal(rp.recurrence_matrix(), want, "crafted_series_realises_matrix")
    oracle_rqa(case, rec)


# ------------------------------------------------------------ random section

def _f32(v):
    return float(np.float32(v))


@st.composite
def series_strategy(draw, max_len=60):
    n = draw(st.one_of(st.integers(1, 8), st.integers(1, 25),
                       st.integers(1, max_len)))
    kind = draw(st.sampled_from(["grid", "grid", "dyadic", "walk", "float"]))
    d = draw(st.sampled_from([1, 1, 1, 2, 3]))
    cols = []
    for _ in range(d):
        if kind == "grid":
            hi = draw(st.integers(1, 5))
            col = draw(st.lists(st.integers(0, hi), min_size=n, max_size=n))
        elif kind == "dyadic":
            col = [v / 8.0 for v in draw(st.lists(
                st.integers(-16, 16), min_size=n, max_size=n))]
        elif kind == "walk":
            # plateaus (laminar states) and ramps (diagonal structures)
            col = [draw(st.integers(-4, 4))]
            while len(col) < n:
                slope = draw(st.integers(-2, 2))
                for _k in range(draw(st.integers(1, 6))):
                    if len(col) < n:
                        col.append(col[-1] + slope)
        else:
            col = [_f32(v) for v in draw(st.lists(
                st.floats(-4, 4, allow_nan=False, width=32),
                min_size=n, max_size=n))]
        cols.append([float(v) for v in col])
    return [[cols[c][i] for c in range(d)] for i in range(n)]


@st.composite
def rqa_cases(draw):
    series = draw(series_strategy())
    n = len(series)
    d = len(series[0])
    dim = tau = None
    if d == 1 and n >= 2 and draw(st.integers(0, 2)) == 0:
        dim = draw(st.integers(1, 4))
        tau = draw(st.integers(1, 4))
        while (dim - 1) * tau >= n:      # keep >= 1 state vector
            if dim > 1:
                dim -= 1
            else:
                tau = 1
    mv = draw(st.integers(0, 3)) == 0
    if mv:
        k = draw(st.integers(1, max(1, n // 4)))
        for _ in range(k):
            i = draw(st.integers(0, n - 1))
            c = draw(st.integers(0, d - 1))
            series[i][c] = None
    mode = draw(st.sampled_from(
        ["threshold"] * 6 + ["recurrence_rate", "local_recurrence_rate",
                             "local_recurrence_rate",
                             "adaptive_neighborhood_size",
                             "threshold_std"]))
    metric = draw(st.sampled_from(
        ["supremum", "supremum", "manhattan", "euclidean"]))
    V = rref.states(series, dim, tau)
    nv = len(V)
    if mv and mode != "threshold":
        mode = "threshold"
    if mode == "adaptive_neighborhood_size" and nv < 3:
        mode = "threshold"
    if mode == "threshold":
        D = rref.distance_matrix(V, None, metric)
        fin = D[np.isfinite(D)]
        top = float(fin.max()) if fin.size else 1.0
        how = draw(st.sampled_from(["random"] * 4 + ["on"] * 3 +
                                   ["above"] * 2 + ["below"] * 2 +
                                   ["zero", "huge"]))
        i = draw(st.integers(0, nv - 1))
        j = draw(st.integers(0, nv - 1))
        if i == j and nv >= 2:           # prefer a genuine pair
            j = (i + 1 + draw(st.integers(0, nv - 2))) % nv
        dij = float(D[i, j]) if math.isfinite(float(D[i, j])) else top
        if how == "random":
            param = draw(st.floats(0.0, 1.0)) * (top if top > 0 else 1.0) * 1.1
        elif how == "on":
            param = dij
        elif how == "above":
            param = float(np.nextafter(dij, np.inf))
        elif how == "below":
            param = float(np.nextafter(dij, -np.inf))
        elif how == "zero":
            param = 0.0
        else:
            param = top * 2 + 1
    elif mode == "threshold_std":
        param = draw(st.sampled_from([0.0, 0.25, 0.5, 1.0, 1.5, 3.0]))
    elif mode in ("recurrence_rate", "local_recurrence_rate"):
        param = draw(st.sampled_from([0.0, 0.1, 0.25, 0.5, 0.75, 0.9, 1.0]))
    else:
        param = draw(st.integers(1, max(1, min(5, nv - 2))))
    lm = draw(st.integers(1, 5))
    return {"series": series, "metric": metric, "mode": mode, "param": param,
            "dim": dim, "tau": tau, "mv": mv, "lmins": [lm]}


SUBCHECKS = [
    SubCheck("exhaustive_matrices", oracle_enum, enum=enum_matrices,
             quick=(4, None), thorough=(4, None),
             doc="all symmetric unit-diagonal 0/1 matrices up to 5x5"),
    SubCheck("exhaustive_matrices_missing", oracle_enum,
             enum=enum_matrices_missing, quick=(6, None), thorough=(8, None),
             doc="the same matrices crossed with missing-sample masks"),
    SubCheck("random_series", oracle_rqa, gen=rqa_cases,
             quick=(6, 700), thorough=(8, 12500)),
]
