"""Hash-keyed rebuild of the repository's *working tree* (plain and asan flavours).

The editable install in /venv points at /repo/src whose compiled modules go
stale as soon as a .pyx/.c file is edited.  Every check therefore imports
pyunicorn from a private build directory keyed by a hash of the sources.
"""
import fcntl
import hashlib
import os
import shutil
import subprocess
import sys
import time

VERIF = os.path.dirname(os.path.dirname(os.path.abspath(__file__)))
BUILD_ROOT = os.path.join(VERIF, ".build")
PY = "/venv/bin/python"
SRC_EXT = (".py", ".pyx", ".pxd", ".c", ".h")
TOP_FILES = ("setup.py", "setup.cfg", "pyproject.toml", "MANIFEST.in",
             "README.rst", "LICENSE.txt")


def repo_root():
    return os.environ.get("VERIF_REPO", "/repo")


def _source_files(root):
    out = []
    src = os.path.join(root, "src")
    for d, dirs, files in os.walk(src):
        dirs[:] = sorted(x for x in dirs if x not in ("__pycache__", "build"))
        for f in sorted(files):
            if not f.endswith(SRC_EXT):
                continue
            # cython-generated C next to a .pyx is an artefact, not a source
            if f == "numerics.c":
                continue
            out.append(os.path.join(d, f))
    for f in TOP_FILES:
        p = os.path.join(root, f)
        if os.path.exists(p):
            out.append(p)
    return out


def tree_hash(root=None):
    root = root or repo_root()
    h = hashlib.sha256()
    for p in _source_files(root):
        h.update(os.path.relpath(p, root).encode())
        h.update(b"\0")
        with open(p, "rb") as fh:
            h.update(fh.read())
        h.update(b"\0")
    return h.hexdigest()[:12]


def ext_hash(root=None):
    """Hash of everything the compiled modules are made from (all sources
    except plain .py modules, plus the build configuration)."""
    root = root or repo_root()
    h = hashlib.sha256()
    for p in _source_files(root):
        rel = os.path.relpath(p, root)
        if rel.endswith(".py") and os.path.basename(rel) != "setup.py":
            continue
        h.update(rel.encode())
        h.update(b"\0")
        with open(p, "rb") as fh:
            h.update(fh.read())
        h.update(b"\0")
    return h.hexdigest()[:16]


def _reusable_extensions(flavour, eh):
    """Compiled modules of a finished build of the same flavour made from
    identical extension sources (only .py files differ), or None."""
    import glob
    for d in sorted(os.listdir(BUILD_ROOT)):
        full = os.path.join(BUILD_ROOT, d)
        if not d.startswith(flavour + "-") or ".tmp" in d:
            continue
        try:
            info = open(os.path.join(full, "BUILD_INFO")).read()
        except OSError:
            continue
        if "ext_hash=%s" % eh in info:
            sos = glob.glob(os.path.join(full, "src", "pyunicorn", "*", "_ext",
                                         "*.so"))
            if sos:
                return full, sos
    return None


def asan_env():
    """Environment needed to import an asan-flavoured build."""
    libasan = subprocess.check_output(
        ["gcc", "-print-file-name=libasan.so"], text=True).strip()
    libubsan = subprocess.check_output(
        ["gcc", "-print-file-name=libubsan.so"], text=True).strip()
    return {
        "LD_PRELOAD": libasan + ":" + libubsan,
        "ASAN_OPTIONS": "detect_leaks=0:halt_on_error=1:abort_on_error=0:"
                        "allocator_may_return_null=1:exitcode=99",
        "UBSAN_OPTIONS": "print_stacktrace=1:halt_on_error=1:exitcode=98",
    }


def _build(dest, flavour, root):
    tmp = dest + ".tmp%d" % os.getpid()
    shutil.rmtree(tmp, ignore_errors=True)
    os.makedirs(tmp)
    for p in _source_files(root):
        rel = os.path.relpath(p, root)
        os.makedirs(os.path.dirname(os.path.join(tmp, rel)), exist_ok=True)
        shutil.copy2(p, os.path.join(tmp, rel))
    env = dict(os.environ)
    env.pop("PYTHONPATH", None)
    if flavour == "asan":
        flags = ("-O1 -g -fno-omit-frame-pointer -fsanitize=address,undefined "
                 "-fno-sanitize-recover=undefined")
        env["CFLAGS"] = flags
        env["LDFLAGS"] = "-fsanitize=address,undefined"
    t0 = time.time()
    eh = ext_hash(root)
    reuse = _reusable_extensions(flavour, eh)
    if reuse is not None:
        # identical .pyx / .pxd / .c / .h / setup.py: the compiled modules of
        # that build are the compiled modules of this tree
        for so in reuse[1]:
            rel = os.path.relpath(so, reuse[0])
            shutil.copy2(so, os.path.join(tmp, rel))
        how = "extensions_from=%s" % os.path.basename(reuse[0])
    else:
        r = subprocess.run(
            [PY, "setup.py", "-q", "build_ext", "--inplace", "-j4"],
            cwd=tmp, env=env, stdout=subprocess.PIPE,
            stderr=subprocess.STDOUT, text=True)
        if r.returncode != 0:
            sys.stderr.write(r.stdout[-4000:])
            shutil.rmtree(tmp, ignore_errors=True)
            raise RuntimeError("build of %s flavour failed" % flavour)
        shutil.rmtree(os.path.join(tmp, "build"), ignore_errors=True)
        how = "compiled"
    with open(os.path.join(tmp, "BUILD_INFO"), "w") as fh:
        fh.write("flavour=%s root=%s build_s=%.1f ext_hash=%s %s\n"
                 % (flavour, root, time.time() - t0, eh, how))
    os.rename(tmp, dest)


def ensure(flavour="plain", root=None):
    """Return the directory whose ``src`` holds an importable build of the
    current working tree; build it if missing.  Safe under concurrency."""
    root = root or repo_root()
    os.makedirs(BUILD_ROOT, exist_ok=True)
    h = tree_hash(root)
    dest = os.path.join(BUILD_ROOT, "%s-%s" % (flavour, h))
    lock = open(os.path.join(BUILD_ROOT, "%s.lock" % flavour), "w")
    fcntl.flock(lock, fcntl.LOCK_EX)
    try:
        if not os.path.exists(os.path.join(dest, "BUILD_INFO")):
            shutil.rmtree(dest, ignore_errors=True)
            _build(dest, flavour, root)
        os.utime(dest, None)
        # garbage-collect older builds of this flavour (keep 3 most recent)
        olds = sorted(
            (d for d in os.listdir(BUILD_ROOT)
             if d.startswith(flavour + "-") and ".tmp" not in d
             and os.path.isdir(os.path.join(BUILD_ROOT, d))),
            key=lambda d: os.path.getmtime(os.path.join(BUILD_ROOT, d)))
        for d in olds[:-3]:
            full = os.path.join(BUILD_ROOT, d)
            # a concurrently running check may still import from an older
            # build (mutant trees via VERIF_REPO): only drop stale ones
            if full != dest and time.time() - os.path.getmtime(full) > 5400:
                shutil.rmtree(full, ignore_errors=True)
    finally:
        fcntl.flock(lock, fcntl.LOCK_UN)
        lock.close()
    return dest, h


if __name__ == "__main__":
    fl = sys.argv[1] if len(sys.argv) > 1 else "plain"
    t = time.time()
    d, h = ensure(fl)
    print(d, h, "%.1fs" % (time.time() - t))
