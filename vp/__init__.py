"""Verification machinery for pyunicorn (property-based testing / fuzzing)."""
