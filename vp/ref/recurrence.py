"""Reference model for recurrence matrices (C07; thresholds for C08).

Plain numpy / fractions; nothing from pyunicorn is imported.

Arithmetic documented by the library and mirrored here:

* time series are stored in single precision (``to_cy(x, FIELD)`` /
  ``astype("float32")``), the embedded state vectors are widened to double
  and all distances are computed and compared in double precision;
* ``R[i, j] = 1  iff  d(v_i, v_j) < eps`` (strict);
* delay embedding of a scalar series: ``v_k = (x[k], x[k+tau], ...,
  x[k+(dim-1)tau])``, ``k = 0 .. n-(dim-1)tau-1``.

Threshold decisions.  ``decide(D, thr, X, Y, metric)`` returns ``(R, free)``:
``R = D < thr`` and ``free`` marks the *boundary* cells whose answer may be
either 0 or 1 (DESIGN 2.9): cells whose distance was not computed exactly
(a rounded sum / square root, see ``is_exact``) and lies within 2 ulp of the
threshold.  Cells with an exactly computed distance (always the case for the
supremum metric and for integer / dyadic data) are never free: there the
comparison with the threshold is a mathematical fact, ties included.
"""
import math
from fractions import Fraction

import numpy as np

METRICS = ("manhattan", "euclidean", "supremum")


def to_array(series):
    """JSON literal (list of rows or of scalars, None = missing) -> float64
    array (n, d) holding the float32-rounded values, as the library stores
    them."""
    rows = []
    for r in series:
        if not isinstance(r, (list, tuple, np.ndarray)):
            r = [r]
        rows.append([np.nan if v is None else float(v) for v in r])
    a = np.array(rows, dtype=np.float64)
    if a.ndim == 1:
        a = a.reshape((len(rows), -1))
    with np.errstate(over="ignore", invalid="ignore"):
        return a.astype(np.float32).astype(np.float64)


def embed(x, dim, tau):
    """Delay embedding of the scalar series x (n,) or (n, 1)."""
    x = np.asarray(x, dtype=np.float64).reshape(-1)
    n = len(x) - (dim - 1) * tau
    out = np.empty((max(n, 0), dim), dtype=np.float64)
    for k in range(max(n, 0)):
        for j in range(dim):
            out[k, j] = x[k + j * tau]
    return out


def states(series, dim=None, tau=None):
    """State vectors of a case: float32-cast series, embedded if dim and tau
    are both given."""
    a = to_array(series)
    if dim is not None and tau is not None:
        return embed(a[:, 0], int(dim), int(tau))
    return a


def missing_states(V):
    return np.isnan(V).any(axis=1)


def distance_matrix(X, Y=None, metric="supremum"):
    """D[i, j] = d(X_i, Y_j) in double, coordinates accumulated left to right
    (the natural evaluation of the definition); NaN where either vector holds
    a missing value (also on the diagonal)."""
    X = np.asarray(X, dtype=np.float64)
    Y = X if Y is None else np.asarray(Y, dtype=np.float64)
    n, m = len(X), len(Y)
    acc = np.zeros((n, m), dtype=np.float64)
    with np.errstate(all="ignore"):
        for l in range(X.shape[1]):
            t = np.abs(X[:, l][:, None] - Y[:, l][None, :])
            if metric == "supremum":
                # NaN must propagate (np.maximum does)
                acc = np.maximum(acc, t)
            elif metric == "manhattan":
                acc = acc + t
            elif metric == "euclidean":
                acc = acc + t * t
            else:
                raise ValueError(metric)
        if metric == "euclidean":
            acc = np.sqrt(acc)
    return acc


def is_exact(u, v, metric):
    """Was d(u, v) computed without any rounding?"""
    if metric == "supremum":
        return True
    diffs = [abs(float(a) - float(b)) for a, b in zip(u, v)]
    if any(math.isnan(t) or math.isinf(t) for t in diffs):
        return True
    fd = [Fraction(t) for t in diffs]
    if not all(Fraction(float(a)) - Fraction(float(b)) in (t, -t)
               for a, b, t in zip(u, v, fd)):
        return False
    if metric == "manhattan":
        s = 0.0
        for t in diffs:
            s += t
        return Fraction(s) == sum(fd)
    s = 0.0
    for t in diffs:
        s += t * t
    if math.isinf(s):
        return False
    return Fraction(math.sqrt(s)) ** 2 == sum(t * t for t in fd)


def ulp(x):
    x = abs(float(x))
    if math.isinf(x) or math.isnan(x):
        return 0.0
    return math.ulp(x)


def decide(D, thr, X=None, Y=None, metric="supremum", rel_band=0.0):
    """R = (D < thr) and the mask of boundary cells that may go either way.

    X, Y: the state vectors D was computed from (Y None = X), needed to tell
    whether a near-threshold distance is exact.  rel_band > 0 widens the
    boundary to |d - thr| <= rel_band * max(|thr|, |d|) for every cell (used
    when the threshold itself comes out of single-precision arithmetic, e.g.
    threshold_std)."""
    thr = float(thr)
    D = np.asarray(D, dtype=np.float64)
    with np.errstate(invalid="ignore"):
        R = (D < thr).astype(np.int8)
        free = np.zeros(D.shape, dtype=bool)
        if math.isnan(thr):
            return R, free
        scale = np.maximum(np.abs(D), abs(thr))
        scale = np.where(np.isfinite(scale), scale, 0.0)
        near = np.abs(D - thr) <= 4 * np.spacing(np.maximum(scale, 1e-300))
        if rel_band:
            free |= np.abs(D - thr) <= rel_band * scale
    if metric != "supremum":
        Yv = X if Y is None else Y
        for idx in zip(*np.nonzero(near & ~free)):
            d = float(D[idx])
            if abs(d - thr) <= 2 * max(ulp(d), ulp(thr)) and \
                    not is_exact(X[idx[0]], Yv[idx[1]], metric):
                free[idx] = True
    return R, free


def agrees(R_lib, R_ref, free):
    """Library matrix equals the reference outside the boundary cells."""
    R_lib = np.asarray(R_lib)
    if R_lib.shape != R_ref.shape:
        return False
    return bool(np.all((R_lib == R_ref) | free))


# ------------------------------------------------------------ rate variants

def rate_index(rate, size):
    """Admissible 0-based order-statistic indices for ``rate``: the stated
    quantile floor(rate * (size - 1)), evaluated exactly and in double (the
    two may differ by one when rate*(size-1) rounds onto an integer)."""
    ks = {int(rate * (size - 1)),
          int(math.floor(Fraction(rate) * (size - 1)))}
    return sorted(k for k in ks if 0 <= k < size)


def check_rate_set(r, D, rate, X, Y=None, metric="supremum"):
    """Is the 0/1 array ``r`` an admissible fixed-rate threshold set of the
    distance array ``D`` (same 2-D shape, D[i, j] = d(X_i, Y_j); one row of
    a square matrix is passed as shape (1, n) with X = [v_i], Y = all)?

    Admissible (threshold_from_recurrence_rate: "the returned threshold can
    only approximately give the desired recurrence rate"): r = (D < t) for
    the order statistic t = D_(k), k = floor(rate*(size-1)); equivalently
      * r is a lower set of D (every marked distance < every unmarked one,
        equal distances treated alike),
      * count(r) <= k and count(r) >= k - (ties at D_(k) below position k).
    Inexactly computed distances within 2 ulp of t may go either way.
    Returns (ok, message, tie_free) - tie_free: the selected order statistic
    is a unique value, so count(r) == k is forced."""
    r = np.asarray(r).astype(int)
    D = np.asarray(D, dtype=float)
    srt = np.sort(D.ravel())          # NaN (missing) sorts to the end
    msgs = []
    for k in rate_index(rate, D.size):
        t = srt[k]
        want, free = decide(D, t, X, Y, metric)
        tie_free = int(np.sum(D == t)) == 1 and not free.any()
        if r.shape == want.shape and bool(np.all((r == want) | free)):
            return True, "", tie_free
        msgs.append("k=%d t=%r count=%d want=%d" % (
            k, float(t), int(r.sum()), int(want.sum())))
    return False, "; ".join(msgs), False


# --------------------------------------------------------------- compositions

def joint(Rx, Ry, lag):
    """Docstring of JointRecurrencePlot: JR(i, j) = Rx(i, j) * Ry(i+lag,
    j+lag) for lag >= 0 ("delayed version"); for lag < 0 the roles are
    exchanged: JR(i, j) = Rx(i-lag, j-lag) * Ry(i, j).  Size N - |lag|."""
    n = len(Rx)
    m = n - abs(lag)
    JR = np.zeros((max(m, 0), max(m, 0)), dtype=np.int8)
    for i in range(m):
        for j in range(m):
            if lag >= 0:
                JR[i, j] = Rx[i][j] * Ry[i + lag][j + lag]
            else:
                JR[i, j] = Rx[i - lag][j - lag] * Ry[i][j]
    return JR


def inter_system(Rx, Ry, CR):
    """Block matrix ((Rx, CR), (CR^T, Ry)) with zero diagonal."""
    nx, ny = len(Rx), len(Ry)
    A = np.zeros((nx + ny, nx + ny), dtype=np.int8)
    for i in range(nx):
        for j in range(nx):
            A[i, j] = Rx[i][j]
        for j in range(ny):
            A[i, nx + j] = CR[i][j]
            A[nx + j, i] = CR[i][j]
    for i in range(ny):
        for j in range(ny):
            A[nx + i, nx + j] = Ry[i][j]
    for i in range(nx + ny):
        A[i, i] = 0
    return A


def without_diagonal(R):
    A = np.array(R, dtype=np.int8).copy()
    for i in range(min(A.shape)):
        A[i, i] = 0
    return A
