"""Reference geometry for C12 (plain numpy / math, float64, no library code).

All functions take the coordinates *as stored by the library* (float32-cast
degrees / float32-cast Euclidean coordinates) and evaluate the closed forms in
float64, so that a disagreement is about the algorithm, never about the input.
"""
import itertools
import math

import numpy as np


def f32(x):
    """Coordinates as the library stores them (Grid casts to float32)."""
    return np.asarray(x, dtype=np.float64).astype(np.float32).astype(
        np.float64)


def great_circle_pair(lat1, lon1, lat2, lon2):
    """Great-circle angle (radians) between two points given in degrees.

    atan2 ("Vincenty on the sphere") form: well conditioned at 0 and at pi,
    independent of the clamped-arccos form used by the library."""
    p1 = math.radians(lat1)
    p2 = math.radians(lat2)
    dl = math.radians(lon2 - lon1)
    s1, c1 = math.sin(p1), math.cos(p1)
    s2, c2 = math.sin(p2), math.cos(p2)
    sd, cd = math.sin(dl), math.cos(dl)
    y = math.hypot(c2 * sd, c1 * s2 - s1 * c2 * cd)
    x = s1 * s2 + c1 * c2 * cd
    return math.atan2(y, x)


def haversine_pair(lat1, lon1, lat2, lon2):
    """Second independent closed form (well conditioned away from pi)."""
    p1 = math.radians(lat1)
    p2 = math.radians(lat2)
    dp = p2 - p1
    dl = math.radians(lon2 - lon1)
    h = math.sin(dp / 2) ** 2 + math.cos(p1) * math.cos(p2) * \
        math.sin(dl / 2) ** 2
    return 2 * math.asin(min(1.0, math.sqrt(h)))


def great_circle_matrix(lat, lon):
    lat = [float(v) for v in lat]
    lon = [float(v) for v in lon]
    n = len(lat)
    D = np.zeros((n, n))
    for i in range(n):
        for j in range(n):
            if i != j:
                D[i, j] = great_circle_pair(lat[i], lon[i], lat[j], lon[j])
    return D


def great_circle_to_point(lat, lon, qlat, qlon):
    return np.array([great_circle_pair(float(a), float(b), float(qlat),
                                       float(qlon))
                     for a, b in zip(lat, lon)])


ABS_CLAIM = 2.0 ** -10


def angular_bound(theta):
    """err <= min(2^-10, 2^-18 + 2^-20 / sin(theta))  (DESIGN 3/C12).

    2^-10: the property's absolute claim; 2^-18: float32 degree->radian
    conversion of two nodes plus the float32 arccos result; 2^-20/sin: the
    rounding of the float32 cosine divided by the slope of arccos."""
    theta = np.asarray(theta, dtype=np.float64)
    s = np.abs(np.sin(theta))
    with np.errstate(divide="ignore"):
        b = 2.0 ** -18 + np.where(s > 0, 2.0 ** -20 / np.where(s > 0, s, 1.0),
                                  np.inf)
    return np.minimum(ABS_CLAIM, b)


def euclidean_matrix(X):
    """X: [dim, N] -> [N, N] float64 distances."""
    X = np.asarray(X, dtype=np.float64)
    n = X.shape[1]
    D = np.zeros((n, n))
    for i in range(n):
        for j in range(n):
            D[i, j] = math.sqrt(math.fsum((X[k, i] - X[k, j]) ** 2
                                          for k in range(X.shape[0])))
    return D


def euclidean_to_point(X, q):
    X = np.asarray(X, dtype=np.float64)
    q = np.asarray(q, dtype=np.float64)
    return np.array([math.sqrt(math.fsum((X[k, i] - q[k]) ** 2
                                         for k in range(X.shape[0])))
                     for i in range(X.shape[1])])


def rect_product_2d(a, b):
    """Documented order of coord_sequence_from_rect_grid for two axes
    (docstring example: axes [0,5],[1,2] -> [0,0,5,5],[1,2,1,2]): the first
    axis varies slowest, the second fastest."""
    pairs = list(itertools.product(list(a), list(b)))
    return (np.array([p[0] for p in pairs], dtype=np.float64),
            np.array([p[1] for p in pairs], dtype=np.float64))


def product_multiset(axes):
    return sorted(itertools.product(*[list(map(float, ax)) for ax in axes]))


def cos_lat(lat_deg):
    return np.array([math.cos(math.radians(float(v))) for v in lat_deg])
