"""Reference statistics for C10 (similarity and coupling estimates).

Plain numpy / scipy / math evaluations of the textbook definitions.  Nothing
here imports pyunicorn.  All functions take float64 arrays with time along
axis 0 (``X[t, k]``) unless stated otherwise and return float64.

Lag convention of ``CouplingAnalysis`` (docstrings of cross_correlation /
mutual_information / information_transfer): entry ``(i, j, tau)`` is the
statistic of ``X^i_{t-tau}`` and ``X^j_t``; with a maximum lag ``L`` the
samples used are ``t = L .. T-1``, i.e. the windows

    x = X[L - tau : T - tau, i]         y = X[L : T, j]
"""
import math
from collections import Counter

import numpy as np
from scipy import special
from scipy import stats as sstats

NAN = float("nan")


# --------------------------------------------------------------- basic tools

def is_constant(x):
    x = np.asarray(x)
    return bool(x.size == 0 or np.all(x == x.flat[0]))


def pearson(x, y):
    """Textbook Pearson correlation coefficient; NaN if a series is constant
    (the statistic is undefined there)."""
    x = np.asarray(x, dtype=np.float64)
    y = np.asarray(y, dtype=np.float64)
    if is_constant(x) or is_constant(y):
        return NAN
    xc = x - math.fsum(x) / len(x)
    yc = y - math.fsum(y) / len(y)
    sxx = math.fsum(xc * xc)
    syy = math.fsum(yc * yc)
    if sxx == 0.0 or syy == 0.0:
        return NAN
    return math.fsum(xc * yc) / math.sqrt(sxx * syy)


def pearson_matrix(A):
    """A[t, k] -> (N, N) matrix of Pearson coefficients of the columns."""
    A = np.asarray(A, dtype=np.float64)
    n = A.shape[1]
    out = np.full((n, n), NAN)
    for i in range(n):
        for j in range(i, n):
            out[i, j] = out[j, i] = pearson(A[:, i], A[:, j])
    return out


def lag_windows(X, i, j, tau, max_lag):
    """The two sample windows for (X^i_{t-tau}, X^j_t), t = max_lag..T-1."""
    T = X.shape[0]
    return X[max_lag - tau:T - tau, i], X[max_lag:T, j]


# --------------------------------------------------- lagged cross-correlation

def cross_correlation_all(X, tau_max):
    """(N, N, tau_max+1) lag functions rho(X^i_{t-tau}, X^j_t); NaN where a
    window is constant."""
    X = np.asarray(X, dtype=np.float64)
    N = X.shape[1]
    out = np.full((N, N, tau_max + 1), NAN)
    for i in range(N):
        for j in range(N):
            for tau in range(tau_max + 1):
                x, y = lag_windows(X, i, j, tau, tau_max)
                out[i, j, tau] = pearson(x, y)
    return out


def absmax_lags(lagfunc, tol):
    """Set of lags whose |value| is within ``tol`` of the largest |value|
    (all of them are acceptable answers for 'lag at the absolute maximum'
    when the comparison is made in finite precision)."""
    a = np.abs(np.asarray(lagfunc, dtype=np.float64))
    if np.all(np.isnan(a)):
        return set(range(len(a))), NAN
    m = np.nanmax(a)
    return {int(k) for k in range(len(a))
            if not np.isnan(a[k]) and a[k] >= m - tol}, float(m)


def symmetrize_by_absmax(S, L):
    """Definition from the docstring: for every unordered pair the entry with
    the larger absolute value is kept for both orders; the lag of the mirrored
    entry changes sign.  Returns (S_sym, L_sym, tie_mask) where tie_mask marks
    pairs with |S_ij| == |S_ji| (either entry may be taken there)."""
    S = np.array(S, dtype=np.float64)
    L = np.array(L, dtype=np.int64)
    n = S.shape[0]
    S2 = S.copy()
    L2 = L.copy()
    tie = np.zeros((n, n), dtype=bool)
    for i in range(n):
        for j in range(i + 1, n):
            if abs(S[i, j]) > abs(S[j, i]):
                S2[j, i] = S[i, j]
                L2[j, i] = -L[i, j]
            elif abs(S[i, j]) < abs(S[j, i]):
                S2[i, j] = S[j, i]
                L2[i, j] = -L[j, i]
            else:
                tie[i, j] = tie[j, i] = True
    return S2, L2, tie


# ----------------------------------------------------------- rank statistics

def average_ranks(A):
    """Fractional ranks (ties share the mean of their positions), per column."""
    A = np.asarray(A, dtype=np.float64)
    return np.column_stack([sstats.rankdata(A[:, k], method="average")
                            for k in range(A.shape[1])])


def has_ties(A):
    A = np.asarray(A)
    return any(len(np.unique(A[:, k])) < A.shape[0]
               for k in range(A.shape[1]))


def spearman_matrix(A):
    """Spearman's rho = Pearson correlation of the fractional ranks."""
    return pearson_matrix(average_ranks(A))


# -------------------------------------------------------- partial correlation

def _residual(y, Z):
    """Residual of the least-squares regression of y on [1, Z]."""
    T = len(y)
    D = np.column_stack([np.ones(T)] + ([Z] if Z is not None and
                                        Z.size else []))
    coef = np.linalg.lstsq(D, y, rcond=None)[0]
    return y - D @ coef


def design_condition(Z):
    """2-norm condition number of the standardised conditioning set."""
    if Z is None or Z.size == 0:
        return 1.0
    Z = np.asarray(Z, dtype=np.float64)
    Zc = Z - Z.mean(axis=0)
    sd = np.sqrt((Zc * Zc).sum(axis=0))
    if np.any(sd == 0):
        return float("inf")
    s = np.linalg.svd(Zc / sd, compute_uv=False)
    if s[-1] == 0 or Z.shape[0] <= Z.shape[1]:
        return float("inf")
    return float(s[0] / s[-1])


def partial_correlation(x, y, Z):
    """Correlation of the residuals of x and y after linear regression on the
    columns of Z (with intercept).  Returns (rho, kept) where ``kept`` is the
    smaller share of variance left in a residual (tiny = degenerate)."""
    x = np.asarray(x, dtype=np.float64)
    y = np.asarray(y, dtype=np.float64)
    Z = None if Z is None else np.asarray(Z, dtype=np.float64)
    rx = _residual(x, Z)
    ry = _residual(y, Z)
    vx = math.fsum((x - x.mean()) ** 2)
    vy = math.fsum((y - y.mean()) ** 2)
    if vx == 0 or vy == 0:
        return NAN, 0.0
    kept = min(math.fsum(rx * rx) / vx, math.fsum(ry * ry) / vy)
    sxx = math.fsum(rx * rx)
    syy = math.fsum(ry * ry)
    if sxx == 0 or syy == 0:
        return NAN, 0.0
    return math.fsum(rx * ry) / math.sqrt(sxx * syy), kept


def partial_correlation_matrix(A):
    """Partial correlation of every pair of columns given all other columns
    (regression-residual definition).  Returns (P, kept) with NaN diagonal."""
    A = np.asarray(A, dtype=np.float64)
    n = A.shape[1]
    P = np.full((n, n), NAN)
    kept = np.ones((n, n))
    for i in range(n):
        for j in range(i + 1, n):
            others = [k for k in range(n) if k not in (i, j)]
            r, kp = partial_correlation(A[:, i], A[:, j], A[:, others])
            P[i, j] = P[j, i] = r
            kept[i, j] = kept[j, i] = kp
    return P, kept


# ------------------------------------------------------- mutual information

def plugin_mi(sx, sy):
    """Plug-in (maximum-likelihood) mutual information of two symbol
    sequences, natural logarithm: sum p_xy log(p_xy / (p_x p_y))."""
    sx = [int(v) for v in sx]
    sy = [int(v) for v in sy]
    n = len(sx)
    cx = Counter(sx)
    cy = Counter(sy)
    cxy = Counter(zip(sx, sy))
    return math.fsum(c / n * math.log(c * n / (cx[a] * cy[b]))
                     for (a, b), c in cxy.items())


def plugin_entropy(s):
    n = len(s)
    return -math.fsum(c / n * math.log(c / n)
                      for c in Counter(int(v) for v in s).values())


def quantile_symbols(x, bins):
    """Equal-quantile ('aequi-quantile') symbols as documented for
    CouplingAnalysis: the lower bin edges are every ceil(T/bins)-th order
    statistic; a sample gets the index of the last edge that is <= it."""
    x = np.asarray(x, dtype=np.float64)
    T = len(x)
    step = int(math.ceil(T / float(bins)))
    edges = np.sort(x)[::step]
    return np.searchsorted(edges, x, side="right") - 1, len(edges)


def equal_width_symbols(x, lo, hi, n_bins, dtype=np.float64):
    """Equal-width symbols over the common range [lo, hi]:
    floor(n_bins * (x - lo) / (hi - lo)), the maximum goes to the last bin.
    Returns (symbols, margin) where margin is the smallest distance (in bin
    units) of a sample from an interior bin boundary."""
    x = np.asarray(x, dtype=np.float64)
    r = (x - lo) / (hi - lo) * n_bins
    s = np.floor(r).astype(np.int64)
    s = np.clip(s, 0, n_bins - 1)
    near = np.rint(r)
    interior = (near >= 1) & (near <= n_bins - 1)
    margin = np.min(np.abs(r - near)[interior]) if interior.any() else 1.0
    return s, float(margin)


def gauss_mi(rho):
    """MI of a bivariate Gaussian with correlation rho (also the Gaussian
    conditional MI for a partial correlation): -0.5*log(1-rho^2)."""
    if rho is None or math.isnan(rho):
        return NAN
    v = 1.0 - rho * rho
    if v <= 0.0:
        return float("inf")
    return -0.5 * math.log(v)


# ------------------------------------------- kNN (Kraskov / Frenzel-Pompe)

def standardize_rows_f32(array):
    """(dim, T) float64 -> float32 rows with zero mean and unit variance, the
    single-precision standardisation CouplingAnalysis documents for its kNN
    estimator (``standardize=True``)."""
    a = np.asarray(array).astype(np.float32)
    dim = a.shape[0]
    a -= a.mean(axis=1).reshape(dim, 1)
    a /= a.std(axis=1).reshape(dim, 1)
    return a


def knn_counts(arr, dim_x, dim_y, k):
    """Brute-force neighbour counts of the Frenzel-Pompe estimator.

    arr: (dim, T) float32 array; rows 0..dim_x-1 = X, next dim_y rows = Y,
    the rest = Z.  For every sample i: eps_i = maximum-norm distance to its
    k-th nearest neighbour in the joint space (the sample itself excluded);
    k_z / k_xz / k_yz = number of samples (itself included) whose distance in
    the Z / XZ / YZ subspace is strictly smaller than eps_i."""
    arr = np.asarray(arr, dtype=np.float32)
    dim, T = arr.shape
    d = np.abs(arr[:, :, None] - arr[:, None, :])        # float32 differences
    dxyz = d.max(axis=0)
    eps = np.sort(dxyz, axis=1)[:, k]                    # [i, 0] is i itself
    dx = d[:dim_x].max(axis=0)
    dy = d[dim_x:dim_x + dim_y].max(axis=0)
    if dim > dim_x + dim_y:
        dz = d[dim_x + dim_y:].max(axis=0)
    else:
        dz = np.zeros((T, T), dtype=np.float32)
    e = eps.reshape(T, 1)
    inz = dz < e
    k_z = inz.sum(axis=1)
    k_xz = (inz & (dx < e)).sum(axis=1)
    k_yz = (inz & (dy < e)).sum(axis=1)
    return k_xz, k_yz, k_z


def fp_cmi(k, k_xz, k_yz, k_z):
    """psi(k) + < psi(k_z) - psi(k_xz) - psi(k_yz) >."""
    with np.errstate(all="ignore"):
        return float(special.digamma(k) + (
            special.digamma(np.asarray(k_z, dtype=float))
            - special.digamma(np.asarray(k_xz, dtype=float))
            - special.digamma(np.asarray(k_yz, dtype=float))).mean())


# --------------------------------------------------- conditioning-set layout

def transfer_rows(X, i, j, tau, tau_max, past, cond_mode):
    """Rows [X^i_{t-tau}; X^j_t; conditions...] of the (dim, T-L) array of
    the bivariate information transfer, L = tau_max + past (docstring of
    information_transfer):  ITY conditions on X^j_{t-1..t-past}; MIT
    additionally on X^i_{t-tau-1..t-tau-past}."""
    X = np.asarray(X, dtype=np.float64)
    T = X.shape[0]
    L = tau_max + past
    nodes = [(i, tau), (j, 0)] + [(j, p) for p in range(1, past + 1)]
    if cond_mode == "mit":
        nodes += [(i, tau + p) for p in range(1, past + 1)]
    return np.array([X[L - lag:T - lag, var] for var, lag in nodes])
