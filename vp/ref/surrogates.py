"""Reference notions for C15 (surrogates): delay embedding, supremum-norm
recurrence matrix, twins, admissible twin-surrogate transitions, amplitude
spectra.  Plain numpy / python loops, no library code."""
import numpy as np


def embed(row, dimension, delay):
    """Delay embedding of one scalar series: state k = (x[k], x[k+delay],
    ..., x[k+(dimension-1)*delay]), k = 0 .. n-(dimension-1)*delay-1."""
    row = [float(v) for v in row]
    n_emb = len(row) - (dimension - 1) * delay
    return [[row[k + l * delay] for l in range(dimension)]
            for k in range(n_emb)]


def recurrence_matrix(states, threshold, strict=False):
    """R[j][k] = 1 iff the supremum-norm distance of states j and k is
    <= threshold (< threshold if ``strict``)."""
    n = len(states)
    R = [[0] * n for _ in range(n)]
    for j in range(n):
        for k in range(n):
            d = 0.0
            for a, b in zip(states[j], states[k]):
                d = max(d, abs(a - b))
            R[j][k] = int(d < threshold if strict else d <= threshold)
    return R


def twins_of(R, min_dist):
    """twins[j] = sorted list of all k with |j-k| > min_dist whose recurrence
    neighbourhood (row of R) is identical to that of j."""
    n = len(R)
    out = []
    for j in range(n):
        out.append([k for k in range(n)
                    if abs(j - k) > min_dist and R[j] == R[k]])
    return out


def bad_transitions(path, twins, n_states):
    """Indices j at which the surrogate's step path[j] -> path[j+1] is neither
    'own successor' nor 'successor of a twin' nor a restart that is forced
    because such a successor would lie beyond the last state."""
    bad = []
    for j in range(len(path) - 1):
        k, k2 = path[j], path[j + 1]
        cands = [k] + list(twins[k])
        if any(m + 1 == k2 for m in cands):
            continue
        if any(m + 1 >= n_states for m in cands):
            continue            # successor leaves the series: free restart
        bad.append(j)
    return bad


def amplitude_spectrum(row):
    return np.abs(np.fft.rfft(np.asarray(row, dtype=np.float64)))


def interior_frequencies(n):
    """Indices of the non-zero, non-Nyquist frequencies of a length-n series."""
    return list(range(1, (n - 1) // 2 + 1))
