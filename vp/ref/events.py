"""Reference model for event synchronisation (ES), event coincidence analysis
(ECA) and event extraction by thresholding - literal loop evaluation of the
formulas the repository publishes
(docs/source/examples/tutorials/EventSeriesAnalysis.ipynb and the docstrings
of pyunicorn/eventseries/event_series.py).  No library code is used.

All event times are ``fractions.Fraction`` (built exactly from the floats the
library receives), so every ``<=`` / ``==`` below is decided exactly.

ES   tau_lm = 1/2 min{t_{l+1}-t_l, t_l-t_{l-1}, t'_{m+1}-t'_m, t'_m-t'_{m-1}}
     capped by taumax;  J_lm = 1 if 0 < t_l - t'_m <= tau_lm, 1/2 if equal,
     else 0;  c(x|y) = sum over interior events l=2..s_x-1, m=2..s_y-1;
     Q(x|y) = c(x|y) / sqrt((s_x-2)(s_y-2)).
     (t' = second series shifted by +lag, as the docstring of
     event_synchronization states.)

ECA  r_p(x|y) = 1/(s_x - s_x') sum_{l > s_x'} Theta[ sum_m 1_[0,DT]((t_l - lag) - t_m) ]
     r_t(x|y) = 1/(s_y - s_y'') sum_{m <= s_y - s_y''} Theta[ sum_l 1_[0,DT]((t_l - lag) - t_m) ]
     s'  = number of events within lag + DT of the series' first event,
     s'' = number of events within lag + DT of the series' last event
     (both 0 for instantaneous coincidence lag = DT = 0) - as the code
     comments of event_coincidence_analysis define them.
"""
from fractions import Fraction
import math

INF = float("inf")


def frac(v):
    """Exact Fraction of a finite float / int."""
    return Fraction(v)


def event_times(series, ts=None):
    """Times of the events (entries equal to 1) of a 0/1 sequence."""
    out = []
    for k, v in enumerate(series):
        if v:
            out.append(Fraction(k) if ts is None else Fraction(ts[k]))
    return out


# ------------------------------------------------------------------ ES

def es_counts(tx, ty, taumax=INF, lag=0):
    """c(x|y), c(y|x) of the published ES formula (Fractions), plus
    bookkeeping.  ``tx`` / ``ty`` strictly increasing Fractions.

    Returns dict(status, cxy, cyx, sx, sy, n_coinc, both_directions).
      status 'empty'   : a series has no event   (formula 0/0 ... undefined)
             'few'     : a series has 1 or 2 events (no interior event;
                         the normalisation is 0 or imaginary)
             'ok'
      both_directions  : some event takes part in a coincidence x-after-y
                         AND in a coincidence y-after-x; only then the
                         double-count correction of Odenweller (2020), which
                         the repository cites but does not spell out, differs
                         from the plain formula.
    """
    lag = Fraction(lag)
    ty = [t + lag for t in ty]
    sx, sy = len(tx), len(ty)
    res = {"sx": sx, "sy": sy, "cxy": None, "cyx": None, "n_coinc": 0,
           "both_directions": False}
    if sx == 0 or sy == 0:
        res["status"] = "empty"
        return res
    if sx < 3 or sy < 3:
        res["status"] = "few"
        return res
    res["status"] = "ok"
    cap = None if taumax == INF else Fraction(taumax)
    cxy = Fraction(0)
    cyx = Fraction(0)
    x_in_xy, x_in_yx, y_in_xy, y_in_yx = set(), set(), set(), set()
    n_coinc = 0
    for l in range(1, sx - 1):
        for m in range(1, sy - 1):
            tau = min(tx[l + 1] - tx[l], tx[l] - tx[l - 1],
                      ty[m + 1] - ty[m], ty[m] - ty[m - 1]) / 2
            if cap is not None and cap < tau:
                tau = cap
            d = tx[l] - ty[m]
            if d == 0:
                cxy += Fraction(1, 2)
                cyx += Fraction(1, 2)
                n_coinc += 1
            elif 0 < d <= tau:
                cxy += 1
                x_in_xy.add(l)
                y_in_xy.add(m)
                n_coinc += 1
            elif 0 < -d <= tau:
                cyx += 1
                x_in_yx.add(l)
                y_in_yx.add(m)
                n_coinc += 1
    res["cxy"], res["cyx"] = cxy, cyx
    res["n_coinc"] = n_coinc
    res["both_directions"] = bool((x_in_xy & x_in_yx) or (y_in_xy & y_in_yx))
    return res


def es_strengths(tx, ty, taumax=INF, lag=0):
    """(Q(x|y), Q(y|x), info).  Q is None where the formula is undefined."""
    r = es_counts(tx, ty, taumax, lag)
    if r["status"] != "ok":
        return None, None, r
    norm = math.sqrt((r["sx"] - 2) * (r["sy"] - 2))
    return float(r["cxy"]) / norm, float(r["cyx"]) / norm, r


# ----------------------------------------------------------------- ECA

def _boundary(t, width, instantaneous):
    """(s', s''): events within ``width`` of the first / of the last event."""
    if instantaneous or not t:
        return 0, 0
    s1 = sum(1 for v in t if v <= t[0] + width)
    s2 = sum(1 for v in t if v >= t[-1] - width)
    return s1, s2


def _has_partner(t, others, lag, lo, hi):
    """Theta[ sum_m 1_[lo,hi]((t - lag) - t_m) ]."""
    for u in others:
        d = (t - lag) - u
        if lo <= d <= hi:
            return True
    return False


def eca_rates(tx, ty, taumax, lag=0):
    """Precursor / trigger rates in the library's output order
    (r_p(x|y), r_t(x|y), r_p(y|x), r_t(y|x)), each as (count, denominator)
    with integer entries, plus the number of coincident pairs."""
    DT = Fraction(taumax)
    lag = Fraction(lag)
    inst = (lag == 0 and DT == 0)
    sx, sy = len(tx), len(ty)
    sxp, sxt = _boundary(tx, lag + DT, inst)
    syp, syt = _boundary(ty, lag + DT, inst)
    # precursor x|y: events of x beyond the start zone preceded by a y event
    p12 = sum(1 for l in range(sxp, sx)
              if _has_partner(tx[l], ty, lag, 0, DT))
    # trigger x|y: events of y before the end zone followed by an x event
    t12 = sum(1 for m in range(0, sy - syt)
              if any(0 <= (tx[l] - lag) - ty[m] <= DT for l in range(sx)))
    p21 = sum(1 for m in range(syp, sy)
              if _has_partner(ty[m], tx, lag, 0, DT))
    t21 = sum(1 for l in range(0, sx - sxt)
              if any(0 <= (ty[m] - lag) - tx[l] <= DT for m in range(sy)))
    pairs = sum(1 for a in tx for b in ty
                if 0 <= (a - lag) - b <= DT or 0 <= (b - lag) - a <= DT)
    return ((p12, sx - sxp), (t12, sy - syt), (p21, sy - syp),
            (t21, sx - sxt)), pairs


def eca_window_rates(tx, ty, taumax, lag, window):
    """Coincidence rates (x|y), (y|x) of event_series_analysis for the window
    types 'advanced' (precursor, window [0,DT], start zone excluded),
    'retarded' (trigger, window [0,DT], end zone excluded) and 'symmetric'
    (window [-DT,DT], both zones excluded), as (count, denominator)."""
    (p12, t12, p21, t21), pairs = eca_rates(tx, ty, taumax, lag)
    if window == "advanced":
        return p12, p21, pairs
    if window == "retarded":
        return t12, t21, pairs
    if window != "symmetric":
        raise ValueError(window)
    DT = Fraction(taumax)
    lag = Fraction(lag)
    inst = (lag == 0 and DT == 0)
    sx, sy = len(tx), len(ty)
    sxp, sxt = _boundary(tx, lag + DT, inst)
    syp, syt = _boundary(ty, lag + DT, inst)
    c12 = sum(1 for l in range(sxp, sx - sxt)
              if _has_partner(tx[l], ty, lag, -DT, DT))
    c21 = sum(1 for m in range(syp, sy - syt)
              if _has_partner(ty[m], tx, lag, -DT, DT))
    pairs = sum(1 for a in tx for b in ty
                if -DT <= (a - lag) - b <= DT or -DT <= (b - lag) - a <= DT)
    return (c12, sx - sxp - sxt), (c21, sy - syp - syt), pairs


def rate_value(cd):
    """float value of (count, denominator); None if the denominator is not
    positive (0/0 or an empty / negative averaging set: undefined)."""
    c, d = cd
    if d <= 0:
        return None
    return c / d


# --------------------------------------------------- symmetrisation table

def symmetrise(D, option):
    """Loop version of the documented symmetrisation options applied to a
    square list-of-lists ``D`` (None = undefined entry, propagates)."""
    n = len(D)
    out = [[None] * n for _ in range(n)]
    for i in range(n):
        for j in range(n):
            a, b = D[i][j], D[j][i]
            if option == "directed":
                out[i][j] = a
            elif a is None or b is None:
                out[i][j] = None
            elif option == "symmetric":
                out[i][j] = a + b
            elif option == "antisym":
                out[i][j] = a - b
            elif option == "mean":
                out[i][j] = (a + b) / 2.0
            elif option == "max":
                out[i][j] = max(a, b)
            elif option == "min":
                out[i][j] = min(a, b)
            else:
                raise ValueError(option)
    return out


# ------------------------------------------------------------ thresholding

def quantile_linear(values, q):
    """Exact q-quantile by sorting and linear interpolation between order
    statistics (position q*(n-1)); Fractions in, Fraction out."""
    s = sorted(values)
    n = len(s)
    pos = Fraction(q) * (n - 1)
    lo = pos.numerator // pos.denominator
    if lo >= n - 1:
        return s[n - 1]
    return s[lo] + (s[lo + 1] - s[lo]) * (pos - lo)


def median(values):
    return quantile_linear(values, Fraction(1, 2))


def threshold_events(column, method, value, kind):
    """Exact event marks of one variable.

    column : list of Fractions;  method 'quantile' | 'value';
    value  : Fraction or None (None = median, the documented default);
    kind   : 'above' | 'below' | None (None = documented default: 'above'
             iff the quantile >= 0.5, resp. the threshold >= median).
    Returns (threshold, kind, marks) or ('reject', reason)."""
    med = median(column)
    if method == "quantile":
        q = Fraction(1, 2) if value is None else value
        if q < 0 or q > 1:
            return ("reject", "quantile outside [0,1]")
        thr = quantile_linear(column, q)
        if kind is None:
            kind = "above" if q >= Fraction(1, 2) else "below"
    elif method == "value":
        if value is None:
            thr = med
        else:
            if value > max(column) or value < min(column):
                return ("reject", "value outside the variable's range")
            thr = value
        if kind is None:
            kind = "above" if thr >= med else "below"
    else:
        raise ValueError(method)
    if kind == "above":
        marks = [1 if v > thr else 0 for v in column]
    else:
        marks = [1 if v < thr else 0 for v in column]
    return thr, kind, marks
