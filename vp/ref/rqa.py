"""Reference model for recurrence quantification analysis (C08, used by C07).

Everything here is a direct, loop-level transcription of the definitions in
Marwan et al., Phys. Rep. 438 (2007), section 3.5 and of the docstrings of
``pyunicorn.timeseries.RecurrencePlot``; no library code is used.

Conventions (those of the library's docstrings):

* a histogram ``P`` of an ``n x n`` matrix has ``n`` entries and ``P[l-1]`` is
  the number of lines of length exactly ``l``;
* a *vertical* line at time ``i`` is a maximal run, in ``j``, of
  ``R[i, j] == 1`` (Marwan 2007, eq. 51: ``prod_k R[i, j+k]``); a *white*
  vertical line is the same for ``R[i, j] == 0``;
* a *diagonal* line is a maximal run of ones along ``R[i+k, j+k]`` with
  ``i != j`` (the main diagonal, the line of identity, is not counted);
* with missing-value handling, a cell ``(i, j)`` is *missing* iff sample ``i``
  or sample ``j`` is missing; a run never contains a missing cell, and a run
  that is directly preceded or followed, along its line, by a missing cell is
  not counted ("lines touching missing entries are not counted").
"""
import math


def runs(cells, missing=None):
    """Lengths of the maximal runs of truthy entries of the sequence ``cells``.

    ``missing`` (same length, optional): cells flagged missing end a run and
    every run adjacent to such a cell is dropped.  Returns a list of
    ``(start, length, dropped)``."""
    n = len(cells)
    out = []
    i = 0
    while i < n:
        if (missing is not None and missing[i]) or not cells[i]:
            i += 1
            continue
        j = i
        while j < n and cells[j] and not (missing is not None and missing[j]):
            j += 1
        dropped = False
        if missing is not None:
            if i > 0 and missing[i - 1]:
                dropped = True
            if j < n and missing[j]:
                dropped = True
        out.append((i, j - i, dropped))
        i = j
    return out


def _hist(n, lines):
    h = [0] * n
    for _, length, dropped in lines:
        if not dropped:
            h[length - 1] += 1
    return h


def vertline_hist(R, black=True, miss=None):
    """Histogram of vertical lines (runs over j of R[i][j] == black)."""
    n = len(R)
    m = len(R[0]) if n else 0
    lines = []
    want = 1 if black else 0
    for i in range(n):
        cells = [int(R[i][j]) == want for j in range(m)]
        mv = None
        if miss is not None:
            mv = [bool(miss[i]) or bool(miss[j]) for j in range(m)]
        lines += runs(cells, mv)
    return _hist(max(n, m), lines)


def diagline_hist(R, miss=None, triangle="both"):
    """Histogram of diagonal lines off the main diagonal.

    triangle = "both" counts the whole matrix, "lower"/"upper" one half."""
    n = len(R)
    lines = []
    for d in range(1, n):
        if triangle in ("both", "lower"):
            idx = [(k + d, k) for k in range(n - d)]
            lines += _diag_runs(R, idx, miss)
        if triangle in ("both", "upper"):
            idx = [(k, k + d) for k in range(n - d)]
            lines += _diag_runs(R, idx, miss)
    return _hist(n, lines)


def _diag_runs(R, idx, miss):
    cells = [int(R[a][b]) == 1 for a, b in idx]
    mv = None
    if miss is not None:
        mv = [bool(miss[a]) or bool(miss[b]) for a, b in idx]
    return runs(cells, mv)


def border_or_missing_contact(R, miss=None):
    """Non-triviality helper: (a black vertical/diagonal line starts or ends at
    the matrix border without filling its whole line, a counted-or-dropped
    line is adjacent to a missing cell)."""
    n = len(R)
    border = False
    contact = False
    for i in range(n):
        mv = None if miss is None else \
            [bool(miss[i]) or bool(miss[j]) for j in range(n)]
        for s, ln, dropped in runs([int(v) == 1 for v in R[i]], mv):
            if (s == 0 or s + ln == n) and ln < n:
                border = True
            contact = contact or dropped
    for d in range(1, n):
        idx = [(k + d, k) for k in range(n - d)]
        for s, ln, dropped in _diag_runs(R, idx, miss):
            if (s == 0 or s + ln == n - d) and ln < n - d:
                border = True
            contact = contact or dropped
    return border, contact


# ---------------------------------------------------------------- scalars
# "stated functions of the histograms" (docstrings of RecurrencePlot):
#   DET  = sum_{l>=lmin} l P(l) / sum_{l>=1} l P(l)
#   L    = sum_{l>=lmin} l P(l) / sum_{l>=lmin} P(l)
#   Lmax = max{l : P(l) > 0}  (0 for an empty histogram)
#   ENTR = - sum_{l>=lmin} p(l) ln p(l),  p(l) = P(l) / sum_{l>=lmin} P(l)
# LAM / TT / Vmax and the white-line measures are the same functions of the
# vertical / white-vertical histograms.  Empty sums give 0 (the library
# regularises every denominator with +1e-8, hence the 1e-6 tolerance used by
# the callers).

def points_ratio(P, lmin):
    """DET / LAM."""
    num = sum(l * P[l - 1] for l in range(max(1, lmin), len(P) + 1))
    den = sum(l * P[l - 1] for l in range(1, len(P) + 1))
    return num / den if den else 0.0


def average_length(P, lmin):
    """L / TT / mean recurrence time."""
    num = sum(l * P[l - 1] for l in range(max(1, lmin), len(P) + 1))
    den = sum(P[l - 1] for l in range(max(1, lmin), len(P) + 1))
    return num / den if den else 0.0


def max_length(P):
    return max([l for l in range(1, len(P) + 1) if P[l - 1] > 0], default=0)


def entropy(P, lmin):
    cnt = [P[l - 1] for l in range(max(1, lmin), len(P) + 1) if P[l - 1] > 0]
    tot = sum(cnt)
    if not tot:
        return 0.0
    return -sum((c / tot) * math.log(c / tot) for c in cnt)


def weighted_sum(P):
    """sum_l l * P(l): number of matrix cells covered by the lines."""
    return sum(l * int(P[l - 1]) for l in range(1, len(P) + 1))
