"""Reference model for structural network measures: slow, dense, straight
from the definitions quoted in the library's docstrings / the cited papers.
No pyunicorn, no igraph, no scipy.sparse.  Inputs: dense 0/1 numpy arrays."""
import itertools
from math import comb

import numpy as np

INF = np.inf


# ---------------------------------------------------------------- degrees

def indegree(A):
    return np.asarray(A).sum(axis=0)


def outdegree(A):
    return np.asarray(A).sum(axis=1)


def degree(A, directed):
    return indegree(A) + outdegree(A) if directed else outdegree(A)


def bildegree(A):
    A = np.asarray(A)
    return (A * A.T).sum(axis=1)


def strengths(A, W):
    """(in, out, bilateral) strengths for link weights W (only on links)."""
    Wm = np.asarray(W, dtype=float) * (np.asarray(A) != 0)
    return Wm.sum(axis=0), Wm.sum(axis=1), (Wm @ Wm).diagonal()


def sym(A):
    A = np.asarray(A)
    return ((A + A.T) > 0).astype(int)


# ------------------------------------------------------------- clustering

def local_clustering(A):
    """Watts-Strogatz on the symmetrised graph; 0 where degree < 2."""
    U = sym(A)
    n = len(U)
    out = np.zeros(n)
    for i in range(n):
        nb = np.nonzero(U[i])[0]
        k = len(nb)
        if k < 2:
            continue
        tri = sum(1 for a, b in itertools.combinations(nb, 2) if U[a, b])
        out[i] = tri / (k * (k - 1) / 2.0)
    return out


def triangles_triples(A):
    U = sym(A)
    n = len(U)
    tri3 = 0   # 3 * number of triangles (each triangle counted per centre)
    triples = 0
    for i in range(n):
        nb = np.nonzero(U[i])[0]
        k = len(nb)
        triples += k * (k - 1) // 2
        tri3 += sum(1 for a, b in itertools.combinations(nb, 2) if U[a, b])
    return tri3, triples


def transitivity(A):
    tri3, triples = triangles_triples(A)
    return tri3 / triples if triples else np.nan


def motif_clustering(A, kind, W=None):
    """Fagiolo (2007) directed clustering coefficients by explicit loops.
    cycle: i->j->k->i ; mid: i->j, k->j?, ...  implemented from the matrix
    formulas (A^3)_ii, (A A^T A)_ii, (A^T A^2)_ii, (A^2 A^T)_ii with the
    stated denominators.  W: link weights, entering as W^(1/3)."""
    A = np.asarray(A)
    n = len(A)
    M = A.astype(float)
    if W is not None:
        M = np.cbrt(np.asarray(W, dtype=float) * (A != 0))
    kin = A.sum(axis=0)
    kout = A.sum(axis=1)
    kbil = (A * A.T).sum(axis=1)
    t = np.zeros(n)
    for i in range(n):
        s = 0.0
        for j in range(n):
            for k in range(n):
                if kind == "cycle":      # x x x
                    s += M[i, j] * M[j, k] * M[k, i]
                elif kind == "mid":      # x xT x
                    s += M[i, j] * M[k, j] * M[k, i]
                elif kind == "in":       # xT x x
                    s += M[j, i] * M[j, k] * M[k, i]
                elif kind == "out":      # x x xT
                    s += M[i, j] * M[j, k] * M[i, k]
        t[i] = s
    if kind in ("cycle", "mid"):
        T = kin * kout - kbil
    elif kind == "in":
        T = kin * (kin - 1)
    else:
        T = kout * (kout - 1)
    out = np.zeros(n)
    nz = T != 0
    out[nz] = t[nz] / T[nz]
    return out


def local_cliquishness(A, order):
    """#cliques of `order` nodes containing i / C(k_i, order-1); 0 if the
    degree is smaller than order-1."""
    U = sym(A)
    n = len(U)
    out = np.zeros(n)
    for i in range(n):
        nb = [int(v) for v in np.nonzero(U[i])[0]]
        k = len(nb)
        if k < order - 1:
            continue
        c = 0
        for grp in itertools.combinations(nb, order - 1):
            if all(U[a, b] for a, b in itertools.combinations(grp, 2)):
                c += 1
        out[i] = c / comb(k, order - 1)
    return out


def higher_order_transitivity4(A):
    """4 * #4-cliques / #4-stars (a 4-star = centre + 3 of its neighbours)."""
    U = sym(A)
    n = len(U)
    cliques = sum(1 for grp in itertools.combinations(range(n), 4)
                  if all(U[a, b] for a, b in itertools.combinations(grp, 2)))
    stars = sum(comb(int(k), 3) for k in U.sum(axis=1))
    return 4.0 * cliques / stars if stars else 0.0


# ------------------------------------------------------------------ paths

def path_lengths(A, W=None):
    """Floyd-Warshall; W = link lengths (on links), None = hop count.
    Directed: follows link direction."""
    A = np.asarray(A)
    n = len(A)
    D = np.full((n, n), INF)
    L = np.ones((n, n)) if W is None else np.asarray(W, dtype=float)
    D[A != 0] = L[A != 0]
    np.fill_diagonal(D, 0)
    for k in range(n):
        D = np.minimum(D, D[:, [k]] + D[[k], :])
    return D


def average_path_length(D):
    """Mean over ordered pairs i != j with a connecting path."""
    n = len(D)
    m = np.isfinite(D) & ~np.eye(n, dtype=bool)
    return D[m].mean() if m.any() else np.nan


def diameter(D):
    m = np.isfinite(D)
    return D[m].max() if m.any() else 0


def closeness_connected(D):
    n = len(D)
    return (n - 1) / D.sum(axis=1)


def global_efficiency(D):
    n = len(D)
    m = ~np.eye(n, dtype=bool)
    with np.errstate(divide="ignore"):
        return (1.0 / D[m]).sum() / (n * (n - 1))


def local_vulnerability(A, W=None):
    A = np.asarray(A)
    n = len(A)
    E = global_efficiency(path_lengths(A, W))
    out = np.zeros(n)
    for i in range(n):
        keep = [j for j in range(n) if j != i]
        Ai = A[np.ix_(keep, keep)]
        Wi = None if W is None else np.asarray(W)[np.ix_(keep, keep)]
        Ei = global_efficiency(path_lengths(Ai, Wi))
        out[i] = (E - Ei) / E
    return out


# ------------------------------------------------------------ betweenness

def sp_counts(A):
    """Hop distances and numbers of shortest paths sigma[s, t] (directed
    along links)."""
    A = np.asarray(A)
    n = len(A)
    D = np.full((n, n), INF)
    S = np.zeros((n, n))
    for s in range(n):
        D[s, s] = 0
        S[s, s] = 1
        frontier = [s]
        d = 0
        while frontier:
            nxt = []
            for v in frontier:
                for u in np.nonzero(A[v])[0]:
                    if D[s, u] == INF:
                        D[s, u] = d + 1
                        nxt.append(int(u))
                    if D[s, u] == d + 1:
                        S[s, u] += S[s, v]
            frontier = nxt
            d += 1
    return D, S


def pair_dependency(D, S, s, t, v):
    """Fraction of shortest s-t paths through interior node v."""
    if v == s or v == t or s == t or not np.isfinite(D[s, t]):
        return 0.0
    if D[s, v] + D[v, t] == D[s, t]:
        return S[s, v] * S[v, t] / S[s, t]
    return 0.0


def betweenness(A, directed):
    """Sum over pairs (unordered if undirected, ordered if directed)."""
    n = len(A)
    D, S = sp_counts(A)
    out = np.zeros(n)
    for s in range(n):
        for t in range(n):
            if s == t or (not directed and t < s):
                continue
            for v in range(n):
                out[v] += pair_dependency(D, S, s, t, v)
    return out


def interregional_betweenness(A, sources, targets):
    """Undirected graph; sum over ordered (s in sources, t in targets)."""
    n = len(A)
    D, S = sp_counts(A)
    out = np.zeros(n)
    for s in sources:
        for t in targets:
            for v in range(n):
                out[v] += pair_dependency(D, S, s, t, v)
    return out


def link_betweenness(A):
    """Undirected: for link {i,j}: sum over unordered pairs {s,t} (s != t,
    end points included) of the fraction of shortest paths using the link."""
    U = sym(A)
    n = len(U)
    D, S = sp_counts(U)
    out = np.zeros((n, n))
    for i in range(n):
        for j in range(i + 1, n):
            if not U[i, j]:
                continue
            b = 0.0
            for s in range(n):
                for t in range(s + 1, n):
                    if not np.isfinite(D[s, t]):
                        continue
                    for a, c in ((i, j), (j, i)):
                        if D[s, a] + 1 + D[c, t] == D[s, t]:
                            b += S[s, a] * S[c, t] / S[s, t]
            out[i, j] = out[j, i] = b
    return out


# ---------------------------------------------------------- miscellaneous

def matching_index(A):
    """common neighbours / |N(i) u N(j)| ; NaN where the union is empty."""
    A = np.asarray(A)
    n = len(A)
    out = np.full((n, n), np.nan)
    nb = [set(np.nonzero(A[i])[0]) for i in range(n)]
    for i in range(n):
        for j in range(n):
            u = nb[i] | nb[j]
            if u:
                out[i, j] = len(nb[i] & nb[j]) / len(u)
    return out


def coreness(A):
    U = sym(A)
    n = len(U)
    core = np.zeros(n, dtype=int)
    alive = np.ones(n, dtype=bool)
    k = 0
    while alive.any():
        while True:
            deg = (U[:, alive].sum(axis=1))
            rm = alive & (deg <= k)
            if not rm.any():
                break
            core[rm] = k
            alive[rm] = False
        k += 1
    return core


def assortativity(A):
    """Pearson correlation of the degrees at both ends of the links
    (each undirected link counted in both directions); NaN if undefined."""
    U = sym(A)
    k = U.sum(axis=1)
    ii, jj = np.nonzero(U)
    if len(ii) == 0:
        return np.nan
    x = k[ii].astype(float)
    y = k[jj].astype(float)
    if x.std() == 0:
        return np.nan
    return float(np.corrcoef(x, y)[0, 1])


def laplacian(A, directed, direction="out"):
    A = np.asarray(A)
    if directed:
        d = outdegree(A) if direction == "out" else indegree(A)
    else:
        d = outdegree(A)
    return np.diag(d) - A


def eigenvector_centrality(A):
    """Perron vector of a connected undirected graph, max-normalised."""
    w, v = np.linalg.eigh(np.asarray(A, dtype=float))
    ec = v[:, -1]
    ec = ec * np.sign(ec[np.argmax(np.abs(ec))])
    return ec / ec.max()


def pagerank(A, damping=0.85):
    """Linear-system PageRank for graphs without dangling nodes."""
    A = np.asarray(A, dtype=float)
    n = len(A)
    out = A.sum(axis=1)
    P = (A / out[:, None]).T
    x = np.linalg.solve(np.eye(n) - damping * P,
                        np.full(n, (1 - damping) / n))
    return x / x.sum()


def msf_synchronizability(A):
    ev = np.linalg.eigvalsh(laplacian(sym(A), False).astype(float))
    nz = ev[ev > 1e-10]
    return ev[-1] / nz[0]


def newman_betweenness(A):
    """Newman (2005) current-flow betweenness per component, in the
    library's normalisation  N_c * b_i  (b_i = Newman's b with the
    2/(n(n-1)) prefactor): (2/(N_c-1)) * sum_{s<t} I_i^{st}, with
    I_i^{st} = 1/2 sum_j A_ij |T_is - T_it - T_js + T_jt| and 1 for i in
    {s,t}; T = pseudo-inverse of the Laplacian."""
    U = sym(A)
    n = len(U)
    out = np.zeros(n)
    from vp.gen.graphs import components
    for comp in components(U):
        m = len(comp)
        if m < 2:
            continue
        B = U[np.ix_(comp, comp)].astype(float)
        T = np.linalg.pinv(np.diag(B.sum(axis=1)) - B)
        b = np.zeros(m)
        for s in range(m):
            for t in range(s + 1, m):
                for i in range(m):
                    if i in (s, t):
                        b[i] += 1.0
                    else:
                        pot = T[:, s] - T[:, t]
                        b[i] += 0.5 * (B[i] * np.abs(pot[i] - pot)).sum()
        out[comp] = 2.0 * b / (m - 1)
    return out


def arenas_betweenness(A):
    """Expected number of arrivals at j of random walks from every source s
    absorbed at target i, summed over all (s, i), per component.  Computed
    from the fundamental matrix of the absorbing chain (transient states
    only), not from the library's (I - P_i)^-1 P_i product."""
    U = sym(A)
    n = len(U)
    out = np.zeros(n)
    from vp.gen.graphs import components
    for comp in components(U):
        m = len(comp)
        if m < 2:
            continue
        B = U[np.ix_(comp, comp)].astype(float)
        P = B / B.sum(axis=1)[:, None]
        b = np.zeros(m)
        for i in range(m):
            tr = [x for x in range(m) if x != i]
            Q = P[np.ix_(tr, tr)]
            F = np.linalg.inv(np.eye(m - 1) - Q)   # visits incl. the start
            for a, s in enumerate(tr):
                for c, j in enumerate(tr):
                    b[j] += F[a, c] - (1.0 if a == c else 0.0)
                b[i] += 1.0     # absorbed at i exactly once
        out[comp] = b
    return out


# ------------------------------------------------------------------ n.s.i.

def nsi_degree(A, w, directed=False):
    Ap = np.asarray(A) + np.eye(len(A))
    w = np.asarray(w, dtype=float)
    if directed:
        return w @ Ap + Ap @ w
    return Ap @ w


def nsi_indegree(A, w):
    return np.asarray(w, dtype=float) @ (np.asarray(A) + np.eye(len(A)))


def nsi_outdegree(A, w):
    return (np.asarray(A) + np.eye(len(A))) @ np.asarray(w, dtype=float)


def nsi_local_clustering(A, w):
    """Heitzig et al. 2012: sum_{j,k in N+(i)} w_j A+_jk w_k / k*_i^2."""
    Ap = np.asarray(A) + np.eye(len(A))
    w = np.asarray(w, dtype=float)
    k = Ap @ w
    n = len(Ap)
    out = np.zeros(n)
    for i in range(n):
        nb = np.nonzero(Ap[i])[0]
        s = sum(w[j] * Ap[j, l] * w[l] for j in nb for l in nb)
        out[i] = s / k[i] ** 2
    return out


def nsi_distances(A):
    return path_lengths(A) + np.eye(len(A))


def nsi_average_path_length(A, w):
    D = nsi_distances(A)
    w = np.asarray(w, dtype=float)
    m = np.isfinite(D)
    ww = np.outer(w, w)
    return (ww[m] * D[m]).sum() / ww[m].sum()


def nsi_closeness(A, w):
    D = nsi_distances(A)
    w = np.asarray(w, dtype=float)
    with np.errstate(invalid="ignore"):
        return w.sum() / (D @ w)


def nsi_harmonic_closeness(A, w):
    D = nsi_distances(A)
    w = np.asarray(w, dtype=float)
    return ((1.0 / D) @ w) / w.sum()


def nsi_exponential_closeness(A, w):
    D = nsi_distances(A)
    w = np.asarray(w, dtype=float)
    return ((2.0 ** (-D)) @ w) / w.sum()


def nsi_global_efficiency(A, w):
    D = nsi_distances(A)
    w = np.asarray(w, dtype=float)
    return w @ (1.0 / D) @ w / w.sum() ** 2


# ------------------------------------------- further n.s.i. measures (loops)
# Heitzig et al. 2012: every sum over neighbours runs over the extended
# neighbourhood N+_i = N_i + {i} and weighs node j with w_j.

def _nplus(A):
    U = sym(A)
    n = len(U)
    return [[j for j in range(n) if U[i, j] or j == i] for i in range(n)]


def nsi_transitivity(A, w):
    nb = _nplus(A)
    k = nsi_degree(A, w)
    num = 0.0
    for i in range(len(nb)):
        for j in nb[i]:
            for l in nb[i]:
                if l in nb[j]:
                    num += w[i] * w[j] * w[l]
    return num / float(np.sum(w * k * k))


def nsi_average_neighbors_degree(A, w):
    nb = _nplus(A)
    k = nsi_degree(A, w)
    return np.array([sum(w[j] * k[j] for j in nb[i]) / k[i]
                     for i in range(len(nb))])


def nsi_max_neighbors_degree(A, w):
    nb = _nplus(A)
    k = nsi_degree(A, w)
    return np.array([max(k[j] for j in nb[i]) for i in range(len(nb))])


def nsi_bildegree(A, w):
    """Weight of the extended neighbourhood reached by links in both
    directions (the node itself included)."""
    A = np.asarray(A)
    n = len(A)
    return np.array([sum(w[j] for j in range(n)
                         if j == i or (A[i, j] and A[j, i]))
                     for i in range(n)])


def nsi_laplacian(A, w):
    nb = _nplus(A)
    k = nsi_degree(A, w)
    n = len(nb)
    L = np.zeros((n, n))
    for i in range(n):
        L[i, i] += k[i]
        for j in nb[i]:
            L[i, j] -= w[j]
    return L


def nsi_local_soffer_clustering(A, w):
    nb = _nplus(A)
    k = nsi_degree(A, w)
    out = np.zeros(len(nb))
    for i in range(len(nb)):
        num = sum(w[j] * w[l] for j in nb[i] for l in nb[i] if l in nb[j])
        den = sum(w[j] * min(k[i], k[j]) for j in nb[i])
        out[i] = num / den
    return out


def nsi_twinness(A, w):
    nb = _nplus(A)
    k = nsi_degree(A, w)
    n = len(nb)
    T = np.zeros((n, n))
    for i in range(n):
        for j in nb[i]:
            common = sum(w[l] for l in nb[i] if l in nb[j])
            T[i, j] = common / max(k[i], k[j])
    return T


def nsi_eigenvector_centrality(A, w):
    """Leading eigenvector of sqrt(Dw) A+ sqrt(Dw), divided by sqrt(w),
    normalised to a maximum of 1 (connected undirected graphs)."""
    U = sym(A) + np.eye(len(A), dtype=int)
    s = np.sqrt(np.asarray(w, dtype=float))
    M = s[:, None] * U * s[None, :]
    vals, vecs = np.linalg.eigh(M)
    v = vecs[:, -1] / s
    v = v * np.sign(v[np.argmax(np.abs(v))])
    return v / v.max()


def weighted_local_clustering(Wm):
    """Holme et al. 2007: sum_jk w_ij w_jk w_ki / (max(w) sum_jk w_ij w_ki)."""
    Wm = np.asarray(Wm, dtype=float)
    n = len(Wm)
    mx = Wm.max()
    out = np.zeros(n)
    for i in range(n):
        num = sum(Wm[i, j] * Wm[j, l] * Wm[l, i]
                  for j in range(n) for l in range(n))
        den = mx * sum(Wm[i, j] * Wm[l, i] for j in range(n) for l in range(n))
        out[i] = num / den if den else np.nan
    return out


def nsi_newman_betweenness(A, w, add_local_ends=False):
    """n.s.i. Newman random-walk (current-flow) betweenness from circuit
    terms, per component: conductances C_ij = w_i A_ij w_j, the unit current
    of "source s" is injected spread over the closed neighbourhood N+(s)
    proportionally to the node weights (q_s[m] = A+_ms w_m / k*_s), the
    potentials come from the pseudo-inverse of the conductance Laplacian, and
    b_i = sum_{j in N(i)} w_j sum_{t<s; s,t not in N+(i)} w_s w_t
          |(p_i - p_j) for the injection q_s - q_t|
    (+ (2W - k*_i) k*_i with add_local_ends, W the component's weight)."""
    U = sym(A)
    w = np.asarray(w, dtype=float)
    n = len(U)
    out = np.zeros(n)
    from vp.gen.graphs import components
    for comp in components(U):
        m = len(comp)
        wc = w[comp]
        if m < 2:
            if add_local_ends:
                out[comp[0]] = wc[0] ** 2
            continue
        B = U[np.ix_(comp, comp)].astype(float)
        Bp = B + np.eye(m)
        k = Bp @ wc
        C = wc[:, None] * B * wc[None, :]
        T = np.linalg.pinv(np.diag(C.sum(axis=1)) - C)
        Q = (Bp * wc[:, None]) / k[None, :]      # column s = injection q_s
        P = T @ Q                                # column s = potentials
        b = np.zeros(m)
        for i in range(m):
            free = [s for s in range(m) if not Bp[i, s]]
            for j in range(m):
                if not B[i, j]:
                    continue
                d = P[i, free] - P[j, free]
                tot = 0.0
                for a in range(len(free)):
                    for c in range(a):
                        tot += wc[free[a]] * wc[free[c]] * abs(d[a] - d[c])
                b[i] += wc[j] * tot
        if add_local_ends:
            b += (2.0 * wc.sum() - k) * k
        out[comp] = b
    return out


def nsi_arenas_betweenness(A, w, exclude_neighbors=True,
                           stopping_mode="neighbors"):
    """n.s.i. Arenas-type random-walk betweenness, per component: a walker
    at node a moves to b in N+(a) with probability w_b / k*_a.  For target i
    the walk stops when it stands on a node of N+(i) ("neighbors"), or
    continues from such a node k only with probability 1 - twinness(i, k)
    ("twinness").  n_i(s -> j) = expected number of moves INTO j of a walk
    started at s;  b_j = (1 / w_j) sum_i w_i sum_s w_s n_i(s -> j), where with
    exclude_neighbors sources s and nodes j inside N+(i) do not count.
    "neighbors": from the fundamental matrix of the absorbing chain;
    "twinness": from the Neumann series solved densely."""
    U = sym(A)
    w = np.asarray(w, dtype=float)
    n = len(U)
    out = np.zeros(n)
    from vp.gen.graphs import components
    for comp in components(U):
        m = len(comp)
        if m < 2:
            continue
        wc = w[comp]
        B = U[np.ix_(comp, comp)].astype(float)
        Bp = B + np.eye(m)
        k = Bp @ wc
        P = Bp * wc[None, :] / k[:, None]
        tw = nsi_twinness(B, wc) if stopping_mode == "twinness" else None
        b = np.zeros(m)
        for i in range(m):
            near = Bp[i] > 0
            if stopping_mode == "twinness":
                Pi = P.copy()
                for a in np.nonzero(near)[0]:
                    Pi[a] *= 1.0 - tw[i, a]
                V = np.linalg.solve(np.eye(m) - Pi, Pi)
            else:
                tr = np.nonzero(~near)[0]
                ab = np.nonzero(near)[0]
                V = np.zeros((m, m))
                if len(tr):
                    F = np.linalg.inv(np.eye(len(tr)) - P[np.ix_(tr, tr)])
                    V[np.ix_(tr, tr)] = F - np.eye(len(tr))
                    V[np.ix_(tr, ab)] = F @ P[np.ix_(tr, ab)]
            if exclude_neighbors:
                free = (~near).astype(float)
                bs = ((wc * free) @ V) * free
            else:
                bs = wc @ V
            b += wc[i] * bs
        out[comp] = b / wc
    return out


def nsi_betweenness(A, w, sources=None, targets=None):
    """n.s.i. shortest-path betweenness by path enumeration (small graphs):
    b_v = sum over ordered pairs (s, t), s != t, both different from v, of
    w_s w_t * [sum over shortest s-t paths through v of the product of the
    weights of their inner nodes other than v] / [sum over all shortest s-t
    paths of the product of the weights of their inner nodes].  sources /
    targets restrict s / t."""
    from collections import deque
    U = sym(A)
    w = np.asarray(w, dtype=float)
    n = len(U)
    nb = [list(np.nonzero(U[i])[0]) for i in range(n)]
    S = range(n) if sources is None else sorted(set(sources))
    T = set(range(n)) if targets is None else set(targets)
    b = np.zeros(n)
    for s in S:
        dist = [-1] * n
        dist[s] = 0
        preds = [[] for _ in range(n)]
        q = deque([s])
        while q:
            u = q.popleft()
            for v in nb[u]:
                if dist[v] < 0:
                    dist[v] = dist[u] + 1
                    q.append(v)
                if dist[v] == dist[u] + 1:
                    preds[v].append(u)

        def paths(t):
            if t == s:
                return [[s]]
            return [p + [t] for u in preds[t] for p in paths(u)]
        for t in range(n):
            if t == s or dist[t] < 0 or t not in T:
                continue
            P = paths(t)
            tot = sum(np.prod([w[u] for u in p[1:-1]]) for p in P)
            for v in range(n):
                if v in (s, t):
                    continue
                num = sum(np.prod([w[u] for u in p[1:-1] if u != v])
                          for p in P if v in p[1:-1])
                b[v] += w[s] * w[t] * num / tot
    return b
