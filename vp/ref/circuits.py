"""Reference models for resistor networks (C18).  Plain numpy / fractions, no
library code.

A network is given by ``n`` and a symmetric impedance matrix ``Z`` (0 = no
link; real positive resistances or complex impedances with positive real
part).  Everything is derived from Kirchhoff's laws by *grounding* one node
and solving the reduced admittance Laplacian - not from a pseudo-inverse.
"""
from fractions import Fraction

import numpy as np


def admittance(Z):
    """Element-wise 1/Z on the links, 0 elsewhere."""
    Z = np.asarray(Z)
    Y = np.zeros(Z.shape, dtype=complex if np.iscomplexobj(Z) else float)
    nz = Z != 0
    Y[nz] = 1.0 / Z[nz]
    return Y


def laplacian(Y):
    Y = np.asarray(Y)
    return np.diag(Y.sum(axis=0)) - Y


def grounded_inverse(Y, ground=None):
    """G (n x n): inverse of the Laplacian with row/column ``ground`` removed,
    padded with zeros for the grounded node.  G[:, s] is the potential
    distribution for a unit current injected at s and extracted at the
    ground."""
    Y = np.asarray(Y)
    n = len(Y)
    g = n - 1 if ground is None else ground
    keep = [i for i in range(n) if i != g]
    L = laplacian(Y)
    Gr = np.linalg.solve(L[np.ix_(keep, keep)], np.eye(n - 1, dtype=L.dtype))
    G = np.zeros((n, n), dtype=L.dtype)
    G[np.ix_(keep, keep)] = Gr
    return G


def effective_resistance_matrix(Y):
    """ER[a, b] = potential difference between a and b for a unit current
    a -> b."""
    G = grounded_inverse(Y)
    d = np.diag(G)
    return d[:, None] + d[None, :] - G - G.T


def potentials(G, s, t):
    """Node potentials (ground = 0) for unit current in at s, out at t."""
    return G[:, s] - G[:, t]


def edge_current_flow_betweenness(Y):
    """ECFB[i, j] = 2/(n(n-1)) * sum_{s<t} Y_ij * |V_i - V_j|  (unit current
    s -> t), the docstring's defining sum."""
    Y = np.asarray(Y, dtype=float)
    n = len(Y)
    G = grounded_inverse(Y)
    out = np.zeros((n, n))
    for t in range(n):
        for s in range(t):
            v = potentials(G, s, t)
            out += Y * np.abs(v[:, None] - v[None, :])
    return 2.0 * out / (n * (n - 1))


def vertex_current_flow_betweenness(Y, i, include_terminals=False):
    """VCFB_i = 2/(n(n-1)) * sum_{s<t} I_i^{st},
    I_i^{st} = 1/2 sum_j Y_ij |V_i - V_j| for i not in {s, t}.

    The docstring also writes I_s^{st} := I_s, I_t^{st} := I_t; the documented
    example values (0.389, 0.044 on the 5-node test network) are those of the
    sum *without* the terminal terms, which is what ``include_terminals=False``
    evaluates."""
    Y = np.asarray(Y, dtype=float)
    n = len(Y)
    G = grounded_inverse(Y)
    tot = 0.0
    for t in range(n):
        for s in range(t):
            if i in (s, t):
                if include_terminals:
                    tot += 1.0
                continue
            v = potentials(G, s, t)
            tot += 0.5 * float(np.sum(Y[i] * np.abs(v[i] - v)))
    return 2.0 * tot / (n * (n - 1))


def admittive_degree(Y):
    return np.asarray(Y).sum(axis=0)


def local_admittive_clustering(Y, A):
    """ac_i = sum_{j,k} Y_ij Y_ik Y_jk / (ad_i (d_i - 1)); 0 for d_i == 1."""
    Y = np.asarray(Y)
    n = len(Y)
    ad = admittive_degree(Y)
    d = np.asarray(A).sum(axis=0)
    out = np.zeros(n, dtype=Y.dtype)
    for i in range(n):
        if d[i] == 1:
            continue
        acc = 0
        for j in range(n):
            for k in range(n):
                acc += Y[i, j] * Y[i, k] * Y[j, k]
        out[i] = acc / (ad[i] * (d[i] - 1))
    return out


def average_neighbors_admittive_degree(Y, A):
    """sum_j A_ij ad_j / ad_i (real networks)."""
    ad = admittive_degree(Y)
    return np.asarray(A, dtype=float).dot(ad) / ad


def cheapest_path_resistance(Z):
    """All-pairs minimum over connecting paths of the summed resistance
    (Floyd-Warshall), for real positive resistances."""
    Z = np.asarray(Z, dtype=float)
    n = len(Z)
    D = np.where(Z > 0, Z, np.inf)
    np.fill_diagonal(D, 0.0)
    for k in range(n):
        D = np.minimum(D, D[:, k][:, None] + D[k, :][None, :])
    return D


# ----------------------------------------------------- series-parallel trees

def sp_value(tree):
    """Two-terminal resistance of a series-parallel expression
    ["r", p, q] (resistor p/q) | ["s", a, b] | ["p", a, b] as a Fraction."""
    k = tree[0]
    if k == "r":
        return Fraction(tree[1], tree[2])
    a, b = sp_value(tree[1]), sp_value(tree[2])
    if k == "s":
        return a + b
    return a * b / (a + b)


def sp_build(tree):
    """-> (n, edges) with edges [(u, v, Fraction)], terminals 0 and 1, no
    multi-edges (a resistor placed parallel to an existing direct link is
    split into two halves in series)."""
    edges = {}
    cnt = [2]

    def new():
        cnt[0] += 1
        return cnt[0] - 1

    def put(u, v, r):
        key = (min(u, v), max(u, v))
        if key in edges:
            w = new()
            put(u, w, r / 2)
            put(w, v, r / 2)
        else:
            edges[key] = r

    def rec(tr, u, v):
        k = tr[0]
        if k == "r":
            put(u, v, Fraction(tr[1], tr[2]))
        elif k == "s":
            w = new()
            rec(tr[1], u, w)
            rec(tr[2], w, v)
        else:
            rec(tr[1], u, v)
            rec(tr[2], u, v)

    rec(tree, 0, 1)
    return cnt[0], [(u, v, r) for (u, v), r in sorted(edges.items())]


def exact_effective_resistance(n, edges, a, b):
    """Exact rational effective resistance by Gaussian elimination on the
    grounded Laplacian (edges: [(u, v, Fraction resistance)])."""
    L = [[Fraction(0)] * n for _ in range(n)]
    for u, v, r in edges:
        y = 1 / Fraction(r)
        L[u][u] += y
        L[v][v] += y
        L[u][v] -= y
        L[v][u] -= y
    if a == b:
        return Fraction(0)
    keep = [i for i in range(n) if i != b]       # ground b
    m = len(keep)
    M = [[L[i][j] for j in keep] + [Fraction(1 if i == a else 0)]
         for i in keep]
    for c in range(m):
        p = next(r_ for r_ in range(c, m) if M[r_][c] != 0)
        M[c], M[p] = M[p], M[c]
        pv = M[c][c]
        M[c] = [x / pv for x in M[c]]
        for r_ in range(m):
            if r_ != c and M[r_][c] != 0:
                f = M[r_][c]
                M[r_] = [x - f * y for x, y in zip(M[r_], M[c])]
    return M[keep.index(a)][m]
