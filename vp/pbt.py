"""In-worker property-based testing core: Hypothesis driver with
collect-then-shrink, case classification, JSON replay files.

An *oracle* is ``oracle(case, rec)``: it evaluates the code under test on the
literal ``case`` and reports through ``rec`` (labels, non-triviality, failed
clauses).  Oracles never raise for a property violation; an exception escaping
an oracle is a harness error (exit 2), never a VIOLATION.
"""
import collections
import fnmatch
import hashlib
import json
import math
import os
import time
import traceback

import numpy as np

import hypothesis
from hypothesis import HealthCheck, Phase, given, settings
from hypothesis import strategies as st  # noqa: F401 (re-export)


# --------------------------------------------------------------------------
# JSON (de)serialisation of literal cases

def to_jsonable(x):
    if isinstance(x, np.ndarray):
        if x.dtype.kind == "c":
            return {"__nd__": [[float(v.real), float(v.imag)]
                               for v in x.ravel()],
                    "dtype": str(x.dtype), "shape": list(x.shape)}
        if x.dtype.kind == "f":
            data = [_f(v) for v in x.ravel().tolist()]
        else:
            data = x.ravel().tolist()
        return {"__nd__": data, "dtype": str(x.dtype), "shape": list(x.shape)}
    if isinstance(x, (np.integer,)):
        return int(x)
    if isinstance(x, (np.floating,)):
        return _f(float(x))
    if isinstance(x, (np.bool_,)):
        return bool(x)
    if isinstance(x, float):
        return _f(x)
    if isinstance(x, complex):
        return {"__complex__": [x.real, x.imag]}
    if isinstance(x, dict):
        return {str(k): to_jsonable(v) for k, v in x.items()}
    if isinstance(x, tuple):
        return {"__tuple__": [to_jsonable(v) for v in x]}
    if isinstance(x, (list,)):
        return [to_jsonable(v) for v in x]
    if isinstance(x, (set, frozenset)):
        return {"__tuple__": [to_jsonable(v) for v in sorted(x)]}
    if isinstance(x, bytes):
        return {"__bytes__": x.hex()}
    if x is None or isinstance(x, (str, int, bool)):
        return x
    return {"__repr__": repr(x)}


def _f(v):
    if isinstance(v, float):
        if math.isnan(v):
            return {"__float__": "nan"}
        if math.isinf(v):
            return {"__float__": "inf" if v > 0 else "-inf"}
    return v


def from_jsonable(x):
    if isinstance(x, dict):
        if "__nd__" in x:
            dt = np.dtype(x["dtype"])
            if dt.kind == "c":
                a = np.array([complex(*v) for v in x["__nd__"]], dtype=dt)
            else:
                a = np.array([from_jsonable(v) for v in x["__nd__"]],
                             dtype=dt)
            return a.reshape(x["shape"])
        if "__float__" in x:
            return float(x["__float__"])
        if "__complex__" in x:
            return complex(*x["__complex__"])
        if "__tuple__" in x:
            return tuple(from_jsonable(v) for v in x["__tuple__"])
        if "__bytes__" in x:
            return bytes.fromhex(x["__bytes__"])
        if "__repr__" in x:
            return x["__repr__"]
        return {k: from_jsonable(v) for k, v in x.items()}
    if isinstance(x, list):
        return [from_jsonable(v) for v in x]
    return x


def case_hash(case):
    s = json.dumps(to_jsonable(case), sort_keys=True, separators=(",", ":"))
    return hashlib.sha1(s.encode()).hexdigest()[:16]


def short(case, limit=1500):
    """JSON form of a case for the evidence samples, truncated if huge."""
    j = to_jsonable(case)
    s = json.dumps(j, sort_keys=True)
    if len(s) <= limit:
        return j
    return {"truncated_json": s[:limit] + "..."}


# --------------------------------------------------------------------------
# tolerant comparison helpers

def _arr(x):
    if hasattr(x, "toarray"):
        x = x.toarray()
    return np.asarray(x)


def allclose(a, b, rtol=1e-9, atol=0.0):
    """|a-b| <= atol + rtol*max(1,|a|,|b|), NaN==NaN, inf==inf, same shape."""
    a = _arr(a)
    b = _arr(b)
    if a.shape != b.shape:
        return False
    if a.dtype.kind in "OUS" or b.dtype.kind in "OUS":
        return bool(np.all(a == b))
    if a.dtype.kind not in "fc" and b.dtype.kind not in "fc":
        return bool(np.array_equal(a, b))
    a = a.astype(complex if a.dtype.kind == "c" or b.dtype.kind == "c"
                 else float)
    b = b.astype(a.dtype)
    with np.errstate(invalid="ignore"):
        both_nan = np.isnan(a) & np.isnan(b)
        same_inf = np.isinf(a) & np.isinf(b) & (a == b)
        scale = np.maximum(1.0, np.maximum(np.abs(a), np.abs(b)))
        scale = np.where(np.isfinite(scale), scale, 1.0)
        ok = np.abs(a - b) <= atol + rtol * scale
    return bool(np.all(ok | both_nan | same_inf))


def maxdiff(a, b):
    a = _arr(a)
    b = _arr(b)
    if a.shape != b.shape:
        return "shape %s vs %s" % (a.shape, b.shape)
    try:
        with np.errstate(invalid="ignore"):
            d = np.abs(a.astype(complex) - b.astype(complex))
            d = np.where(np.isnan(d), 0 if np.all(np.isnan(a) == np.isnan(b))
                         else np.inf, d)
        return float(np.max(d)) if d.size else 0.0
    except (TypeError, ValueError):
        return "n/a"


# --------------------------------------------------------------------------

class Rec:
    """What an oracle reports about one case."""
    __slots__ = ("labels", "nt", "fails", "excluded")

    def __init__(self):
        self.labels = []
        self.nt = None
        self.fails = []     # list of (clause, detail)
        self.excluded = []  # known-finding regions skipped by construction

    def label(self, s):
        self.labels.append(str(s))

    def nontrivial(self, key=True):
        """Mark the case non-trivial; ``key`` distinguishes distinct cases
        (True = use the hash of the whole case)."""
        if key is False or key is None:
            return
        if self.nt is None or self.nt is True:
            self.nt = key

    def fail(self, clause, detail=""):
        self.fails.append((str(clause), str(detail)[:600]))

    def check(self, cond, clause, detail=""):
        if not cond:
            self.fail(clause, detail() if callable(detail) else detail)
        return bool(cond)

    def close(self, a, b, clause, rtol=1e-9, atol=0.0, detail=""):
        ok = allclose(a, b, rtol, atol)
        if not ok:
            self.fail(clause, "%s maxdiff=%s lib=%s ref=%s" % (
                detail, maxdiff(a, b), _brief(a), _brief(b)))
        return ok

    def equal(self, a, b, clause, detail=""):
        a_ = _arr(a)
        b_ = _arr(b)
        ok = a_.shape == b_.shape and bool(np.array_equal(a_, b_))
        if not ok:
            self.fail(clause, "%s lib=%s ref=%s" % (
                detail, _brief(a), _brief(b)))
        return ok

    def call(self, clause, fn, *args, allowed=(), **kw):
        """Call library code.  Returns (ok, value).  An exception whose type
        is not in ``allowed`` fails ``clause``; an allowed one returns
        (False, exc) silently."""
        try:
            return True, fn(*args, **kw)
        except allowed as e:  # documented rejection
            return False, e
        except HarnessError:
            raise
        except Exception as e:  # pylint: disable=broad-except
            tb = traceback.extract_tb(e.__traceback__)
            where = ""
            for fr in reversed(tb):
                if "pyunicorn" in fr.filename:
                    where = "%s:%d" % (os.path.basename(fr.filename),
                                       fr.lineno)
                    break
            self.fail(clause, "raised %s: %s at %s" % (
                type(e).__name__, str(e)[:200], where))
            return False, e

    def skip_known(self, region):
        self.excluded.append(region)


def _brief(x, n=12):
    try:
        a = _arr(x)
        if a.size <= n:
            return np.array2string(a, precision=8, separator=",").replace(
                "\n", "")
        return "%s... shape=%s" % (np.array2string(
            a.ravel()[:n], precision=6, separator=","), a.shape)
    except Exception:  # pylint: disable=broad-except
        return repr(x)[:200]


class HarnessError(Exception):
    pass


class _Found(Exception):
    pass


# --------------------------------------------------------------------------

class Ctx:
    """Per work-unit accumulator (one sub-check, one shard)."""

    def __init__(self, prop, sub, tier, seed, shard, nshards, known, outdir,
                 n=None, params=None):
        self.prop = prop
        self.sub = sub
        self.tier = tier
        self.seed = seed
        self.shard = shard
        self.nshards = nshards
        self.known = known or []
        self.outdir = outdir
        self.n = n
        self.params = params or {}
        self.evaluations = 0
        self.nt_hashes = set()
        self.labels = collections.Counter()
        self.samples = []
        self.mism = {}        # signature -> dict(count, idx, case, detail)
        self.excluded = collections.Counter()
        self.inconclusive = 0
        self.exhaustive = None
        self.extra = {}
        self.t0 = time.time()
        self.deadline = None   # set by the worker: end of the shrink phase
        h = hashlib.sha256(("%d:%s:%s:%d" % (seed, prop, sub, shard)).encode())
        self.unit_seed = int(h.hexdigest()[:12], 16)

    # -- known findings ----------------------------------------------------
    def known_match(self, signature, case, regions=None):
        for k in self.known:
            if not fnmatch.fnmatchcase(signature, k["signature"]):
                continue
            reg = k.get("region")
            if reg:
                pred = (regions or {}).get(reg)
                if pred is None:
                    raise HarnessError("unknown region predicate %r" % reg)
                if not pred(case):
                    continue
            return k["id"]
        return None

    # -- absorbing one evaluated case ------------------------------------
    def absorb(self, case, rec, regions=None):
        idx = self.evaluations
        self.evaluations += 1
        for lab in rec.labels:
            self.labels[lab] += 1
        for r in rec.excluded:
            self.excluded[r] += 1
        if rec.nt is not None:
            key = case_hash(case) if rec.nt is True else \
                hashlib.sha1(repr(rec.nt).encode()).hexdigest()[:16]
            if key not in self.nt_hashes:
                self.nt_hashes.add(key)
                if len(self.samples) < 3:
                    self.samples.append(short(case))
        seen = set()
        for clause, detail in rec.fails:
            sig = "%s/%s" % (self.sub, clause)
            if sig in seen:
                continue
            seen.add(sig)
            kid = self.known_match(sig, case, regions)
            if kid is not None:
                self.excluded["known:" + kid] += 1
                continue
            m = self.mism.get(sig)
            if m is None:
                self.mism[sig] = {"count": 1, "idx": idx, "case": case,
                                  "detail": detail, "clause": clause}
                self.flush_partial()
            else:
                m["count"] += 1

    def flush_partial(self):
        """A unit that is killed at its time limit must not take the failures
        it has already seen with it: every new signature is written out at
        once (unshrunk replay + partial result the runner reads after a
        timeout)."""
        path = getattr(self, "partial_path", None)
        if not path:
            return
        vio = []
        for s, m in sorted(self.mism.items()):
            rp = m.get("replay") or m.get("raw_replay")
            if rp is None:
                rp = m["raw_replay"] = write_replay(
                    self, s, m["clause"], m["case"], m["detail"])
            vio.append({"signature": s, "count": m["count"],
                        "detail": m["detail"], "replay": rp})
        tmp = path + ".tmp"
        with open(tmp, "w") as fh:
            json.dump({"violations": vio,
                       "evaluations": self.evaluations}, fh)
        os.rename(tmp, path)

    def result(self):
        return {
            "prop": self.prop, "sub": self.sub, "shard": self.shard,
            "evaluations": self.evaluations,
            "nt_hashes": sorted(self.nt_hashes),
            "labels": dict(self.labels),
            "samples": self.samples,
            "excluded": dict(self.excluded),
            "inconclusive": self.inconclusive,
            "exhaustive": self.exhaustive,
            "extra": self.extra,
            "wall_s": round(time.time() - self.t0, 2),
            "violations": [
                {"signature": s, "count": m["count"], "detail": m["detail"],
                 "replay": m.get("replay")}
                for s, m in sorted(self.mism.items())],
        }


def _settings(n, phases):
    return settings(max_examples=max(1, n), phases=phases, database=None,
                    deadline=None, derandomize=False,
                    report_multiple_bugs=False, print_blob=False,
                    suppress_health_check=list(HealthCheck),
                    verbosity=hypothesis.Verbosity.quiet)


# An oracle that cannot even evaluate what the library handed back (a result
# of the wrong shape / type / keys) has observed a misbehaviour of the
# library, not of the harness: library calls themselves go through rec.call,
# so what raises here is the comparison code on a malformed result.  It is
# recorded as a failing clause named after the exception and the oracle line
# (the same oracle evaluates every case of the unchanged tree without
# raising).  Resource and harness problems stay harness errors (exit 2).
_ORACLE_EXC = (IndexError, ValueError, TypeError, KeyError, AttributeError,
               ZeroDivisionError, FloatingPointError, OverflowError,
               np.linalg.LinAlgError)


def evaluate(oracle, case):
    rec = Rec()
    try:
        oracle(case, rec)
    except HarnessError:
        raise
    except _ORACLE_EXC as e:
        import traceback
        tb = traceback.extract_tb(e.__traceback__)
        where = [f for f in tb if "/props/" in f.filename] or list(tb)
        f = where[-1]
        rec.fail("oracle_cannot_evaluate_result__%s__%s_%s" % (
            type(e).__name__, os.path.basename(f.filename)[:-3], f.name),
            "%s: %s (line %d: %s)" % (type(e).__name__, str(e)[:160],
                                      f.lineno, (f.line or "")[:80]))
    return rec


def run_cases(ctx, strategy, oracle, n, regions=None, shrink_budget=None):
    """Collect phase over ``n`` generated cases, then one shrink run per new
    failure signature; replay files are written for each."""
    if shrink_budget is None:
        shrink_budget = 300 if ctx.tier == "quick" else 3000

    @hypothesis.seed(ctx.unit_seed)
    @_settings(n, [Phase.generate])
    @given(strategy)
    def collect(case):
        rec = evaluate(oracle, case)
        ctx.absorb(case, rec, regions)

    collect()

    todo = [(sig, m) for sig, m in sorted(ctx.mism.items())
            if not m.get("replay")]
    for k, (sig, m) in enumerate(todo):
        now = time.time()
        if ctx.deadline is not None and now >= ctx.deadline:
            # no time left: the failing case as generated is the replay
            m["replay"] = write_replay(ctx, sig, m["clause"], m["case"],
                                       m["detail"])
            ctx.extra["unshrunk_for_lack_of_time"] = ctx.extra.get(
                "unshrunk_for_lack_of_time", 0) + 1
            continue
        # an equal share of the remaining time for every open signature
        t_end = None if ctx.deadline is None else \
            now + (ctx.deadline - now) / (len(todo) - k)
        _shrink_one(ctx, strategy, oracle, regions, sig, m, shrink_budget,
                    t_end)


def _shrink_one(ctx, strategy, oracle, regions, sig, m, shrink_budget,
                t_end=None):
    clause = m["clause"]
    best = {"case": m["case"], "detail": m["detail"], "calls": 0,
            "hash": case_hash(m["case"])}
    limit = m["idx"] + 50

    def fails(case):
        rec = evaluate(oracle, case)
        for c, d in rec.fails:
            if c == clause and ctx.known_match(sig, case, regions) is None:
                return d
        return None

    @hypothesis.seed(ctx.unit_seed)
    @_settings(limit, [Phase.generate, Phase.shrink])
    @given(strategy)
    def hunt(case):
        best["calls"] += 1
        if best["calls"] > limit + shrink_budget or (
                t_end is not None and time.time() > t_end):
            # budget used up: freeze on the best case found so far
            if case_hash(case) == best["hash"]:
                raise _Found()
            return
        d = fails(case)
        if d is not None:
            best["case"] = case
            best["detail"] = d
            best["hash"] = case_hash(case)
            raise _Found()

    try:
        hunt()
    except _Found:
        pass
    except Exception as e:  # pylint: disable=broad-except
        # flaky / shrinker trouble: keep the best case seen so far
        ctx.extra.setdefault("shrink_errors", []).append(
            "%s: %r" % (sig, e))
    m["case"] = best["case"]
    m["detail"] = best["detail"]
    m["replay"] = write_replay(ctx, sig, clause, best["case"],
                               best["detail"])


def run_enum(ctx, cases, oracle, regions=None, cap=None):
    """Enumerate ``cases`` (an iterable in increasing size order); this shard
    evaluates indices congruent to its number.  The first failing case per
    signature (the smallest in enumeration order) becomes the replay."""
    total = 0
    for i, case in enumerate(cases):
        if cap is not None and i >= cap:
            ctx.exhaustive = False
            break
        total += 1
        if i % ctx.nshards != ctx.shard:
            continue
        rec = evaluate(oracle, case)
        ctx.absorb(case, rec, regions)
    else:
        if ctx.exhaustive is None:
            ctx.exhaustive = True
    ctx.extra["enumerated_total"] = total
    for sig, m in sorted(ctx.mism.items()):
        if not m.get("replay"):
            m["replay"] = write_replay(ctx, sig, m["clause"], m["case"],
                                       m["detail"])


def write_replay(ctx, sig, clause, case, detail):
    d = os.path.join(ctx.outdir, ctx.prop)
    os.makedirs(d, exist_ok=True)
    name = "%s-%s.json" % (
        "".join(c if c.isalnum() else "_" for c in sig)[:80],
        case_hash(case)[:8])
    path = os.path.join(d, name)
    with open(path, "w") as fh:
        json.dump({"property": ctx.prop, "sub": ctx.sub, "clause": clause,
                   "signature": sig, "detail": detail,
                   "verif_seed": ctx.seed, "case": to_jsonable(case)},
                  fh, indent=1, sort_keys=True)
    return path


def sel(x, mask):
    """x[mask] when x has the mask's shape; otherwise x itself, so that the
    comparison that follows reports the shape mismatch as a failing clause
    instead of the oracle raising (the reporting path must not fail)."""
    x = np.asarray(x)
    mask = np.asarray(mask)
    if x.shape[:mask.ndim] == mask.shape:
        return x[mask]
    return x


def represent(a, key=None, dtypes=True, ints=True, f32=True):
    """The same values in another in-memory representation, chosen as a pure
    function of the values (or of `key`): C order, Fortran order, a
    non-contiguous strided view and - when every value survives the cast and
    `dtypes` is set - float32, and for integral values (`ints`) int64, int32
    and an unsigned type.  Input representation is part of the domain "all
    inputs"; the reference models always see the plain float64 values."""
    import zlib
    a = np.ascontiguousarray(a)
    if a.dtype.kind != "f" or a.size == 0:
        return a
    if key is None:
        key = zlib.crc32(a.tobytes()) ^ (a.ndim * 7919 + a.shape[-1])
    k = key % 8
    if k == 1 and a.ndim >= 2:
        return np.asfortranarray(a)
    if k == 2:
        big = np.zeros(a.shape[:-1] + (2 * a.shape[-1],), dtype=a.dtype)
        big[..., ::2] = a
        big[..., 1::2] = -7.25
        return big[..., ::2]
    if k == 3 and a.ndim >= 2:
        big = np.full((2 * a.shape[0],) + a.shape[1:], 3.5, dtype=a.dtype)
        big[::2] = a
        return big[::2]
    if k == 4 and dtypes and f32:
        b = a.astype(np.float32)
        if np.array_equal(b.astype(np.float64), a, equal_nan=True):
            return b
    if k >= 5 and dtypes and ints and np.isfinite(a).all() \
            and (a == np.round(a)).all() and np.abs(a).max() < 2 ** 31:
        if k == 5:
            return a.astype(np.int64)
        if k == 6:
            return a.astype(np.int32)
        if a.min() >= 0:
            return a.astype(np.uint8 if a.max() < 256 else np.uint32)
    return a


def seed_library_rngs(a, b=None):
    """All randomness consumed by the code under test derives from integers
    drawn by Hypothesis (stored in the case)."""
    import random
    np.random.seed(int(a) % (2 ** 32))
    random.seed(int(b if b is not None else a))


class SubCheck:
    """One sub-check of a property.

    kind 'gen':  ``gen`` is a Hypothesis strategy (or zero-arg callable
                 returning one), sizes are example counts per shard.
    kind 'enum': ``enum`` is a callable(tier) returning an iterable of cases.
    kind 'custom': ``run`` is a callable(ctx).
    quick/thorough: (shards, n) tuples.
    """

    def __init__(self, name, oracle=None, gen=None, enum=None, run=None,
                 quick=(1, 100), thorough=(8, 1000), regions=None,
                 flavour="plain", timeout=(600, 7200), doc="",
                 exhaustive=("quick", "thorough")):
        self.name = name
        self.oracle = oracle
        self.gen = gen
        self.enum = enum
        self.run = run
        self.quick = quick
        self.thorough = thorough
        self.regions = regions or {}
        self.flavour = flavour
        self.timeout = timeout
        self.doc = doc
        self.exhaustive = exhaustive   # tiers whose enumeration is complete

    def plan(self, tier):
        return self.quick if tier == "quick" else self.thorough

    def execute(self, ctx):
        if self.run is not None:
            return self.run(ctx)
        if self.enum is not None:
            run_enum(ctx, self.enum(ctx.tier), self.oracle,
                     self.regions, cap=ctx.n)
            if ctx.tier not in self.exhaustive:
                ctx.exhaustive = False
            return None
        g = self.gen() if callable(self.gen) and not isinstance(
            self.gen, st.SearchStrategy) else self.gen
        return run_cases(ctx, g, self.oracle, ctx.n, self.regions)
