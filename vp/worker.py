"""Work-unit process: one (property, sub-check, shard).  Started by
vp.runner with PYTHONPATH pointing at the private build of /repo."""
import argparse
import importlib
import json
import os
import shutil
import sys
import tempfile
import traceback
import warnings


def main():
    ap = argparse.ArgumentParser()
    ap.add_argument("--prop", required=True)
    ap.add_argument("--sub", required=True)
    ap.add_argument("--tier", default="quick")
    ap.add_argument("--seed", type=int, default=1)
    ap.add_argument("--shard", type=int, default=0)
    ap.add_argument("--nshards", type=int, default=1)
    ap.add_argument("--n", type=int, default=None)
    ap.add_argument("--known", default=None)
    ap.add_argument("--outdir", required=True)
    ap.add_argument("--out", required=True)
    ap.add_argument("--replay", default=None)
    a = ap.parse_args()

    warnings.filterwarnings("ignore")
    # the library prints progress messages; keep stdout for nothing
    devnull = os.open(os.devnull, os.O_WRONLY)
    os.dup2(devnull, 1)
    scratch = tempfile.mkdtemp(prefix="run-", dir=os.environ.get(
        "VERIF_SCRATCH", os.path.dirname(a.out)))
    os.chdir(scratch)
    res = {"prop": a.prop, "sub": a.sub, "shard": a.shard}
    try:
        import numpy as np
        np.seterr(all="ignore")
        from vp import pbt
        mod = importlib.import_module("props." + a.prop.lower())
        sub = {s.name: s for s in mod.SUBCHECKS}[a.sub]
        known = json.load(open(a.known)) if a.known else []
        ctx = pbt.Ctx(a.prop, a.sub, a.tier, a.seed, a.shard, a.nshards,
                      known, a.outdir, n=a.n)
        # shrinking stops well before the runner's time limit for this
        # unit: a failure found in the collect phase must never be lost to a
        # shrink phase that is killed from outside
        ctx.partial_path = a.out + ".partial"
        ctx.deadline = ctx.t0 + 0.6 * sub.timeout[
            0 if a.tier == "quick" else 1]
        if a.replay:
            rp = json.load(open(a.replay))
            case = pbt.from_jsonable(rp["case"])
            if hasattr(mod, "decode_case"):
                case = mod.decode_case(a.sub, case)
            rec = pbt.evaluate(sub.oracle, case)
            res["replay_fails"] = [
                {"clause": c, "detail": d} for c, d in rec.fails]
            res["replay_clause"] = rp.get("clause")
        else:
            sub.execute(ctx)
            res.update(ctx.result())
        res["status"] = "ok"
    except BaseException as e:  # pylint: disable=broad-except
        res["status"] = "harness-error"
        res["error"] = "%s: %s" % (type(e).__name__, e)
        res["traceback"] = traceback.format_exc()[-6000:]
    finally:
        os.chdir("/")
        shutil.rmtree(scratch, ignore_errors=True)
    tmp = a.out + ".tmp"
    with open(tmp, "w") as fh:
        json.dump(res, fh)
    os.rename(tmp, a.out)
    sys.exit(0 if res["status"] == "ok" else 2)


if __name__ == "__main__":
    main()
