"""C20 helper.  Two roles:

* imported by ``props/c20.py`` (plain interpreter): the table ``ENTRIES`` of
  public entry points that reach the compiled ``_ext`` kernels, with their
  dimension specifications (no pyunicorn import happens at module level);
* run as ``python -u -m vp.asan_worker`` under ``LD_PRELOAD=libasan:libubsan``
  against the asan flavour of the build: a persistent server that reads one
  JSON request per line on stdin, drives the entry point on the literal case
  and answers one JSON line.  A sanitizer report kills this process (gcc's
  ASan aborts on the first report); the parent then reads the report from the
  stderr file, restarts the server and goes on.  A request with
  ``"fork": true`` is executed in a forked grandchild instead, so that a
  crash costs ~40 ms instead of a 3 s re-import (used for entry points that
  have already crashed in this shard and while shrinking).

A case is a plain dict::

    {"entry": name, "d": [dims...], "p": variant, "dtype": "f8|f4|i8|b1",
     "layout": "c|s2|t|rev", "vc": value class, "vs": value seed,
     "s1": numpy.random seed, "s2": random seed}

All data arrays are a pure function of the case (RandomState(vs)).
"""
import json
import os
import signal
import sys
import traceback

import numpy as np

DTYPES = ("f8", "f4", "i8", "b1")
LAYOUTS = ("c", "s2", "t", "rev")
VCLASSES = ("random", "constant", "tied", "nan", "huge")
_NP = {"f8": np.float64, "f4": np.float32, "i8": np.int64, "b1": np.bool_}

KERNEL_MODULES = ("pyunicorn.climate._ext.numerics",
                  "pyunicorn.core._ext.numerics",
                  "pyunicorn.funcnet._ext.numerics",
                  "pyunicorn.timeseries._ext.numerics")


# ---------------------------------------------------------------- data makers

def _rs(case, k):
    return np.random.RandomState(
        (int(case["vs"]) * 7919 + k * 104729 + 17) % (2 ** 31 - 1))


def mk(case, shape, k=0, dtype=None, vc=None, layout=None):
    """Array of ``shape`` in the case's value class / dtype / memory layout.
    ``k`` separates several arrays of one case."""
    shape = tuple(int(s) for s in shape)
    rs = _rs(case, k)
    vc = vc or case["vc"]
    dt = dtype or case["dtype"]
    a = rs.standard_normal(size=shape)
    if vc == "constant":
        a = np.full(shape, 1.5)
    elif vc == "tied":
        a = rs.randint(0, 3, size=shape).astype(float)
    elif vc == "nan":
        a[rs.random_sample(size=shape) < 0.3] = np.nan
    elif vc == "huge":
        a = a * 2e38          # inf in float32 for |z| > 1.7, squares overflow
    if dt == "i8":
        a = np.clip(np.nan_to_num(a * 3, nan=0.0), -1e6, 1e6).astype(np.int64)
    elif dt == "b1":
        a = np.nan_to_num(a, nan=0.0) > 0
    else:
        a = a.astype(_NP[dt])
    return relayout(a, layout or case["layout"])


def relayout(a, layout):
    """Same values, different strides: contiguous, every second element of a
    wider buffer (``b[..., ::2]``), Fortran order (``b.T``), or a view with a
    negative stride along the first axis (``b[::-1]``)."""
    if a.ndim == 0 or layout == "c":
        return np.ascontiguousarray(a)
    if layout == "s2":
        big = np.full(a.shape[:-1] + (2 * a.shape[-1],), 7, dtype=a.dtype)
        big[..., ::2] = a
        return big[..., ::2]
    if layout == "t":
        return np.ascontiguousarray(a.T).T
    if layout == "rev":
        return np.ascontiguousarray(a[::-1])[::-1]
    raise ValueError(layout)


def graph(case, n, k=0, density=None, directed=False):
    rs = _rs(case, 50 + k)
    n = int(n)
    dens = density if density is not None else (0.15, 0.4, 0.7, 1.0)[
        int(case["vs"]) % 4]
    a = (rs.random_sample(size=(n, n)) < dens)
    if not directed:
        a = np.triu(a, 1)
        a = a | a.T
    else:
        a = a & ~np.eye(n, dtype=bool)
    return a.astype(np.int8)


def weights(case, n, k=0):
    rs = _rs(case, 70 + k)
    return (rs.randint(1, 41, size=int(n)) / 8.0).astype(np.float64)


def geogrid(case, n, t=3):
    from pyunicorn.core import GeoGrid
    rs = _rs(case, 90)
    lat = np.round(rs.uniform(-90, 90, size=int(n)), 2)
    lon = np.round(rs.uniform(-180, 180, size=int(n)), 2)
    return GeoGrid(np.arange(int(t), dtype=float), lat, lon, silence_level=3)


# ------------------------------------------------------------------ tracking

class Tracker:
    """Collects what happened while an entry point ran."""

    def __init__(self):
        self.reached = set()
        self.steps = []
        self.wellformed = False

    def call(self, step, fn, *a, **k):
        try:
            v = fn(*a, **k)
        except Exception as e:  # pylint: disable=broad-except
            tb = traceback.extract_tb(e.__traceback__)
            last = tb[-1] if tb else None
            in_kernel = bool(last and last.filename.endswith(".pyx"))
            self.steps.append({
                "step": step, "exc": type(e).__name__, "msg": str(e)[:160],
                "kernel": last.name if in_kernel else None,
                "guard": bool(in_kernel and isinstance(e, IndexError) and
                              "Out of bounds on buffer access" in str(e))})
            return False, e
        self.steps.append({"step": step, "exc": None})
        return True, v


REACHED = None     # set of kernel names, swapped per request
KERNELS = {}       # qualified name -> original function


def _wrap(qn, f):
    def kernel_probe(*a, **k):
        if REACHED is not None and qn not in REACHED:
            REACHED.add(qn)
            # survives a crash of this process: the parent reads it back
            os.write(2, ("@@kernel %s\n" % qn).encode())
        return f(*a, **k)
    kernel_probe.__name__ = getattr(f, "__name__", qn)
    kernel_probe.__wrapped__ = f
    return kernel_probe


def install_tracing():
    """Replace every module-level reference to an ``_ext`` kernel inside the
    pyunicorn packages by a counting wrapper."""
    import importlib
    import pyunicorn  # noqa: F401
    for sub in ("core", "climate", "timeseries", "funcnet", "eventseries"):
        try:
            importlib.import_module("pyunicorn." + sub)
        except Exception:  # pylint: disable=broad-except
            pass
    by_id = {}
    for m in KERNEL_MODULES:
        mod = importlib.import_module(m)
        pkg = m.split(".")[1]
        for name, obj in list(vars(mod).items()):
            if isinstance(obj, type) or not callable(obj):
                continue
            if getattr(obj, "__module__", None) != m:
                continue
            qn = pkg + "." + name
            KERNELS[qn] = obj
            by_id[id(obj)] = qn
    wrappers = {qn: _wrap(qn, f) for qn, f in KERNELS.items()}
    for mname, mod in list(sys.modules.items()):
        if not mname.startswith("pyunicorn") or mod is None:
            continue
        for name, obj in list(vars(mod).items()):
            qn = by_id.get(id(obj))
            if qn is not None:
                setattr(mod, name, wrappers[qn])


# -------------------------------------------------------------- entry points
#
# Every entry function gets (case, t) with t a Tracker, drives PUBLIC API only
# and reports through t.call(step, fn, ...).  ``t.wellformed`` is set when the
# case lies inside the documented domain with non-degenerate sizes, i.e. when
# a Cython bounds-check IndexError raised from inside a kernel cannot be read
# as "size rejected with a Python exception".

ENTRIES = {}


def entry(name, dims, variants=1, kernels=(), nt=None, region=None):
    """dims: tuple of (dim name, max for the random part).  The exhaustive
    part enumerates {0,1,2,3} for every dim.  ``nt``: (index of N, index of
    T) for the 'more nodes than samples' rule.  ``region(case)``: optional
    tag of a parameter region that gets its own failure signature (suffix
    of the clause name), so that a known finding stays narrow."""
    def deco(fn):
        ENTRIES[name] = {"fn": fn, "dims": tuple(dims), "variants": variants,
                         "kernels": tuple(kernels), "nt": nt,
                         "region": region}
        return fn
    return deco


def _seed(case):
    import random
    np.random.seed(int(case["s1"]) % (2 ** 32))
    random.seed(int(case["s2"]))


# ---- climate -----------------------------------------------------------

def _climate_data(case, N, T, time_cycle=None):
    from pyunicorn.climate import ClimateData
    obs = mk(case, (T, N))
    grid = geogrid(case, N, T)
    if time_cycle is None:
        time_cycle = 1 + int(case["vs"]) % 3
    return ClimateData(obs, grid, time_cycle=time_cycle, silence_level=3)


@entry("climate_mutual_info", (("N", 9), ("T", 14)), variants=4,
       kernels=("climate.mutual_information",), nt=(0, 1))
def e_climate_mi(case, t):
    from pyunicorn.climate import MutualInfoClimateNetwork
    N, T = case["d"]
    t.wellformed = N >= 2 and T >= 2 and case["vc"] in ("random", "tied")
    # winter_only=True needs a 12-step annual cycle (documented)
    winter = case["p"] >= 2
    ok, data = t.call("ClimateData", _climate_data, case, N, T,
                      12 if winter else None)
    if not ok:
        return
    kw = {"threshold": 0.3} if case["p"] % 2 == 0 else {"link_density": 0.4}
    t.call("MutualInfoClimateNetwork", MutualInfoClimateNetwork, data,
           winter_only=winter, silence_level=3, **kw)


@entry("climate_rainfall", (("N", 9), ("T", 14)), variants=4,
       kernels=("climate.spearman_corr",), nt=(0, 1))
def e_climate_rainfall(case, t):
    from pyunicorn.climate import RainfallClimateNetwork
    N, T = case["d"]
    t.wellformed = N >= 2 and T >= 2 and case["vc"] in ("random", "tied")
    ok, data = t.call("ClimateData", _climate_data, case, N, T)
    if not ok:
        return
    kw = {"threshold": 0.3} if case["p"] % 2 == 0 else {"link_density": 0.4}
    # (fractional event thresholds always raise IndexError in
    #  calculate_top_events: float used as an index - not a C20 matter)
    ev = (0, 1) if case["p"] < 3 else (0.5, 1)
    t.call("RainfallClimateNetwork", RainfallClimateNetwork, data,
           event_threshold=ev, silence_level=3, **kw)


@entry("climate_rainfall_spearman_mask_shape", (("N", 6), ("T", 10)),
       variants=3, kernels=("climate.spearman_corr",))
def e_rainfall_mask_shape(case, t):
    """RainfallClimateNetwork.spearman_corr(final_mask, anomaly) with a mask
    that has fewer rows / columns than the anomaly, or a transposed one:
    rejected, or answered from inside the arrays."""
    from pyunicorn.climate import RainfallClimateNetwork
    N, T = case["d"]
    if N < 3 or T < 4:
        return
    ok, data = t.call("ClimateData", _climate_data, case, N, T)
    if not ok:
        return
    ok, net = t.call("RainfallClimateNetwork", RainfallClimateNetwork, data,
                     threshold=0.3, silence_level=3)
    if not ok:
        return
    rs = _rs(case, 3)
    anomaly = rs.rand(N, T)
    shape = ((N - 1, T), (N, T - 2), (T, N))[int(case["p"]) % 3]
    mask = rs.rand(*shape) > 0.5
    t.call("spearman_corr(mask %s, anomaly %s)" % (shape, (N, T)),
           net.spearman_corr, mask, anomaly)


# ---- core: Network ---------------------------------------------------------

def _network(case, N, cls=None, **kw):
    from pyunicorn.core import Network
    cls = cls or Network
    A = relayout(graph(case, N), case["layout"])
    return cls(adjacency=A, node_weights=weights(case, N),
               silence_level=3, **kw)


@entry("net_local_cliquishness", (("N", 10),), variants=2,
       kernels=("core._local_cliquishness_4thorder",
                "core._local_cliquishness_5thorder"))
def e_cliq(case, t):
    (N,) = case["d"]
    t.wellformed = N >= 2
    ok, net = t.call("Network", _network, case, N)
    if not ok:
        return
    t.call("local_cliquishness", net.local_cliquishness,
           4 + int(case["p"]) % 2)


@entry("net_nsi_betweenness", (("N", 10),), variants=3,
       kernels=("core._nsi_betweenness",))
def e_nsi_betw(case, t):
    (N,) = case["d"]
    t.wellformed = N >= 2
    ok, net = t.call("Network", _network, case, N)
    if not ok:
        return
    p = int(case["p"]) % 3
    if p == 0:
        t.call("nsi_betweenness", net.nsi_betweenness)
    elif p == 1:
        t.call("betweenness_nsi_false", net.nsi_betweenness, nsi=False)
    else:
        rs = _rs(case, 5)
        src = [int(v) for v in rs.randint(0, max(1, N), size=max(1, N // 2))]
        tgt = [int(v) for v in rs.randint(0, max(1, N), size=max(1, N // 2))]
        if N == 0:
            src, tgt = [], []
        t.call("interregional_betweenness", net.nsi_betweenness,
               sources=src, targets=tgt)


@entry("net_newman_betweenness", (("N", 8),), variants=3,
       kernels=("core._mpi_newman_betweenness",
                "core._mpi_nsi_newman_betweenness"))
def e_newman(case, t):
    (N,) = case["d"]
    t.wellformed = N >= 2
    ok, net = t.call("Network", _network, case, N)
    if not ok:
        return
    p = int(case["p"]) % 3
    if p == 0:
        t.call("newman_betweenness", net.newman_betweenness)
    else:
        t.call("nsi_newman_betweenness", net.nsi_newman_betweenness,
               add_local_ends=(p == 2))


# ---- core: InteractingNetworks -----------------------------------------

def _inter(case, N1, N2):
    from pyunicorn.core import InteractingNetworks
    extra = int(case["vs"]) % 2
    net = _network(case, N1 + N2 + extra, cls=InteractingNetworks)
    # node lists: interleaved or blocks
    idx = list(range(N1 + N2 + extra))
    if case["p"] % 2:
        idx = idx[::-1]
    return net, idx[:N1], idx[N1:N1 + N2]


@entry("inter_cross_clustering", (("N1", 7), ("N2", 7)), variants=8,
       kernels=("core._cross_local_clustering",
                "core._nsi_cross_local_clustering",
                "core._cross_transitivity", "core._nsi_cross_transitivity"))
def e_cross(case, t):
    N1, N2 = case["d"]
    t.wellformed = N1 >= 1 and N2 >= 1
    ok, r = t.call("InteractingNetworks", _inter, case, N1, N2)
    if not ok:
        return
    net, l1, l2 = r
    which = (int(case["p"]) // 2) % 4
    name = ("cross_local_clustering", "nsi_cross_local_clustering",
            "cross_transitivity", "nsi_cross_transitivity")[which]
    t.call(name, getattr(net, name), l1, l2)


@entry("inter_cross_node_index_out_of_range", (("N1", 5), ("N2", 5)),
       variants=24,
       kernels=("core._cross_local_clustering",
                "core._nsi_cross_local_clustering",
                "core._cross_transitivity", "core._nsi_cross_transitivity"))
def e_cross_oob(case, t):
    """A node list holding an index outside 0..N-1 (1-based numbering, -1):
    rejected with a Python exception (the kernels' bounds checks are the
    only validation cross_transitivity & co. have), never answered from
    memory outside the adjacency copy / the weight vector."""
    N1, N2 = case["d"]
    if N1 < 1 or N2 < 1:
        return
    ok, r = t.call("InteractingNetworks", _inter, case, N1, N2)
    if not ok:
        return
    net, l1, l2 = r
    p = int(case["p"])
    name = ("cross_local_clustering", "nsi_cross_local_clustering",
            "cross_transitivity", "nsi_cross_transitivity")[p % 4]
    N = net.N
    bad = (N, -1, N + 3)[(p // 4) % 3]
    l1, l2 = list(l1), list(l2)
    if (p // 12) % 2:
        l2[int(case["vs"]) % len(l2)] = bad
    else:
        l1[int(case["vs"]) % len(l1)] = bad
    t.call("%s(bad=%d)" % (name, bad), getattr(net, name), l1, l2)


def _eligible_cross_swap(cross):
    """Does a pair of cross links (a,b),(c,d) with no (a,d),(c,b) exist?
    Then one exists after every swap as well (the reverse swap)."""
    links = np.argwhere(cross)
    for a, b in links:
        for c, d in links:
            if not cross[a, d] and not cross[c, b]:
                return True
    return False


@entry("inter_random_cross_links", (("N1", 6), ("N2", 6)), variants=4,
       kernels=("core._randomlySetCrossLinks",
                "core._randomlyRewireCrossLinks"))
def e_cross_links(case, t):
    from pyunicorn.core import InteractingNetworks
    N1, N2 = case["d"]
    t.wellformed = N1 >= 2 and N2 >= 2
    ok, r = t.call("InteractingNetworks", _inter, case, N1, N2)
    if not ok:
        return
    net, l1, l2 = r
    _seed(case)
    p = int(case["p"]) % 4
    if p < 2:
        kw = {} if p == 0 else {"number_cross_links": (N1 * N2) // 2}
        t.call("RandomlySetCrossLinks",
               InteractingNetworks.RandomlySetCrossLinks, net, l1, l2, **kw)
    else:
        cross = np.asarray(net.adjacency)[np.ix_(l1, l2)] if N1 and N2 \
            else np.zeros((N1, N2), dtype=int)
        # termination precondition of the rewiring loop (README rule 8)
        swaps = 0.5 * (p - 1) if _eligible_cross_swap(cross) else 0.0
        if cross.sum() == 0:
            swaps = 0.0
        t.call("RandomlyRewireCrossLinks",
               InteractingNetworks.RandomlyRewireCrossLinks, net, l1, l2,
               swaps)


# ---- core: geo model rewiring ---------------------------------------------

@entry("geo_rewire_geomodel", (("N", 9),), variants=3,
       kernels=("core._randomly_rewire_geomodel_I",
                "core._randomly_rewire_geomodel_II",
                "core._randomly_rewire_geomodel_III"))
def e_rewire(case, t):
    from pyunicorn.core import GeoNetwork
    (N,) = case["d"]
    t.wellformed = N >= 4
    ok, grid = t.call("GeoGrid", geogrid, case, N)
    if not ok:
        return
    A = graph(case, N, density=(0.2, 0.35, 0.5, 0.3)[int(case["vs"]) % 4])
    ok, net = t.call("GeoNetwork", GeoNetwork, grid,
                     adjacency=relayout(A, case["layout"]),
                     silence_level=3)
    if not ok:
        return
    ok, D = t.call("angular_distance", grid.angular_distance)
    if not ok:
        return
    p = int(case["p"]) % 3
    deg = A.sum(axis=1) if p == 2 else None
    # termination precondition (README rule 8): an eligible ordered pair of
    # rows of the library's own edge list exists; after a swap the reverse
    # swap is eligible, so one exists in every later iteration as well
    edges = [tuple(e) for e in net.graph.get_edgelist()]
    elig = False
    for s, u in edges:
        for k, l in edges:
            if len({s, u, k, l}) == 4 and not A[s, l] and not A[u, k] and \
                    (deg is None or (deg[s] == deg[k] and deg[u] == deg[l])):
                elig = True
    iterations = (1 + int(case["vs"]) % 3) if elig else 0
    _seed(case)
    meth = (net.randomly_rewire_geomodel_I, net.randomly_rewire_geomodel_II,
            net.randomly_rewire_geomodel_III)[p]
    # inaccuracy 10 > pi: the link-length conditions always hold, so the
    # only termination condition is the structural one established above
    t.call("randomly_rewire_geomodel_" + "I" * (p + 1), meth, D, iterations,
           10.0)


# ---- core: grids -----------------------------------------------------------

@entry("grid_distances", (("D", 4), ("N", 10)), variants=2,
       kernels=("core._calculate_euclidean_distance",
                "core._calculate_angular_distance"))
def e_grid(case, t):
    from pyunicorn.core import Grid, GeoGrid
    D, N = case["d"]
    t.wellformed = D >= 1 and N >= 1
    if case["p"] % 2 == 0:
        ok, g = t.call("Grid", Grid, np.arange(3, dtype=float),
                       mk(case, (D, N)), silence_level=3)
        if ok:
            t.call("euclidean_distance", g.euclidean_distance)
    else:
        lat = mk(case, (N,), k=1)
        lon = mk(case, (N,), k=2)
        if case["vc"] not in ("nan", "huge") and lat.dtype.kind == "f":
            lat = relayout(np.clip(lat * 40, -90, 90), case["layout"])
            lon = relayout(np.clip(lon * 80, -180, 180), case["layout"])
        ok, g = t.call("GeoGrid", GeoGrid, np.arange(3, dtype=float), lat,
                       lon, silence_level=3)
        if ok:
            t.call("angular_distance", g.angular_distance)


# ---- core: ResNetwork -----------------------------------------------------

def _resnet(case, N):
    from pyunicorn.core import ResNetwork
    rs = _rs(case, 7)
    A = graph(case, N, density=(0.4, 0.6, 0.8, 1.0)[int(case["vs"]) % 4])
    R = np.triu(rs.randint(1, 9, size=(N, N)), 1)
    R = ((R + R.T) * A).astype(_NP[case["dtype"]] if case["dtype"] != "b1"
                               else np.float64)
    return ResNetwork(relayout(R, case["layout"]),
                      adjacency=A if case["vs"] % 2 else None,
                      silence_level=3)


@entry("res_current_flow_betweenness", (("N", 8),), variants=2,
       kernels=("core._vertex_current_flow_betweenness",
                "core._edge_current_flow_betweenness"))
def e_res(case, t):
    (N,) = case["d"]
    t.wellformed = N >= 2
    ok, net = t.call("ResNetwork", _resnet, case, N)
    if not ok:
        return
    if case["p"] % 2 == 0:
        for i in sorted({0, max(0, N - 1), N // 2}):
            if i < N:
                t.call("vertex_current_flow_betweenness(%d)" % i,
                       net.vertex_current_flow_betweenness, i)
    else:
        t.call("edge_current_flow_betweenness",
               net.edge_current_flow_betweenness)


@entry("res_adjacency_replaced_then_cfb", (("N", 6), ("M", 8)), variants=2,
       kernels=("core._vertex_current_flow_betweenness",
                "core._edge_current_flow_betweenness"))
def e_res_resized(case, t):
    """The public adjacency setter gives the network another size; the
    stored admittance / R still belong to the old one.  The kernels are
    handed N together with those arrays: rejected with an exception, or
    answered from inside the arrays."""
    N, M = case["d"]
    if N < 2 or M < 2:
        return
    ok, net = t.call("ResNetwork", _resnet, case, N)
    if not ok:
        return
    A2 = graph(case, M, density=0.7)

    def replace():
        net.adjacency = A2
    ok, _ = t.call("adjacency_setter", replace)
    if not ok:
        return
    if case["p"] % 2:
        t.call("vertex_current_flow_betweenness",
               net.vertex_current_flow_betweenness, (M - 1) % max(1, net.N))
    else:
        t.call("edge_current_flow_betweenness",
               net.edge_current_flow_betweenness)


@entry("res_vertex_cfb_index_out_of_range", (("N", 8),), variants=4,
       kernels=("core._vertex_current_flow_betweenness",))
def e_res_oob(case, t):
    """Node index outside 0..N-1: every bounds-checked method of the library
    answers with an IndexError."""
    (N,) = case["d"]
    ok, net = t.call("ResNetwork", _resnet, case, N)
    if not ok:
        return
    i = (N, N + 1, -1, 3 * N + 7)[int(case["p"]) % 4]
    t.call("vertex_current_flow_betweenness(%d)" % i,
           net.vertex_current_flow_betweenness, i)


# ---- timeseries: RecurrencePlot ---------------------------------------------

METRICS = ("supremum", "euclidean", "manhattan")
RP_MODES = ("threshold", "threshold_std", "recurrence_rate",
            "local_recurrence_rate", "adaptive_neighborhood_size")


def _rp_kwargs(case, mode, T):
    rs = _rs(case, 11)
    if mode == "threshold":
        return {"threshold": float((0.0, 0.3, 1.0, 5.0)[case["vs"] % 4])}
    if mode == "threshold_std":
        return {"threshold_std": 0.5}
    if mode == "recurrence_rate":
        return {"recurrence_rate": float((0.0, 0.2, 0.5, 1.0)[case["vs"] % 4])}
    if mode == "local_recurrence_rate":
        return {"local_recurrence_rate":
                float((0.0, 0.2, 0.5, 1.0)[case["vs"] % 4])}
    return {"adaptive_neighborhood_size":
            int(rs.randint(0, max(1, T) + 2))}


def _rp(case, T, D, metric, mode, **extra):
    from pyunicorn.timeseries import RecurrencePlot
    x = mk(case, (T, D)) if D != -1 else mk(case, (T,))
    kw = _rp_kwargs(case, mode, T)
    kw.update(extra)
    if case["vc"] == "nan" and "missing_values" not in kw:
        kw["missing_values"] = bool(case["vs"] % 2)
    return RecurrencePlot(x, metric=metric, silence_level=3, **kw)


@entry("rp_construct", (("T", 12), ("D", 4)), variants=15,
       kernels=("timeseries._manhattan_distance_matrix_rp",
                "timeseries._euclidean_distance_matrix_rp",
                "timeseries._supremum_distance_matrix_rp",
                "timeseries._set_adaptive_neighborhood_size"))
def e_rp(case, t):
    T, D = case["d"]
    t.wellformed = T >= 2 and D >= 1
    p = int(case["p"]) % 15
    ok, rp = t.call("RecurrencePlot", _rp, case, T, D, METRICS[p % 3],
                    RP_MODES[p // 3])
    if ok:
        t.call("recurrence_rate", rp.recurrence_rate)


@entry("rp_adaptive_order", (("T", 10), ("L", 10)), variants=3,
       kernels=("timeseries._set_adaptive_neighborhood_size",))
def e_rp_order(case, t):
    """set_adaptive_neighborhood_size with a caller-supplied processing
    order (documented: 1D array of int32 node indices)."""
    T, L = case["d"]
    t.wellformed = T >= 2 and L == T
    ok, rp = t.call("RecurrencePlot", _rp, case, T, 1,
                    METRICS[int(case["p"]) % 3], "threshold")
    if not ok:
        return
    rs = _rs(case, 19)
    order = rs.permutation(max(T, L))[:L] if L <= T else \
        rs.randint(0, max(1, T), size=L)
    order = relayout(np.asarray(order, dtype=np.int32), case["layout"])
    t.call("set_adaptive_neighborhood_size",
           rp.set_adaptive_neighborhood_size, 1 + int(case["vs"]) % 3,
           order=order)


@entry("rp_embedding", (("T", 12), ("dim", 4), ("tau", 4)), variants=3,
       kernels=("timeseries._embed_time_series",))
def e_rp_embed(case, t):
    from pyunicorn.timeseries import RecurrencePlot
    T, dim, tau = case["d"]
    t.wellformed = dim >= 1 and T - (dim - 1) * tau >= 2
    p = int(case["p"]) % 3
    if p == 2:
        t.call("embed_time_series", RecurrencePlot.embed_time_series,
               mk(case, (T,)), dim, tau)
        return
    t.call("RecurrencePlot(dim,tau)", _rp, case, T, -1 if p else 1,
           METRICS[case["vs"] % 3], "threshold", dim=dim, tau=tau)


@entry("rp_line_distributions", (("T", 12), ("D", 3)), variants=8,
       kernels=("timeseries._diagline_dist", "timeseries._vertline_dist",
                "timeseries._white_vertline_dist",
                "timeseries._diagline_dist_missingvalues",
                "timeseries._vertline_dist_missingvalues",
                "timeseries._diagline_dist_sequential",
                "timeseries._vertline_dist_sequential",
                "timeseries._diagline_dist_sequential_missingvalues",
                "timeseries._vertline_dist_sequential_missingvalues",
                "timeseries._rejection_sampling"))
def e_rp_lines(case, t):
    T, D = case["d"]
    t.wellformed = T >= 2 and D >= 1
    p = int(case["p"]) % 8
    missing = bool(p & 1)
    sparse = bool(p & 2)
    mode = "threshold" if (sparse or p & 4) else "recurrence_rate"
    ok, rp = t.call("RecurrencePlot", _rp, case, T, D,
                    "supremum" if sparse else METRICS[case["vs"] % 3], mode,
                    missing_values=missing, sparse_rqa=sparse)
    if not ok:
        return
    t.call("diagline_dist", rp.diagline_dist)
    t.call("vertline_dist", rp.vertline_dist)
    if not sparse:
        t.call("white_vertline_dist", rp.white_vertline_dist)
        _seed(case)
        M = int(case["vs"]) % 4
        t.call("resample_diagline_dist", rp.resample_diagline_dist, M)
        t.call("resample_vertline_dist", rp.resample_vertline_dist, M)
    t.call("rqa_summary", rp.rqa_summary)


@entry("rp_bootstrap_distance", (("T", 12), ("D", 3), ("M", 6)), variants=3,
       kernels=("timeseries._bootstrap_distance_matrix_manhattan",
                "timeseries._bootstrap_distance_matrix_euclidean",
                "timeseries._bootstrap_distance_matrix_supremum"))
def e_rp_boot(case, t):
    from pyunicorn.timeseries import RecurrencePlot
    T, D, M = case["d"]
    t.wellformed = T >= 1 and D >= 1
    _seed(case)
    t.call("bootstrap_distance_matrix",
           RecurrencePlot.bootstrap_distance_matrix, mk(case, (T, D)),
           METRICS[int(case["p"]) % 3], M)


@entry("rp_twins", (("T", 12), ("D", 3)), variants=6,
       kernels=("timeseries._twins_r", "timeseries._twin_surrogates_r"))
def e_rp_twins(case, t):
    T, D = case["d"]
    t.wellformed = T >= 2 and D >= 1
    p = int(case["p"]) % 6
    min_dist = (0, 1, 7)[p % 3]
    ok, rp = t.call("RecurrencePlot", _rp, case, T, D,
                    METRICS[case["vs"] % 3],
                    "threshold" if p < 3 else "recurrence_rate")
    if not ok:
        return
    t.call("twins", rp.twins, min_dist)
    _seed(case)
    t.call("twin_surrogates", rp.twin_surrogates,
           n_surrogates=int(case["vs"]) % 3, min_dist=min_dist)


# ---- timeseries: CrossRecurrencePlot ------------------------------------

@entry("crp_construct", (("Tx", 10), ("Ty", 10), ("D", 3)), variants=12,
       kernels=("timeseries._manhattan_distance_matrix_crp",
                "timeseries._euclidean_distance_matrix_crp",
                "timeseries._supremum_distance_matrix_crp"))
def e_crp(case, t):
    from pyunicorn.timeseries import CrossRecurrencePlot
    Tx, Ty, D = case["d"]
    p = int(case["p"]) % 12
    Dy = D if p < 6 else max(0, D + (1 if p < 9 else -1))
    t.wellformed = Tx >= 1 and Ty >= 1 and D >= 1 and Dy == D
    x = mk(case, (Tx, D), k=0)
    y = mk(case, (Ty, Dy), k=1)
    kw = {"threshold": 0.5} if p % 2 == 0 else {"recurrence_rate": 0.3}
    ok, crp = t.call("CrossRecurrencePlot", CrossRecurrencePlot, x, y,
                     metric=METRICS[(p // 2) % 3], silence_level=3, **kw)
    if ok:
        t.call("cross_recurrence_rate", crp.cross_recurrence_rate)


# ---- timeseries: Surrogates ---------------------------------------------

@entry("surr_embed_recurrence", (("N", 5), ("T", 12), ("dim", 4)),
       variants=3, kernels=("timeseries._embed_time_series_array",
                            "timeseries._recurrence_plot"), nt=(0, 1))
def e_surr_embed(case, t):
    from pyunicorn.timeseries import Surrogates
    N, T, dim = case["d"]
    delay = int(case["p"]) % 3
    t.wellformed = N >= 1 and dim >= 1 and T - (dim - 1) * delay >= 1
    ok, emb = t.call("embed_time_series_array",
                     Surrogates.embed_time_series_array, mk(case, (N, T)),
                     dim, delay, silence_level=3)
    if ok and N >= 1:
        t.call("recurrence_plot", Surrogates.recurrence_plot,
               relayout(emb[0], case["layout"]), 0.5, silence_level=3)
    else:
        t.call("recurrence_plot", Surrogates.recurrence_plot,
               mk(case, (T, dim), k=3), 0.5, silence_level=3)


@entry("surr_twin_surrogates", (("N", 5), ("T", 12), ("dim", 3)),
       variants=6, kernels=("timeseries._embed_time_series_array",
                            "timeseries._twins_s",
                            "timeseries._twin_surrogates_s"), nt=(0, 1))
def e_surr_twins(case, t):
    from pyunicorn.timeseries import Surrogates
    N, T, dim = case["d"]
    p = int(case["p"]) % 6
    delay = p % 3
    min_dist = (0, 7)[p // 3]
    t.wellformed = N >= 1 and dim >= 1 and T - (dim - 1) * delay >= 2
    ok, s = t.call("Surrogates", Surrogates, mk(case, (N, T)),
                   silence_level=3)
    if not ok:
        return
    _seed(case)
    t.call("twin_surrogates", s.twin_surrogates, dim, delay,
           float((0.1, 0.5, 2.0)[case["vs"] % 3]), min_dist)


@entry("surr_test_pearson", (("N", 6), ("T", 12)), variants=2,
       kernels=("timeseries._test_pearson_correlation",), nt=(0, 1))
def e_surr_pearson(case, t):
    from pyunicorn.timeseries import Surrogates
    N, T = case["d"]
    t.wellformed = N >= 1 and T >= 1
    t.call("test_pearson_correlation", Surrogates.test_pearson_correlation,
           mk(case, (N, T), k=0), mk(case, (N, T), k=1))


@entry("surr_test_mutual_information", (("N", 6), ("T", 12), ("n_bins", 8)),
       variants=2, kernels=("timeseries._test_mutual_information",),
       nt=(0, 1), region=lambda c: "n_bins_0" if c["d"][2] == 0 else None)
def e_surr_mi(case, t):
    from pyunicorn.timeseries import Surrogates
    N, T, n_bins = case["d"]
    if case["p"] % 2 and n_bins > 3:
        n_bins = 32
    t.wellformed = N >= 1 and T >= 1 and n_bins >= 1
    t.call("test_mutual_information", Surrogates.test_mutual_information,
           mk(case, (N, T), k=0), mk(case, (N, T), k=1), n_bins=n_bins)


@entry("surr_test_shape_mismatch", (("N", 5), ("T", 8), ("N2", 5),
                                    ("T2", 8)), variants=2,
       kernels=("timeseries._test_pearson_correlation",
                "timeseries._test_mutual_information"))
def e_surr_mismatch(case, t):
    """original_data and surrogates of different shapes (e.g. the output of
    twin_surrogates is shorter than the original data)."""
    from pyunicorn.timeseries import Surrogates
    N, T, N2, T2 = case["d"]
    a, b = mk(case, (N, T), k=0), mk(case, (N2, T2), k=1)
    if case["p"] % 2 == 0:
        t.call("test_pearson_correlation",
               Surrogates.test_pearson_correlation, a, b)
    else:
        t.call("test_mutual_information",
               Surrogates.test_mutual_information, a, b, n_bins=4)


# ---- timeseries: VisibilityGraph -----------------------------------------

@entry("visibility_graph", (("T", 14),), variants=6,
       kernels=("timeseries._visibility_relations_no_missingvalues",
                "timeseries._visibility_relations_missingvalues",
                "timeseries._visibility_relations_horizontal",
                "timeseries._retarded_local_clustering",
                "timeseries._advanced_local_clustering"))
def e_vg(case, t):
    from pyunicorn.timeseries import VisibilityGraph
    (T,) = case["d"]
    t.wellformed = T >= 2
    p = int(case["p"]) % 6
    x = mk(case, (T,))
    timings = None
    if p >= 3:
        rs = _rs(case, 13)
        timings = relayout(np.cumsum(rs.randint(1, 4, size=T)).astype(
            float), case["layout"])
    kind = p % 3
    ok, vg = t.call("VisibilityGraph", VisibilityGraph, x, timings=timings,
                    missing_values=(kind == 1), horizontal=(kind == 2),
                    silence_level=3)
    if not ok:
        return
    t.call("retarded_local_clustering", vg.retarded_local_clustering)
    t.call("advanced_local_clustering", vg.advanced_local_clustering)


# ---- funcnet: CouplingAnalysis --------------------------------------------

def _coupling(case, T, N):
    from pyunicorn.funcnet import CouplingAnalysis
    return CouplingAnalysis(mk(case, (T, N)), silence_level=3)


@entry("ca_cross_correlation", (("T", 14), ("N", 6), ("tau_max", 4)),
       variants=2, kernels=("funcnet._cross_correlation_max",
                            "funcnet._cross_correlation_all"), nt=(1, 0))
def e_ca_cc(case, t):
    T, N, tau = case["d"]
    t.wellformed = N >= 1 and T - tau >= 1
    ok, ca = t.call("CouplingAnalysis", _coupling, case, T, N)
    if ok:
        t.call("cross_correlation", ca.cross_correlation, tau_max=tau,
               lag_mode=("max", "all")[int(case["p"]) % 2])


@entry("ca_mutual_information", (("T", 16), ("N", 4), ("tau_max", 3)),
       variants=6, kernels=("funcnet._get_nearest_neighbors",), nt=(1, 0))
def e_ca_mi(case, t):
    T, N, tau = case["d"]
    p = int(case["p"]) % 6
    est = ("knn", "knn", "binning")[p % 3]
    lag_mode = ("max", "all")[p // 3]
    # termination precondition of the growing-cube search (DESIGN 2.7):
    # knn < T - max_lag - 1; otherwise knn = 0 (rejected by the library)
    hi = min(T - tau - 2, T // 2)
    knn = 0 if hi < 1 else 1 + int(case["vs"]) % hi
    t.wellformed = N >= 1 and hi >= 1 and case["vc"] == "random"
    ok, ca = t.call("CouplingAnalysis", _coupling, case, T, N)
    if ok:
        _seed(case)
        t.call("mutual_information", ca.mutual_information, tau_max=tau,
               estimator=est, knn=knn, bins=2 + int(case["vs"]) % 4,
               lag_mode=lag_mode)


@entry("ca_information_transfer", (("T", 16), ("N", 3), ("tau_max", 3),
                                   ("past", 3)), variants=4,
       kernels=("funcnet._get_nearest_neighbors",), nt=(1, 0))
def e_ca_it(case, t):
    T, N, tau, past = case["d"]
    p = int(case["p"]) % 4
    hi = min(T - tau - past - 2, T // 2)
    knn = 0 if hi < 1 else 1 + int(case["vs"]) % hi
    t.wellformed = N >= 1 and hi >= 1 and past >= 1 and \
        case["vc"] == "random"
    ok, ca = t.call("CouplingAnalysis", _coupling, case, T, N)
    if ok:
        _seed(case)
        t.call("information_transfer", ca.information_transfer, tau_max=tau,
               estimator="knn", knn=knn, past=past,
               cond_mode=("ity", "mit")[p % 2],
               lag_mode=("max", "all")[p // 2])


@entry("ca_get_nearest_neighbors", (("dim", 4), ("T", 14), ("k", 5)),
       variants=4, kernels=("funcnet._get_nearest_neighbors",))
def e_ca_knn(case, t):
    """The public static helper with caller-chosen X/Y/Z partition."""
    from pyunicorn.funcnet import CouplingAnalysis
    dim, T, k = case["d"]
    p = int(case["p"]) % 4
    # X = first component, Y = the next 1..2, Z = the rest
    ny = 1 + p % 2
    xyz = np.array(([0] + [1] * ny + [2] * dim)[:dim], dtype=int)
    standardize = p < 2 or case["vc"] in ("nan", "huge")
    # termination precondition of the growing-cube search: k < T - 1
    if k >= T - 1:
        k = max(0, T - 2)
    t.wellformed = dim >= 2 and T >= 3 and k >= 1 and \
        case["vc"] == "random"
    if k < 1 or T < 3:
        # the loop `while n <= k` cannot terminate with k >= T; the public
        # callers guard with 1 <= knn <= T/2: keep to that domain
        t.steps.append({"step": "skipped_outside_termination_domain",
                        "exc": None})
        return
    _seed(case)
    t.call("get_nearest_neighbors", CouplingAnalysis.get_nearest_neighbors,
           mk(case, (dim, T), dtype="f8" if case["dtype"] in ("i8", "b1")
              else None), xyz, k, standardize)


@entry("ca_symmetrize_by_absmax", (("N", 6), ("M", 6)), variants=2,
       kernels=("funcnet._symmetrize_by_absmax",))
def e_ca_sym(case, t):
    N, M = case["d"]
    t.wellformed = N >= 1 and M == N
    ok, ca = t.call("CouplingAnalysis", _coupling, case, 4, N)
    if not ok:
        return
    sim = mk(case, (M, M), k=1)
    rs = _rs(case, 17)
    lag = relayout(rs.randint(0, 4, size=(M, M)).astype(np.int8),
                   case["layout"])
    if case["p"] % 2:
        lag = lag.astype(np.int64)   # wider than LAG: not 'same_kind'-safe
    t.call("symmetrize_by_absmax", ca.symmetrize_by_absmax, sim, lag)


ENTRY_NAMES = tuple(sorted(ENTRIES))


def expected_kernels():
    out = set()
    for e in ENTRIES.values():
        out.update(e["kernels"])
    return out


# ------------------------------------------------------------------- server

def run_case(case):
    global REACHED
    t = Tracker()
    REACHED = t.reached
    e = ENTRIES[case["entry"]]
    try:
        e["fn"](case, t)
    finally:
        REACHED = None
    return {"status": "ok", "steps": t.steps, "kernels": sorted(t.reached),
            "wellformed": bool(t.wellformed)}


def _serve_forked(case, out):
    r, w = os.pipe()
    pid = os.fork()
    if pid == 0:
        try:
            os.close(r)
            signal.alarm(600)
            try:
                res = run_case(case)
            except BaseException as e:  # pylint: disable=broad-except
                res = {"status": "harness-error",
                       "error": "%s: %s" % (type(e).__name__, e),
                       "traceback": traceback.format_exc()[-3000:]}
            os.write(w, (json.dumps(res) + "\n").encode())
        finally:
            os._exit(0)
    os.close(w)
    chunks = []
    while True:
        b = os.read(r, 65536)
        if not b:
            break
        chunks.append(b)
    os.close(r)
    _, st = os.waitpid(pid, 0)
    data = b"".join(chunks)
    if data.endswith(b"\n") and os.WIFEXITED(st) and os.WEXITSTATUS(st) == 0:
        out.write(data.decode())
    else:
        rc = os.WEXITSTATUS(st) if os.WIFEXITED(st) else -os.WTERMSIG(st)
        out.write(json.dumps({"status": "crash", "rc": rc}) + "\n")
    out.flush()


def main():
    import tempfile
    import warnings
    warnings.filterwarnings("ignore")
    np.seterr(all="ignore")
    # protocol channel = original stdout; the library's prints go nowhere
    out = os.fdopen(os.dup(1), "w")
    devnull = os.open(os.devnull, os.O_WRONLY)
    os.dup2(devnull, 1)
    sys.stdout = open(os.devnull, "w")
    scratch = tempfile.mkdtemp(prefix="asanw-", dir=os.getcwd())
    os.chdir(scratch)
    install_tracing()
    out.write(json.dumps({"status": "ready", "kernels_total": len(KERNELS),
                          "kernel_names": sorted(KERNELS)}) + "\n")
    out.flush()
    for line in sys.stdin:
        line = line.strip()
        if not line:
            continue
        req = json.loads(line)
        if req.get("cmd") == "quit":
            break
        case = req["case"]
        # never outlive a dead parent in an endless kernel loop: the parent
        # gives up long before this fires
        signal.alarm(600)
        # a marker in the stderr file: the parent cuts the report after it
        sys.stderr.write("@@case %s\n" % req.get("id"))
        sys.stderr.flush()
        if req.get("fork"):
            _serve_forked(case, out)
            signal.alarm(0)
            continue
        try:
            res = run_case(case)
        except BaseException as e:  # pylint: disable=broad-except
            res = {"status": "harness-error",
                   "error": "%s: %s" % (type(e).__name__, e),
                   "traceback": traceback.format_exc()[-3000:]}
        out.write(json.dumps(res) + "\n")
        out.flush()
        signal.alarm(0)
    os.chdir("/")
    import shutil
    shutil.rmtree(scratch, ignore_errors=True)


if __name__ == "__main__":
    main()
