"""Maintenance of known_findings.json (run by hand, never by a check).

python -m vp.kf merge                 merge known_findings.d/*.json into known_findings.json
python -m vp.kf fixed KF-ID COMMIT    move a finding to the 'fixed' list; its replay becomes
                                      replays/<ID>/regress-<kf-id>.json (a regression case)
"""
import glob
import json
import os
import sys

from vp.build import VERIF

P = os.path.join(VERIF, "known_findings.json")


def load():
    return json.load(open(P))


def save(d):
    json.dump(d, open(P, "w"), indent=1)
    open(P, "a").write("\n")


def merge():
    d = load()
    ids = {f["id"] for f in d["findings"]}
    for p in sorted(glob.glob(os.path.join(VERIF, "known_findings.d", "*.json"))):
        x = json.load(open(p))
        for f in x.get("findings", []):
            if f["id"] not in ids:
                d["findings"].append(f)
                ids.add(f["id"])
        for f in x.get("fixed", []):
            if f not in d["fixed"]:
                d["fixed"].append(f)
        os.remove(p)
    save(d)


def fixed(kid, commit):
    d = load()
    f = [x for x in d["findings"] if x["id"] == kid]
    if not f:
        sys.exit("no such finding " + kid)
    f = f[0]
    d["findings"].remove(f)
    old = os.path.join(VERIF, f["replay"])
    new = os.path.join(os.path.dirname(old), "regress-%s.json" % kid.lower())
    os.rename(old, new)
    d["fixed"].append("fixed: property=%s %s %s (%s)" % (
        f["property"], commit, f["what_fails"], os.path.relpath(new, VERIF)))
    save(d)


if __name__ == "__main__":
    if sys.argv[1] == "merge":
        merge()
    elif sys.argv[1] == "fixed":
        fixed(sys.argv[2], sys.argv[3])
