"""Orchestrator: ./check <ID> [--tier quick|thorough] [--replay FILE]

Builds /repo's working tree (hash-keyed), fans the property's sub-checks out
over up to 16 worker processes, merges their results into
/verif/evidence/<ID>.json and prints VIOLATION / KNOWN-FINDING lines.

exit 0: property held on everything explored (known findings are printed)
exit 1: at least one violation not listed in known_findings.json
exit 2: harness error (never a verdict about the property)
"""
import argparse
import concurrent.futures
import fnmatch
import importlib
import json
import os
import shutil
import subprocess
import sys
import tempfile
import time

from vp import build

VERIF = build.VERIF
PY = build.PY


def load_known(prop):
    out = []
    for p in (os.path.join(VERIF, "known_findings.json"),
              os.path.join(VERIF, "known_findings.d", prop + ".json")):
        if os.path.exists(p):
            data = json.load(open(p))
            out += [k for k in data.get("findings", [])
                    if k["property"] == prop]
    return out


def worker_env(flavour, bdir):
    env = dict(os.environ)
    pp = [os.path.join(bdir, "src"), VERIF]
    deps = os.path.join(VERIF, ".deps")
    if os.path.isdir(deps):
        pp.append(deps)
    env["PYTHONPATH"] = ":".join(pp)
    env["PYTHONHASHSEED"] = "0"
    env["OMP_NUM_THREADS"] = "1"
    env["OPENBLAS_NUM_THREADS"] = "1"
    env["MKL_NUM_THREADS"] = "1"
    env["PYTHONDONTWRITEBYTECODE"] = "1"
    if flavour == "asan":
        env.update(build.asan_env())
    return env


def run_unit(cmd, env, timeout, out):
    t0 = time.time()
    try:
        p = subprocess.run(cmd, env=env, timeout=timeout, cwd=VERIF,
                           stdout=subprocess.DEVNULL, stderr=subprocess.PIPE,
                           text=True)
        err = p.stderr[-3000:]
        rc = p.returncode
    except subprocess.TimeoutExpired as e:
        part = {}
        if os.path.exists(out + ".partial"):
            try:
                part = json.load(open(out + ".partial"))
            except Exception:  # pylint: disable=broad-except
                part = {}
        return {"status": "timeout", "wall_s": time.time() - t0,
                "partial_violations": part.get("violations", []),
                "stderr": (e.stderr or b"")[-2000:].decode("utf8", "replace")
                if isinstance(e.stderr, bytes) else str(e.stderr)[-2000:]}
    if os.path.exists(out):
        r = json.load(open(out))
        r["stderr"] = err
        return r
    return {"status": "harness-error", "error": "worker died rc=%s" % rc,
            "traceback": err}


def main(argv=None):
    ap = argparse.ArgumentParser()
    ap.add_argument("prop")
    ap.add_argument("--tier", default=os.environ.get("VERIF_TIER", "quick"))
    ap.add_argument("--seed", type=int,
                    default=int(os.environ.get("VERIF_SEED", "1") or 1))
    ap.add_argument("--replay", default=None)
    ap.add_argument("--only", default=None,
                    help="fnmatch pattern restricting sub-checks")
    ap.add_argument("--jobs", type=int,
                    default=int(os.environ.get("VERIF_JOBS", "16")))
    ap.add_argument("--scale", type=float,
                    default=float(os.environ.get("VERIF_SCALE", "1")))
    ap.add_argument("--no-evidence", action="store_true")
    a = ap.parse_args(argv)
    prop = a.prop.upper()
    if a.tier not in ("quick", "thorough"):
        a.tier = "quick"
    t0 = time.time()

    sys.path.insert(0, VERIF)
    try:
        mod = importlib.import_module("props." + prop.lower())
    except Exception as e:  # pylint: disable=broad-except
        print("HARNESS-ERROR property=%s cannot import check module: %r"
              % (prop, e))
        return 2
    subs = list(mod.SUBCHECKS)
    known = load_known(prop)

    flavours = sorted({s.flavour for s in subs})
    bdirs = {}
    try:
        for fl in flavours:
            bdirs[fl], tree = build.ensure(fl)
    except Exception as e:  # pylint: disable=broad-except
        print("HARNESS-ERROR property=%s build failed: %r" % (prop, e))
        return 2

    os.makedirs(os.path.join(VERIF, ".build"), exist_ok=True)
    rundir = tempfile.mkdtemp(prefix="out-%s-" % prop,
                              dir=os.path.join(VERIF, ".build"))
    knownfile = os.path.join(rundir, "known.json")
    json.dump(known, open(knownfile, "w"))
    outdir = os.path.join(VERIF, "replays", "new") \
        if not a.replay else rundir
    submap = {s.name: s for s in subs}
    status = 0
    try:
        # ---------------- replay mode --------------------------------------
        if a.replay:
            rp = json.load(open(a.replay))
            s = submap[rp["sub"]]
            out = os.path.join(rundir, "replay.json")
            r = run_unit([PY, "-m", "vp.worker", "--prop", prop, "--sub",
                          s.name, "--outdir", rundir, "--out", out,
                          "--replay", os.path.abspath(a.replay)],
                         worker_env(s.flavour, bdirs[s.flavour]),
                         s.timeout[1], out)
            if r.get("status") != "ok":
                print("HARNESS-ERROR property=%s replay: %s\n%s" % (
                    prop, r.get("error"), r.get("traceback", "")))
                return 2
            fails = r.get("replay_fails", [])
            for f in fails:
                print("  fails %s: %s" % (f["clause"], f["detail"]))
            if any(f["clause"] == rp.get("clause") for f in fails) or (
                    fails and not rp.get("clause")):
                print("VIOLATION property=%s replay=%s" % (
                    prop, os.path.abspath(a.replay)))
                return 1
            print("replay passes: property=%s %s" % (prop, a.replay))
            return 0

        # ---------------- known findings: re-run committed replays ---------
        units = []
        kf_units = []
        for k in known:
            if not k.get("replay"):
                continue
            rpath = os.path.join(VERIF, k["replay"])
            rp = json.load(open(rpath))
            s = submap.get(rp["sub"])
            if s is None:
                print("HARNESS-ERROR property=%s known finding %s names "
                      "unknown sub-check %s" % (prop, k["id"], rp["sub"]))
                return 2
            out = os.path.join(rundir, "kf-%s.json" % k["id"])
            cmd = [PY, "-m", "vp.worker", "--prop", prop, "--sub", s.name,
                   "--outdir", rundir, "--out", out, "--replay", rpath]
            kf_units.append((k, s, cmd, out))

        # ---------------- committed regression replays ---------------------
        rdir = os.path.join(VERIF, "replays", prop)
        kf_paths = {os.path.abspath(os.path.join(VERIF, k["replay"]))
                    for k in known if k.get("replay")}
        rg_units = []
        if os.path.isdir(rdir) and not a.only:
            for fn in sorted(os.listdir(rdir)):
                rpath = os.path.join(rdir, fn)
                if not fn.endswith(".json") or \
                        os.path.abspath(rpath) in kf_paths:
                    continue
                rp = json.load(open(rpath))
                s = submap.get(rp["sub"])
                if s is None:
                    print("HARNESS-ERROR property=%s replay %s names unknown "
                          "sub-check %s" % (prop, fn, rp["sub"]))
                    return 2
                out = os.path.join(rundir, "rg-%s" % fn)
                cmd = [PY, "-m", "vp.worker", "--prop", prop, "--sub", s.name,
                       "--outdir", rundir, "--out", out, "--replay", rpath]
                rg_units.append((rpath, rp, s, cmd, out))

        # ---------------- work units ---------------------------------------
        for s in subs:
            if a.only and not fnmatch.fnmatchcase(s.name, a.only):
                continue
            shards, n = s.plan(a.tier)
            if n is not None and a.scale != 1:
                n = max(1, int(n * a.scale))
            for sh in range(shards):
                out = os.path.join(rundir, "%s-%d.json" % (s.name, sh))
                cmd = [PY, "-m", "vp.worker", "--prop", prop, "--sub", s.name,
                       "--tier", a.tier, "--seed", str(a.seed),
                       "--shard", str(sh), "--nshards", str(shards),
                       "--known", knownfile, "--outdir", outdir, "--out", out]
                if n is not None:
                    cmd += ["--n", str(n)]
                to = s.timeout[0 if a.tier == "quick" else 1]
                if os.environ.get("VP_UNIT_TIMEOUT"):   # harness self-test
                    to = float(os.environ["VP_UNIT_TIMEOUT"])
                units.append((s, sh, cmd, out, to))

        results = []
        kf_results = []
        with concurrent.futures.ThreadPoolExecutor(max(1, a.jobs)) as ex:
            kf_futs = [(k, ex.submit(run_unit, cmd,
                                     worker_env(s.flavour, bdirs[s.flavour]),
                                     s.timeout[0], out))
                       for k, s, cmd, out in kf_units]
            rg_futs = [(rpath, rp, ex.submit(
                run_unit, cmd, worker_env(s.flavour, bdirs[s.flavour]),
                s.timeout[0], out)) for rpath, rp, s, cmd, out in rg_units]
            futs = [(s, sh, ex.submit(run_unit, cmd,
                                      worker_env(s.flavour, bdirs[s.flavour]),
                                      to, out))
                    for s, sh, cmd, out, to in units]
            for k, f in kf_futs:
                kf_results.append((k, f.result()))
            for s, sh, f in futs:
                results.append((s, sh, f.result()))

        regress_fail = 0
        for rpath, rp, f in rg_futs:
            r = f.result()
            if r.get("status") != "ok":
                print("HARNESS-ERROR property=%s regression replay %s: %s"
                      % (prop, rpath, r.get("error") or r.get("status")))
                sys.stdout.write(r.get("traceback", "") or "")
                status = 2
                continue
            if any(f_["clause"] == rp.get("clause")
                   for f_ in r.get("replay_fails", [])):
                print("VIOLATION property=%s replay=%s" % (prop, rpath))
                print("  regression: %s" % rp.get("signature"))
                regress_fail += 1
        if regress_fail and status == 0:
            status = 1
        for k, r in kf_results:
            if r.get("status") != "ok":
                print("HARNESS-ERROR property=%s known-finding replay %s: %s"
                      % (prop, k["id"], r.get("error") or r.get("status")))
                sys.stdout.write(r.get("traceback", "") or "")
                status = 2
                continue
            hit = [f for f in r.get("replay_fails", [])
                   if fnmatch.fnmatchcase("%s/%s" % (r["sub"], f["clause"]),
                                          k["signature"])]
            if hit:
                print("KNOWN-FINDING: property=%s %s [%s]" % (
                    prop, k["what_fails"], k["id"]))
            else:
                print("note: known finding %s no longer reproduces from its "
                      "committed replay (property=%s)" % (k["id"], prop))

        # ---------------- merge --------------------------------------------
        ev_total = 0
        nt = set()
        labels = {}
        excluded = {}
        per_sub = {}
        samples = []
        violations = {}
        inconclusive = 0
        exhaustive_flags = []
        extra = {}
        for s, sh, r in results:
            ps = per_sub.setdefault(s.name, {
                "evaluations": 0, "distinct_nontrivial": 0, "shards": 0,
                "wall_s": 0.0, "timeouts": 0})
            if r.get("status") == "timeout":
                inconclusive += 1
                ps["timeouts"] += 1
                print("note: %s/%s shard %d timed out (inconclusive)" % (
                    prop, s.name, sh))
                # ... but what it had found before is a finding all the same
                for v in r.get("partial_violations") or []:
                    cur = violations.get(v["signature"])
                    if cur is None:
                        violations[v["signature"]] = dict(v)
                    else:
                        cur["count"] += v["count"]
                continue
            if r.get("status") != "ok":
                print("HARNESS-ERROR property=%s sub=%s shard=%d: %s" % (
                    prop, s.name, sh, r.get("error")))
                sys.stdout.write((r.get("traceback") or "")[-3000:] + "\n")
                status = 2
                continue
            ev_total += r["evaluations"]
            ps["evaluations"] += r["evaluations"]
            ps["shards"] += 1
            ps["wall_s"] = round(ps["wall_s"] + r["wall_s"], 2)
            key = set((s.name + ":" + h) for h in r["nt_hashes"])
            ps.setdefault("_nt", set()).update(key)
            nt.update(key)
            for kx, v in r["labels"].items():
                kk = "%s:%s" % (s.name, kx)
                labels[kk] = labels.get(kk, 0) + v
            for kx, v in r["excluded"].items():
                excluded[kx] = excluded.get(kx, 0) + v
            inconclusive += r.get("inconclusive", 0)
            if r.get("exhaustive") is not None:
                exhaustive_flags.append(bool(r["exhaustive"]))
                ps["exhaustive"] = bool(r["exhaustive"]) and ps.get(
                    "exhaustive", True)
            for kx, v in (r.get("extra") or {}).items():
                extra.setdefault(s.name, {})[kx] = v
            if len(samples) < 10:
                for c in r["samples"][:2]:
                    samples.append({"sub": s.name, "case": c})
            for v in r["violations"]:
                cur = violations.get(v["signature"])
                if cur is None:
                    violations[v["signature"]] = dict(v)
                else:
                    cur["count"] += v["count"]
        for ps in per_sub.values():
            ps["distinct_nontrivial"] = len(ps.pop("_nt", ()))

        # an exception that can only be a programming slip inside the
        # library (never a refusal of an input) is worth a line even where
        # the property at hand does not make it a violation
        slips = {k: v for k, v in labels.items() if any(
            t in k for t in ("NameError", "UnboundLocalError", "ImportError",
                             "ModuleNotFoundError", "SyntaxError"))}
        for k, v in sorted(slips.items())[:10]:
            print("note: %s observed %d times (%s)" % (
                k.split(":", 1)[1], v, k.split(":", 1)[0]), file=sys.stderr)
        for sig, v in sorted(violations.items()):
            print("VIOLATION property=%s replay=%s" % (prop, v["replay"]))
            print("  signature=%s count=%d detail=%s" % (
                sig, v["count"], v["detail"][:400]))
        if violations and status == 0:
            status = 1

        wall = time.time() - t0
        if not a.no_evidence and not a.only:
            sys.path.append(os.path.join(VERIF, ".deps"))
            import hypothesis
            import numpy
            ev = {
                "property_id": prop, "tier": a.tier, "seed": a.seed,
                "level": "exploration",
                "coverage": {
                    "evaluations": ev_total,
                    "distinct_nontrivial": len(nt),
                    "rule": getattr(mod, "RULE", ""),
                    "samples": samples[:10],
                    "exhaustive": bool(exhaustive_flags)
                    and all(exhaustive_flags) and all(
                        "exhaustive" in p for p in per_sub.values()),
                    "exhaustive_subchecks": sorted(
                        n_ for n_, p in per_sub.items()
                        if p.get("exhaustive")),
                    "per_subcheck": per_sub,
                    "labels": dict(sorted(labels.items())),
                    "excluded_known": excluded,
                    "inconclusive_timeouts": inconclusive,
                    "extra": extra,
                    "tree_hash": tree,
                    "repo": build.repo_root(),
                    "tools": {"hypothesis": hypothesis.__version__,
                              "numpy": numpy.__version__,
                              "python": sys.version.split()[0]},
                    "violation_signatures": sorted(violations),
                    "known_findings_listed": [k["id"] for k in known],
                    "regression_replays": len(rg_units),
                    "regression_replays_failing": regress_fail,
                },
                "assumptions": list(getattr(mod, "ASSUMPTIONS", [])),
                "wall_s": round(wall, 2),
                "violations": len(violations) + regress_fail,
            }
            os.makedirs(os.path.join(VERIF, "evidence"), exist_ok=True)
            p = os.path.join(VERIF, "evidence", "%s.json" % prop)
            with open(p + ".tmp", "w") as fh:
                json.dump(ev, fh, indent=1, sort_keys=True)
            os.rename(p + ".tmp", p)
        print("%s tier=%s seed=%d evaluations=%d distinct_nontrivial=%d "
              "violations=%d excluded_known=%d inconclusive=%d wall=%.1fs"
              % (prop, a.tier, a.seed, ev_total, len(nt), len(violations),
                 sum(excluded.values()), inconclusive, wall))
        return status
    finally:
        shutil.rmtree(rundir, ignore_errors=True)


if __name__ == "__main__":
    sys.exit(main())
