"""Shared graph generators.  A graph case is a JSON-able dict
    {"n": int, "directed": bool, "edges": [[i, j], ...]}
(undirected: each edge once with i < j; directed: i -> j, no loops, no
multi-edges).  Helpers turn it into numpy arrays."""
import itertools

import numpy as np
from hypothesis import strategies as st


def adj(case):
    n = case["n"]
    A = np.zeros((n, n), dtype=np.int8)
    for i, j in case["edges"]:
        A[i, j] = 1
        if not case["directed"]:
            A[j, i] = 1
    return A


def from_adj(A, directed):
    A = np.asarray(A)
    n = len(A)
    if directed:
        edges = [[int(i), int(j)] for i in range(n) for j in range(n)
                 if i != j and A[i, j]]
    else:
        edges = [[int(i), int(j)] for i in range(n) for j in range(i + 1, n)
                 if A[i, j] or A[j, i]]
    return {"n": int(n), "directed": bool(directed), "edges": edges}


def components(A):
    """Weakly connected components as lists of nodes."""
    n = len(A)
    U = (np.asarray(A) + np.asarray(A).T) > 0
    seen = [False] * n
    out = []
    for s in range(n):
        if seen[s]:
            continue
        comp = [s]
        seen[s] = True
        for v in comp:
            for u in np.nonzero(U[v])[0]:
                if not seen[u]:
                    seen[u] = True
                    comp.append(int(u))
        out.append(sorted(comp))
    return out


def is_connected(A):
    return len(components(A)) == 1


# --------------------------------------------------------------- strategies

def _pairs(n, directed):
    if directed:
        return [(i, j) for i in range(n) for j in range(n) if i != j]
    return [(i, j) for i in range(n) for j in range(i + 1, n)]


@st.composite
def random_graph(draw, n_min=2, n_max=12, directed=False):
    n = draw(st.integers(n_min, n_max))
    pairs = _pairs(n, directed)
    thr = draw(st.integers(0, 100))
    bits = draw(st.lists(st.integers(0, 99), min_size=len(pairs),
                         max_size=len(pairs)))
    edges = [[i, j] for (i, j), b in zip(pairs, bits) if b < thr]
    return {"n": n, "directed": directed, "edges": edges}


def _family(kind, m, k):
    """Undirected structured graph on m nodes as edge list."""
    if kind == "path":
        return [[i, i + 1] for i in range(m - 1)]
    if kind == "cycle":
        return [[i, (i + 1)] for i in range(m - 1)] + \
            ([[0, m - 1]] if m >= 3 else [])
    if kind == "star":
        return [[0, i] for i in range(1, m)]
    if kind == "clique":
        return [[i, j] for i in range(m) for j in range(i + 1, m)]
    if kind == "bipartite":
        a = max(1, min(m - 1, k))
        return [[i, j] for i in range(a) for j in range(a, m)]
    if kind == "wheel":
        return [[0, i] for i in range(1, m)] + \
            [[i, i + 1] for i in range(1, m - 1)] + \
            ([[1, m - 1]] if m >= 4 else [])
    if kind == "ladder":
        h = m // 2
        e = [[i, i + 1] for i in range(h - 1)] + \
            [[h + i, h + i + 1] for i in range(h - 1)] + \
            [[i, h + i] for i in range(h)]
        return e
    raise ValueError(kind)


FAMILIES = ["path", "cycle", "star", "clique", "bipartite", "wheel", "ladder"]


@st.composite
def structured_graph(draw, n_min=2, n_max=12, directed=False):
    """Disjoint union of 1-3 structured/random blocks plus isolated nodes,
    under a random relabelling; directed variants orient each edge randomly
    (forward / backward / both)."""
    n = draw(st.integers(n_min, n_max))
    iso = draw(st.integers(0, min(2, max(0, n - 2))))
    rest = n - iso
    nblocks = draw(st.integers(1, 3 if rest >= 6 else (2 if rest >= 4 else 1)))
    sizes = []
    left = rest
    for b in range(nblocks):
        if b == nblocks - 1:
            sizes.append(left)
        else:
            s = draw(st.integers(2, max(2, left - 2 * (nblocks - b - 1))))
            sizes.append(s)
            left -= s
    edges = []
    off = 0
    for s in sizes:
        if s <= 0:
            continue
        kind = draw(st.sampled_from(FAMILIES + ["random"]))
        if kind == "random":
            g = draw(random_graph(s, s, False))
            e = g["edges"]
        else:
            e = _family(kind, s, draw(st.integers(1, max(1, s - 1))))
        edges += [[i + off, j + off] for i, j in e]
        off += s
    perm = draw(st.permutations(list(range(n))))
    und = sorted({tuple(sorted((perm[i], perm[j]))) for i, j in edges})
    if not directed:
        return {"n": n, "directed": False, "edges": [list(e) for e in und]}
    orient = draw(st.lists(st.integers(0, 2), min_size=len(und),
                           max_size=len(und)))
    dedges = []
    for (i, j), o in zip(und, orient):
        if o in (0, 2):
            dedges.append([i, j])
        if o in (1, 2):
            dedges.append([j, i])
    return {"n": n, "directed": True, "edges": sorted(dedges)}


def graphs(n_min=2, n_max=12, directed=False):
    return st.one_of(random_graph(n_min, n_max, directed),
                     structured_graph(n_min, n_max, directed))


def any_graphs(n_min=2, n_max=12):
    return st.one_of(graphs(n_min, n_max, False), graphs(n_min, n_max, True))


@st.composite
def connected_graph(draw, n_min=2, n_max=12):
    """Undirected connected graph by construction: random spanning tree
    (random attachment) plus random extra edges."""
    n = draw(st.integers(n_min, n_max))
    order = draw(st.permutations(list(range(n))))
    edges = set()
    for idx in range(1, n):
        p = draw(st.integers(0, idx - 1))
        edges.add(tuple(sorted((order[idx], order[p]))))
    pairs = _pairs(n, False)
    thr = draw(st.integers(0, 100))
    bits = draw(st.lists(st.integers(0, 99), min_size=len(pairs),
                         max_size=len(pairs)))
    for (i, j), b in zip(pairs, bits):
        if b < thr:
            edges.add((i, j))
    return {"n": n, "directed": False,
            "edges": [list(e) for e in sorted(edges)]}


# ------------------------------------------------------------- enumeration

def all_graphs(n, directed):
    pairs = _pairs(n, directed)
    for bits in itertools.product((0, 1), repeat=len(pairs)):
        yield {"n": n, "directed": directed,
               "edges": [list(p) for p, b in zip(pairs, bits) if b]}


def all_small_graphs(max_undirected=5, max_directed=4, n_min=2):
    for n in range(n_min, max_undirected + 1):
        yield from all_graphs(n, False)
    for n in range(n_min, max_directed + 1):
        yield from all_graphs(n, True)


# ------------------------------------------------------ weights/attributes

def node_weights(n):
    """Positive weights; dyadic k/8 so that sums are exact."""
    return st.lists(st.integers(1, 40).map(lambda k: k / 8.0),
                    min_size=n, max_size=n)


@st.composite
def node_weights_wide(draw, n):
    """Positive weights of any magnitude and precision: the dyadic k/8 grid,
    k/7 (not exactly representable, neither in float32), and either of them
    times a common factor 1e-9 .. 1e9 (areas as fractions of the sphere,
    populations ...)."""
    base = draw(st.lists(st.integers(1, 40), min_size=n, max_size=n))
    den = draw(st.sampled_from([8.0, 8.0, 7.0]))
    # (1e-8: the weights then straddle numpy's default absolute tolerance,
    # which a guard like np.isclose(w, 0) silently applies)
    scale = draw(st.sampled_from([1.0, 1.0, 1.0, 1e-9, 1e-8, 1e-6, 1e-3, 1e3,
                                  1e6, 1e9]))
    return [k / den * scale for k in base]


@st.composite
def link_attr(draw, n, directed=False, lo=1, hi=20, denom=None):
    """Full n x n positive matrix (symmetric when undirected, zero
    diagonal) as nested lists; only entries on links matter.  Values are
    k/4 or k/7 (the latter with a full float64 mantissa)."""
    if denom is None:
        denom = draw(st.sampled_from([4.0, 4.0, 7.0]))
    if directed:
        vals = draw(st.lists(st.integers(lo, hi), min_size=n * n,
                             max_size=n * n))
        W = np.array(vals, dtype=float).reshape(n, n) / denom
    else:
        m = n * (n - 1) // 2
        vals = draw(st.lists(st.integers(lo, hi), min_size=m, max_size=m))
        W = np.zeros((n, n))
        W[np.triu_indices(n, 1)] = np.array(vals, dtype=float) / denom
        W = W + W.T
    np.fill_diagonal(W, 0)
    return W.tolist()


def represent_adj(A, key=None):
    """The same 0/1 adjacency matrix as another 'square array-like': int64,
    int8, bool, float64, Fortran order, nested lists, scipy csr / csc / coo,
    csr / csc with explicitly stored zeros -
    chosen as a pure function of the matrix (or of `key`)."""
    import zlib
    import scipy.sparse as sp
    A = np.ascontiguousarray(np.asarray(A).astype(np.int64))
    if key is None:
        key = zlib.crc32(A.tobytes()) ^ (len(A) * 2654435761 & 0xffffffff)
    k = key % 11
    if k in (9, 10):
        # sparse matrices may hold explicitly STORED zeros (after
        # S[i, j] = 0 or S.data[...] = 0): they are not links
        n = len(A)
        rows, cols, vals = [], [], []
        for i in range(n):
            for j in range(n):
                if A[i, j]:
                    rows.append(i); cols.append(j); vals.append(1)
                elif i != j and (3 * i + 5 * j + key) % 4 == 0:
                    rows.append(i); cols.append(j); vals.append(0)
        M = sp.coo_matrix((vals, (rows, cols)), shape=(n, n), dtype=np.int64)
        M = M.tocsr() if k == 9 else M.tocsc()
        return M
    if k == 1:
        return A.astype(np.int8)
    if k == 2:
        return A.astype(bool)
    if k == 3:
        return A.astype(np.float64)
    if k == 4:
        return np.asfortranarray(A)
    if k == 5:
        return A.tolist()
    if k == 6:
        return sp.csr_matrix(A)
    if k == 7:
        return sp.csc_matrix(A)
    if k == 8:
        return sp.coo_matrix(A)
    return A


def represent_weights(w, key=None):
    """Node weights as list, float64 / float32 (when exact) array, integer
    array (when integral) or tuple."""
    import zlib
    if w is None:
        return None
    a = np.asarray(w, dtype=np.float64)
    if key is None:
        key = zlib.crc32(a.tobytes()) + 3 * len(a)
    k = key % 5
    if k == 1:
        return [float(v) for v in a]
    if k == 2:
        b = a.astype(np.float32)
        if np.array_equal(b.astype(np.float64), a):
            return b
    if k == 3 and (a == np.round(a)).all():
        return a.astype(np.int64)
    if k == 4:
        return tuple(float(v) for v in a)
    return a
